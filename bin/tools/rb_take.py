# rb_take.py <relative file> ours|theirs|<file with replacement>: resolve the FIRST conflict hunk of a file in /tmp/rb
import sys
p='/tmp/rb/'+sys.argv[1]
s=open(p).read()
a=s.index('<<<<<<< '); m=s.index('=======\n',a); b=s.index('>>>>>>> ',m); e=s.index('\n',b)+1
ours=s[s.index('\n',a)+1:m]; theirs=s[m+8:b]
mode=sys.argv[2]
mid = ours if mode=='ours' else theirs if mode=='theirs' else open(mode).read()
open(p,'w').write(s[:a]+mid+s[e:])
