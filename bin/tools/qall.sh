#!/bin/bash
# usage: qall.sh [--repo DIR]
cd /verif
for p in C02 C03 C04 C05 C06 C07 C08 C09 C10 C11 C12 C13 C14 C15 C16 C17 C18 C19 C20; do (python3-vt bin/check.py $p --tier quick --no-evidence "$@" > /tmp/q_$p.out 2>&1; echo "$p exit=$?" > /tmp/q_$p.rc) & done 2>/dev/null
wait
cat /tmp/q_C*.rc | grep -v "exit=0" 
grep -h -E "^VIOLATION|ANALYSIS-ERROR|UNDECIDED|^  rule " /tmp/q_C*.out | grep -v "^VIOLATION" | sort | uniq -c
echo "done"
