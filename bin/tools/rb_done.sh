#!/bin/bash
kind=$1; name=$2
if grep -rqn '<<<<<<<\|>>>>>>>' /tmp/rb/ml_pipeline_engine /tmp/rb/ml_pipeline_viewer || [ -d /tmp/rb/.git/sequencer ] || [ -n "$(cd /tmp/rb && git status --short | grep '^UU')" ]; then echo 'UNRESOLVED - not writing patch'; exit 1; fi
cd /tmp/rb && /venv/bin/python -m pytest -q -p no:cacheprovider --timeout=900 --deselect tests/visualization 2>&1 | tail -1
d=/verif/$kind/$name; [ -f $d/patch.orig.diff ] || cp $d/patch.diff $d/patch.orig.diff
git diff $(git -C /repo rev-parse main) HEAD -- ml_pipeline_engine ml_pipeline_viewer > $d/patch.diff; wc -l < $d/patch.diff
if [ -f $d/demo.py ]; then PYTHONPATH=/tmp/rb /venv/bin/python $d/demo.py >/dev/null 2>&1; echo "demo exit with change: $?"; fi
cd /tmp && git -C /repo worktree remove --force /tmp/rb
