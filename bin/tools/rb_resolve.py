import sys,re
p='/tmp/rb/ml_pipeline_engine/dag/manager.py'
s=open(p).read()
mode=sys.argv[1]           # ours | theirs | custom
a=s.index('<<<<<<< '); m=s.index('=======\n',a); b=s.index('>>>>>>> ',m); e=s.index('\n',b)+1
ours=s[s.index('\n',a)+1:m]; theirs=s[m+8:b]
if mode=='ours': mid=ours
elif mode=='theirs': mid=theirs
else: mid=open(sys.argv[2]).read()
s=s[:a]+mid+s[e:]
for old,new in [x.split('=>',1) for x in sys.argv[3:]] if mode!='custom' else []:
    pass
open(p,'w').write(s)
