#!/usr/bin/env python3
"""bs.py <benign|seeded> <name> <PID>... : a scratch copy of /repo with the stored patch applied (never /repo itself), the quick
checks of the named properties run against it, the copy removed."""
import os, shutil, subprocess, sys
VERIF = os.path.dirname(os.path.dirname(os.path.dirname(os.path.abspath(__file__))))
sys.path.insert(0, os.path.join(VERIF, 'bin'))
import scratch
kind, name, pids = sys.argv[1], sys.argv[2], sys.argv[3:]
tmp, how = scratch.make(os.path.join(VERIF, kind, name, 'patch.diff'), 'sa_bs_')
if tmp is None:
    sys.exit(f'patch does not apply: {how}')
try:
    for pid in pids:
        r = subprocess.run(['python3-vt', os.path.join(VERIF, 'bin', 'check.py'), pid, '--tier', 'quick', '--no-evidence', '--repo', tmp],
                           capture_output=True, text=True)
        for ln in (r.stdout + r.stderr).splitlines():
            if not ln.startswith('KNOWN-FINDING'):
                print(ln[:900])
finally:
    if os.environ.get('KEEP'):
        print('kept', tmp)
    else:
        shutil.rmtree(tmp, ignore_errors=True)
