import sys
pid, prev, extra = sys.argv[1], sys.argv[2], (sys.argv[3] if len(sys.argv)>3 else '')
d=f'/tmp/seed_{pid}'
print(f"""You are working in a scratch git worktree of the Python project tochka-public/ml-pipeline-engine at {d} (already created, clean). Work ONLY inside {d}. Do not read or touch /repo or /verif. Python interpreter: /venv/bin/python (the package is imported from the current directory, so always run from {d}). Test-suite: `cd {d} && /venv/bin/python -m pytest -q -p no:cacheprovider --timeout=900` — 62 tests pass; the 2 tests in tests/visualization fail for an unrelated missing dependency (the module importlib_resources is not installed; a script that needs ml_pipeline_viewer.visualization.dag can do `import sys, types; sys.modules.setdefault('importlib_resources', types.ModuleType('importlib_resources'))` first), ignore those two.

The project is a small asyncio DAG execution engine (ml_pipeline_engine/: dag/manager.py is the scheduler, dag/storage.py the result store, dag/graph.py sub-dag helpers, dag/dag.py the DAG object, dag_builders/annotation/builder.py + marks.py build DAGs from type annotations, node/node.py runs node bodies, node/retrying.py the retry policy, parallelism/ the pool registries, events.py + context/dag.py lifecycle events and the context, artifact_store/ the stores, chart.py the public PipelineChart.run entry, ml_pipeline_viewer/visualization the graph viewer; docs/ and tests/ show usage).

A semantic property that the engine must satisfy is written in /tmp/prop_{pid}.txt — read it first.

YOUR TASK: produce ONE realistic change to the library source (under ml_pipeline_engine/ or ml_pipeline_viewer/) — the kind of change a developer could plausibly commit (a refactor, an optimisation, a "simplification", a small feature tweak, a reordered statement, a helper extracted or inlined) — that BREAKS this property while (a) the code still imports and compiles, and (b) all 62 currently-passing tests still pass. The breakage must need something specific to manifest (a particular interleaving, a fault or cancellation at a particular point, a multi-step sequence of operations, an unusual input / configuration, or two cooperating sites that each look fine alone) rather than being exposed at once by ordinary use. Prefer subtle over blatant; do not add obviously malicious code (no `if False`, no random, no sleeps added to the library).

IMPORTANT - be different from an earlier attempt: another contributor already produced this change for the same property: "{prev}". Do NOT repeat it or a close variant; break the property through a different mechanism, preferably in a different function or file. {extra}

Then write a demonstration: a standalone script demo.py (run as `/venv/bin/python _seed/demo.py` from {d}; it may build pipelines with the public API, use asyncio and `asyncio.wait_for` timeouts to detect hangs; make it deterministic) that prints PASS and exits 0 on the UNMODIFIED code and prints FAIL and exits non-zero WITH your change.

Deliverables, all in {d}/_seed/ :
 - patch.diff : `git diff -- ml_pipeline_engine ml_pipeline_viewer` of your library change only (must apply with `git apply` to a clean checkout of the same commit);
 - demo.py ;
 - notes.md : what you changed, why it breaks the property, what is needed for it to manifest, the output of demo.py before and after, and the tail of the pytest output with the change applied.
Verify everything yourself: run the test-suite with the change applied (62 passed), run demo.py without the change (`git apply -R _seed/patch.diff` or `git stash`; _seed/ is untracked so plain `git stash` leaves it) and with it. Leave the worktree with the change applied. Do not commit. Finish with a 5-line summary: file(s) changed, one-sentence description of the change, how it manifests, test result, demo result before/after.""")
