#!/bin/bash
# usage: ba.sh <benign|seeded> <name> <PID>...   apply stored patch to /repo, run quick checks, restore
kind=$1; name=$2; shift 2
cd /verif
git -C /repo apply /verif/$kind/$name/patch.diff || exit 3
for p in "$@"; do python3-vt bin/check.py $p --tier quick --no-evidence 2>&1 | grep -v "^KNOWN-FINDING" | cut -c1-900; done
git -C /repo checkout -- . ; git -C /repo status --short | head -3
