#!/usr/bin/env python3
"""mk_variant.py <selftest id> <dst dir>: materialise a selftest variant (mutant / benign twin / repair) for debugging."""
import os, sys
sys.path.insert(0, os.path.dirname(os.path.dirname(os.path.dirname(os.path.abspath(__file__)))))
from sa import selftest as st
vid, dst = sys.argv[1], sys.argv[2]
edits = None
for lst in (st.MUTANTS, st.BENIGN, st.REPAIRS):
    for item in lst:
        if item[0] == vid:
            edits = item[1]
os.makedirs(dst, exist_ok=True)
st._copy_tree('/repo', dst)
print(st._apply(dst, edits) or 'applied')
