#!/bin/bash
# continue a cherry-pick sequence in /tmp/rb after manual resolution; skips picks that became empty
cd /tmp/rb && git add -A
for i in 1 2 3 4 5 6 7 8 9 10 11 12 13 14; do
  out=$(git -c user.name=x -c user.email=x@x -c core.editor=true cherry-pick --continue 2>&1)
  if echo "$out" | grep -q "nothing to commit\|The previous cherry-pick is now empty"; then git -c user.name=x -c user.email=x@x cherry-pick --skip 2>&1 | grep -i "conflict" ; fi
  if [ -z "$(git status --short | grep '^UU\|^AA')" ] && ! [ -f .git/CHERRY_PICK_HEAD ] && ! [ -d "$(git rev-parse --git-dir)/sequencer" ]; then break; fi
  if [ -n "$(git status --short | grep '^UU\|^AA')" ]; then echo "CONFLICT remains:"; git status --short | grep '^UU\|^AA'; break; fi
done
git log --oneline | head -3; grep -rn "<<<<<<<\|>>>>>>>" ml_pipeline_engine ml_pipeline_viewer | head -3
git diff $(git -C /repo rev-parse main) HEAD --stat
