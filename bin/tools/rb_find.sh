#!/bin/bash
# rb_find.sh <kind> <name>: find latest commit where the stored patch applies, then replay later commits
kind=$1; name=$2
rm -rf /tmp/rb; git -C /repo worktree prune
for c in $(git -C /repo log --format=%h main | head -30); do
  git -C /repo worktree add -q --detach /tmp/rb $c
  if (cd /tmp/rb && git apply --check /verif/$kind/$name/patch.diff 2>/dev/null); then echo "applies at $c"; base=$c; break; fi
  git -C /repo worktree remove --force /tmp/rb
done
[ -z "$base" ] && { echo "no base found"; exit 1; }
cd /tmp/rb && git apply /verif/$kind/$name/patch.diff && git -c user.name=x -c user.email=x@x commit -qam "$name" && git -c user.name=x -c user.email=x@x cherry-pick $base..$(git -C /repo rev-parse main) 2>&1 | grep -i "conflict\|error: could" | head -3
grep -rn "<<<<<<<\|>>>>>>>" ml_pipeline_engine | head
