#!/bin/bash
# behaviour checks of the fixed defects on the rebased tree in /tmp/rb
for f in C16/defect_3.py C16/defect_5.py C15/defect_5.py C17/defect_1.py C20/defect_1.py C20/defect_2.py; do
  (cd /verif/findings/hunt/$(dirname $f) && PYTHONPATH=/tmp/rb timeout 60 /venv/bin/python $(basename $f) >/dev/null 2>&1; echo -n "$f:$? ")
done; echo
