#!/usr/bin/env python3
"""Regenerates /verif/MANIFEST.json from the rule registry (sa/rules/__init__.py)."""
import json
import os
import sys

HERE = os.path.dirname(os.path.abspath(__file__))
VERIF = os.path.dirname(HERE)
sys.path.insert(0, VERIF)
from sa.rules import PROPERTIES, RULES  # noqa: E402

ALL = [f'C{n:02d}' for n in range(1, 21)]
NOT_APPLICABLE = {
    'C01': 'value equality with a reference dataflow semantics over all programs, inputs and schedules is a runtime '
           'quantity; no structural clause of it exists that is not already decided under C02-C05 and C09-C11, and '
           'schedule-independence of a value needs execution or a model (a different family than static analysis)',
}
PENDING = 'static rules for this property are designed (DESIGN.md section 4) but not built and validated yet; not claimed'

BASELINE = ('cd /repo && /venv/bin/python -m pytest -ra -q -p no:cacheprovider --timeout=900 '
            '--continue-on-collection-errors')

import json as _json
KNOWN = _json.load(open('/verif/known_findings.json'))
checks = []
for pid in ALL:
    if pid not in PROPERTIES:
        continue
    spec = PROPERTIES[pid]
    rules = ', '.join(r for r, _ in spec.rules)
    kf = sorted({e.get('finding', '?') for e in KNOWN.get('known', []) if e['property'] == pid})
    kf_note = (f' The current tree does NOT satisfy this property in full: {len(kf)} genuine defect(s) are recorded for it '
               f'({", ".join(kf)} in known_findings.json, each tied to one construct and printed as KNOWN-FINDING); any other '
               f'violation is reported.') if kf else ''
    checks.append({
        'property_id': pid,
        'quick_cmd': f'python3-vt /verif/bin/check.py {pid} --tier quick',
        'thorough_cmd': f'python3-vt /verif/bin/check.py {pid} --tier thorough',
        'evidence_file': f'/verif/evidence/{pid}.json',
        'replay_cmd_template': 'python3-vt /verif/bin/check.py --replay {path}',
        'engine': 'sa',
        'level_claimed': {
            'category': 'other',
            'text': f'Static analysis deciding necessary structural conditions of the property on every instance in the '
                    f'current source (exhaustive over the code, for all pipelines and schedules at once): {spec.decides}. '
                    f'Armed rules: {rules}.',
            'design_ref': f'DESIGN.md section 4, {pid}',
        },
        'level_note': f'Not decided: {spec.not_decided}. Trusted: CPython ast, the hand-built event CFG (cross-checked '
                      f'against compile()/dis in the thorough tier), the frozen fact tables (fault model, asyncio '
                      f'primitive semantics, ownership roots), networkx. The repository is never imported or executed. A passing check means '
                      f'every listed structural condition holds, not that the property holds (DESIGN 9.6, 9.8).{kf_note}',
        'technique': spec.technique,
    })

na = []
for pid in ALL:
    if pid in PROPERTIES:
        continue
    na.append({'property_id': pid, 'reason': NOT_APPLICABLE.get(pid, PENDING)})

manifest = {
    'version': 1,
    'setup_cmd': 'python3-vt -c "import ast, networkx, json; print(\'static-analysis tooling ok\')"',
    'hooks': {
        'guard': 'ML_PIPELINE_ENGINE_VERIF',
        'enable': 'none needed: the checks read the source of /repo and never build, import or run it; no hook commits exist',
        'baseline_off_cmd': BASELINE,
        'source_commits': [],
        'add_only': True,
    },
    'engines': [{
        'name': 'sa',
        'path': '/verif/sa',
        'serves_properties': [c['property_id'] for c in checks],
        'kind_free_text': 'repository-specific static analyser: ast loader + type/callee resolver, interprocedural event '
                          'CFG with exception/cancellation edges and finally duplication, symbolic keys, fact-sensitive '
                          'path search, effect/ownership analysis, finite-domain abstract interpretation of the result store',
    }],
    'checks': checks,
    'not_applicable': na,
    'notes': 'Static analysis only. Exit codes: 0 holds (KNOWN-FINDING lines for recorded defects), 1 + VIOLATION line, '
             '2 + ANALYSIS-ERROR when the analysis cannot decide (vanished anchor / unknown idiom). Genuine defects repaired '
             'in /repo are unguarded "fix:" commits listed in known_findings.json.',
}
with open(os.path.join(VERIF, 'MANIFEST.json'), 'w', encoding='utf-8') as fh:
    json.dump(manifest, fh, indent=1, ensure_ascii=False)
print('MANIFEST.json:', len(checks), 'checks,', len(na), 'not claimed')
