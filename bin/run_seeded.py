#!/usr/bin/env python3
"""run_seeded.py [name...] : applies every /verif/seeded/<name>/patch.diff to a scratch copy of /repo's current
tree (temp dir, removed afterwards) and reports which quick checks raise a violation.  Regression harness for the
seeded changes; never touches /repo."""
import json
import os
import shutil
import subprocess
import sys
import tempfile
from concurrent.futures import ProcessPoolExecutor

VERIF = os.path.dirname(os.path.dirname(os.path.abspath(__file__)))
sys.path.insert(0, VERIF)
sys.path.insert(0, os.path.join(VERIF, 'bin'))


def one(name):
    import check as chk
    from sa.program import AnalysisError
    from sa.report import known_index, load_known
    from sa.rules import PROPERTIES
    d = os.path.join(VERIF, 'seeded', name)
    meta = json.load(open(os.path.join(d, 'meta.json')))
    import scratch
    tmp, how = scratch.make(os.path.join(d, 'patch.diff'), 'sa_seed_')
    if tmp is None:
        return name, meta['property'], None, f'patch does not apply: {how}'
    try:
        known = known_index(load_known())
        det, und = {}, {}
        for pid in sorted(PROPERTIES):
            try:
                ctx, out, instances = chk.run_property(pid, 'quick', tmp)
            except AnalysisError as ex:
                und[pid] = str(ex)[:120]
                continue
            except Exception as ex:       # an internal error of the machinery is a finding about the machinery, not a crash of the harness
                und[pid] = f'internal error {type(ex).__name__}: {ex}'[:160]
                continue
            new = sorted({i.rule for i in instances if i.verdict == 'VIOLATION' and (pid, i.rule, i.construct) not in known})
            if new:
                det[pid] = new
        return name, meta['property'], det, und
    finally:
        shutil.rmtree(tmp, ignore_errors=True)


def main():
    update = '--update-meta' in sys.argv
    args = [a for a in sys.argv[1:] if not a.startswith('--')]
    names = args or sorted(os.listdir(os.path.join(VERIF, 'seeded')))
    with ProcessPoolExecutor(max_workers=16) as ex:
        results = list(ex.map(one, names))
    missed = 0
    neutral = 0
    for name, pid, det, und in results:
        neutralised = json.load(open(os.path.join(VERIF, 'seeded', name, 'meta.json'))).get('neutralised_by')
        if det is None and neutralised:
            neutral += 1
            print(f'{name:50s} NEUTRALISED target={pid} (patch kept against its original base; {neutralised[:60]}...)')
            continue
        if det is None:
            print(f'{name:50s} ERROR {und}')
            missed += 1
            continue
        ok = pid in det
        if neutralised:
            # a later fix of /repo removed the fault this change relied on: it no longer breaks the property
            neutral += 1
            print(f'{name:50s} NEUTRALISED target={pid} {det} ({neutralised[:60]}...)')
            continue
        missed += 0 if ok else 1
        if update:
            mp = os.path.join(VERIF, 'seeded', name, 'meta.json')
            meta = json.load(open(mp))
            meta['checks_reporting_violation'] = det
            meta['checks_undecided'] = und
            meta['detected_for_target_property'] = ok
            json.dump(meta, open(mp, 'w'), indent=1)
        print(f'{name:50s} {"DETECTED" if ok else "MISSED  "} target={pid} {det}' + (f' undecided={und}' if und else ''))
    print(f'{len(results) - missed - neutral}/{len(results) - neutral} seeded changes detected for their target property'
          + (f' ({neutral} neutralised by later fixes of /repo)' if neutral else ''))
    return 1 if missed else 0


if __name__ == '__main__':
    sys.exit(main())
