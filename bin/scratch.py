"""Scratch copies of /repo's packages with a stored patch applied (used by the seeded / benign harnesses only; the
registered checks never use it).  A patch recorded against an older commit of /repo is merged three-way through a
temporary detached worktree (which sees /repo's object store) and the result is copied out; /repo's own working
tree is never touched."""
import os
import shutil
import subprocess
import tempfile

PKGS = ('ml_pipeline_engine', 'ml_pipeline_viewer')
IGNORE = shutil.ignore_patterns('__pycache__', 'node_modules', 'src')


def make(patch: str, prefix: str = 'sa_scratch_'):
    """-> (directory or None, message).  The caller removes the directory."""
    tmp = tempfile.mkdtemp(prefix=prefix)
    for pkg in PKGS:
        shutil.copytree(os.path.join('/repo', pkg), os.path.join(tmp, pkg), ignore=IGNORE)
    subprocess.run(['git', 'init', '-q', '.'], cwd=tmp)
    r = subprocess.run(['git', 'apply', patch], cwd=tmp, capture_output=True, text=True)
    if r.returncode == 0:
        return tmp, 'applied'
    first_err = r.stderr.strip().splitlines()[0] if r.stderr.strip() else 'patch does not apply'
    # three-way merge against the blobs the patch was recorded on
    wt = tempfile.mkdtemp(prefix='sa_wt_')
    os.rmdir(wt)
    try:
        a = subprocess.run(['git', '-C', '/repo', 'worktree', 'add', '-q', '--detach', wt, 'HEAD'], capture_output=True, text=True)
        if a.returncode != 0:
            shutil.rmtree(tmp, ignore_errors=True)
            return None, f'{first_err}; worktree: {a.stderr.strip()[:120]}'
        m = subprocess.run(['git', 'apply', '--3way', patch], cwd=wt, capture_output=True, text=True)
        conflict = m.returncode != 0 or 'with conflicts' in (m.stderr + m.stdout)
        if conflict:
            shutil.rmtree(tmp, ignore_errors=True)
            return None, f'{first_err}; three-way merge onto the current HEAD conflicts'
        for pkg in PKGS:
            shutil.rmtree(os.path.join(tmp, pkg), ignore_errors=True)
            shutil.copytree(os.path.join(wt, pkg), os.path.join(tmp, pkg), ignore=IGNORE)
        return tmp, 'applied by three-way merge (recorded against an earlier commit)'
    finally:
        subprocess.run(['git', '-C', '/repo', 'worktree', 'remove', '--force', wt], capture_output=True, text=True)
        subprocess.run(['git', '-C', '/repo', 'worktree', 'prune'], capture_output=True, text=True)
