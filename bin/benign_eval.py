#!/usr/bin/env python3
"""benign_eval.py [<worktree> <tag>] | --all
Confirms behaviour-preserving refactorings produced by sub-agents (patch applies to HEAD, 62 tests pass) and
stores them under /verif/benign/<tag>-<i>/; with --all re-runs every stored refactoring on a scratch copy of
/repo and reports any check that raises a violation or becomes undecided (= a false alarm of the machinery).
A known finding whose construct key moved because a function / variable was renamed is reported as MOVED-KNOWN,
not as a false alarm."""
import glob
import json
import os
import shutil
import subprocess
import sys
import tempfile
from concurrent.futures import ProcessPoolExecutor

VERIF = os.path.dirname(os.path.dirname(os.path.abspath(__file__)))
sys.path.insert(0, VERIF)
sys.path.insert(0, os.path.join(VERIF, 'bin'))
PY = '/venv/bin/python'


def sh(cmd, cwd=None, timeout=900):
    r = subprocess.run(cmd, cwd=cwd, shell=isinstance(cmd, str), capture_output=True, text=True, timeout=timeout)
    return r.returncode, r.stdout + r.stderr


def store(wt, tag):
    out = []
    for diff in sorted(glob.glob(os.path.join(wt, '_out', 'refactor_*.diff'))):
        i = os.path.basename(diff).split('_')[1].split('.')[0]
        if os.path.getsize(diff) == 0:
            continue
        sh('git checkout -- ml_pipeline_engine ml_pipeline_viewer', cwd=wt)
        rc, o = sh(f'git apply {diff}', cwd=wt)
        if rc != 0:
            out.append((f'{tag}-{i}', 'patch does not apply'))
            continue
        rc, o = sh(f'{PY} -m pytest -q -p no:cacheprovider --timeout=900 --deselect tests/visualization', cwd=wt)
        line = next((ln.strip() for ln in reversed(o.strip().splitlines()) if ' passed' in ln or ' failed' in ln or ' error' in ln), '')
        sh('git checkout -- ml_pipeline_engine ml_pipeline_viewer', cwd=wt)
        if ' passed' not in line or 'failed' in line:
            out.append((f'{tag}-{i}', f'tests: {line}'))
            continue
        dst = os.path.join(VERIF, 'benign', f'{tag}-{i}')
        os.makedirs(dst, exist_ok=True)
        shutil.copy(diff, os.path.join(dst, 'patch.diff'))
        md = diff[:-5] + '.md'
        if os.path.exists(md):
            shutil.copy(md, os.path.join(dst, 'description.md'))
        json.dump({'origin': 'independent sub-agent asked for behaviour-preserving refactorings', 'tests_with_change': line},
                  open(os.path.join(dst, 'meta.json'), 'w'), indent=1)
        out.append((f'{tag}-{i}', 'stored'))
    return out


def one(name):
    import check as chk
    from sa.program import AnalysisError
    from sa.report import known_index, load_known
    from sa.rules import PROPERTIES
    d = os.path.join(VERIF, 'benign', name)
    import scratch
    tmp, how = scratch.make(os.path.join(d, 'patch.diff'), 'sa_benign_')
    if tmp is None:
        return name, None, f'patch does not apply: {how}', {}
    try:
        known = known_index(load_known())

        def tag(c):
            if '[' in c and c.rstrip().endswith(']'):
                return c[c.rindex('['):]
            return c.split('::')[-1].split('=>')[-1][-40:]
        known_tags = {(k[0], k[1], tag(k[2])) for k in known}
        alarms, und, moved = {}, {}, {}
        for pid in sorted(PROPERTIES):
            try:
                ctx, out, instances = chk.run_property(pid, 'quick', tmp)
            except AnalysisError as ex:
                und[pid] = str(ex)[:160]
                continue
            except Exception as ex:       # an internal error of the machinery is a finding about the machinery, not a crash of the harness
                und[pid] = f'internal error {type(ex).__name__}: {ex}'[:160]
                continue
            for i in instances:
                if i.verdict != 'VIOLATION' or (pid, i.rule, i.construct) in known:
                    continue
                if (pid, i.rule, tag(i.construct)) in known_tags:
                    moved.setdefault(pid, []).append(i.rule)
                else:
                    alarms.setdefault(pid, []).append(f'{i.rule}: {i.construct[-90:]}')
        return name, alarms, und, moved
    finally:
        shutil.rmtree(tmp, ignore_errors=True)


def main():
    if sys.argv[1:2] == ['--all'] or len(sys.argv) == 1:
        names = sorted(os.listdir(os.path.join(VERIF, 'benign'))) if os.path.isdir(os.path.join(VERIF, 'benign')) else []
        names = [n for n in names if not sys.argv[2:] or n in sys.argv[2:]]
        with ProcessPoolExecutor(max_workers=16) as ex:
            results = list(ex.map(one, names))
        bad = 0
        for name, alarms, und, moved in results:
            if alarms is None:
                print(f'{name:14s} ERROR {und}')
                bad += 1
                continue
            status = 'SILENT' if not alarms and not und else 'FALSE-ALARM'
            bad += status != 'SILENT'
            print(f'{name:14s} {status} {alarms or ""} {("undecided=" + str(und)) if und else ""} {("moved-known=" + str({k: sorted(set(v)) for k, v in moved.items()})) if moved else ""}')
        print(f'{len(results) - bad}/{len(results)} behaviour-preserving refactorings stay silent')
        return 1 if bad else 0
    wt, tag = sys.argv[1:3]
    for name, res in store(wt, tag):
        print(name, res)
    return 0


if __name__ == '__main__':
    sys.exit(main())
