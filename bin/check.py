#!/usr/bin/env python3
"""check.py <PROPERTY> [--tier quick|thorough] [--repo DIR]   |   check.py --replay FILE

Decides the structural rules of one property on the *current source* of the repository (never
imports or runs it).  Exit 0: every rule instance holds (known findings are printed as
KNOWN-FINDING lines); exit 1 + `VIOLATION property=<id> replay=<path>`: a rule instance fails that
is not a listed known finding; exit 2 + `ANALYSIS-ERROR ...`: the analysis could not decide (anchor
vanished, unknown idiom, crash) - never a silent pass.
"""
from __future__ import annotations

import argparse
import json
import os
import shutil
import sys
import time
import traceback

HERE = os.path.dirname(os.path.abspath(__file__))
VERIF = os.path.dirname(HERE)
sys.path.insert(0, VERIF)

from sa.engine import Ctx  # noqa: E402
from sa.program import AnalysisError  # noqa: E402
from sa.report import Collector, EVIDENCE_DIR, known_index, load_known  # noqa: E402
from sa.rules import PROPERTIES, RULE_GROUPS, RULES  # noqa: E402

DEFAULT_REPO = os.environ.get('VERIF_REPO', '/repo')


def run_property(pid: str, tier: str, repo: str):
    spec = PROPERTIES[pid]
    depth = 8 if tier == 'quick' else 12
    ctx = Ctx(repo, depth=depth)
    out = Collector()
    groups = []
    for rule_id, _scope in spec.rules:
        grp = RULES[rule_id][0]
        if grp not in groups:
            groups.append(grp)
    from sa.rules import EXTRA_GROUPS
    for grp in EXTRA_GROUPS.get(pid, []):
        if grp not in groups:
            groups.append(grp)
    # a rule group that cannot decide (AnalysisError) does not silence a concrete violation found by another group:
    # the undecided groups are remembered and make the run UNDECIDED only when no new violation is reported
    out.undecided = []
    for grp in groups:
        try:
            RULE_GROUPS[grp](ctx, out)
        except AnalysisError as ex:
            out.undecided.append((grp, str(ex)))
    wanted = {r for r, _ in spec.rules}
    scopes = dict(spec.rules)
    instances = []
    for inst in out.instances:
        if inst.rule not in wanted:
            continue
        if inst.props is not None and pid not in inst.props:
            continue
        scope = scopes.get(inst.rule)
        if scope is not None and not scope(inst):
            continue
        instances.append(inst)
    # one instance per (rule, construct): the same construct seen through several activations / finally copies
    merged = {}
    for inst in instances:
        k = (inst.rule, inst.construct)
        if k not in merged or (merged[k].verdict == 'PASS' and inst.verdict == 'VIOLATION'):
            merged[k] = inst
    instances = list(merged.values())
    # floors: a rule that matches fewer instances than confirmed by hand passes vacuously -> undecided
    any_violation = any(i.verdict == 'VIOLATION' for i in instances)
    if out.undecided:
        from sa.report import known_index as _ki, load_known as _lk
        known_ = _ki(_lk())
        if not any(i.verdict == 'VIOLATION' and (pid, i.rule, i.construct) not in known_ for i in instances):
            raise AnalysisError('; '.join(f'{g}: {m}' for g, m in out.undecided))
    for rule_id, floor in spec.floors.items():
        if any_violation:
            break          # the run already fails with a concrete construct; floors guard vacuous passes only
        n = sum(1 for i in instances if i.rule == rule_id)
        if n < floor:
            raise AnalysisError(f'rule {rule_id} matched {n} instance(s), fewer than the {floor} confirmed by hand: '
                                f'an anchor vanished or an idiom is not recognised')
    if tier == 'thorough':
        from sa import thorough
        thorough.extra_checks(ctx, out, pid, instances, repo)
    return ctx, out, instances


def write_evidence(pid: str, tier: str, ctx, out, instances, new_viol, known_hits, wall: float, extra=None) -> None:
    spec = PROPERTIES[pid]
    os.makedirs(EVIDENCE_DIR, exist_ok=True)
    rules_txt = {r: RULES[r][1] for r, _ in spec.rules}
    per_rule = {}
    for i in instances:
        d = per_rule.setdefault(i.rule, {'instances': 0, 'pass': 0, 'violation': 0})
        d['instances'] += 1
        d['pass' if i.verdict == 'PASS' else 'violation'] += 1
    samples = []
    seen_rules = set()
    for i in instances:                     # one sample per rule first, then the rest up to a cap
        if i.rule not in seen_rules:
            seen_rules.add(i.rule)
            samples.append(i.as_json())
    for i in instances:
        if len(samples) >= 60:
            break
        j = i.as_json()
        if j not in samples:
            samples.append(j)
    graphs = {}
    try:
        for fid, g in ctx.run_graphs().items():
            graphs[fid.split('::')[-1]] = {'events': len(g.evs), 'calls_not_expanded': len(g.cut_calls),
                                           'unresolved_calls': len({e.text(60) for e in g.unresolved})}
    except Exception:  # graphs are informational
        pass
    n_inst = len(instances)
    n_pass = sum(1 for i in instances if i.verdict == 'PASS')
    coverage = {
        'explanation': (
            f'Static analysis of the current source of {ctx.root} (no code of the repository is imported or run). '
            f'Clauses decided: {spec.decides}. Every instance of every armed rule in the analysed source is evaluated '
            f'(exhaustive over the source, not sampled); an instance is a concrete construct (publish site, fault source, '
            f'waiter, loop, handler ...) named by module::function::construct. Not decided by this check: {spec.not_decided}.'),
        'obligations': n_inst,
        'discharged': n_pass,
        'known_findings': len(known_hits),
        'new_violations': len(new_viol),
        'evaluations': n_inst,
        'distinct_nontrivial': len({(i.rule, i.construct) for i in instances}),
        'rule': 'one evaluation = one (rule, construct) instance found by role discovery in the parsed source; all are '
                'non-trivial (each names a concrete construct the rule applies to); distinct = distinct (rule, construct)',
        'rules': rules_txt,
        'per_rule': per_rule,
        'samples': samples,
        'exhaustive': True,
        'modules_analysed': len(ctx.p.modules),
        'functions_analysed': len(ctx.p.functions),
        'classes_analysed': len(ctx.p.classes),
        'run_path_graphs': graphs,
        'source_digest': ctx.p.digest(),
        'inlining_depth': ctx.depth,
        'counters': out.counters,
        'technique': spec.technique,
    }
    st = getattr(out, 'selftest', None)
    if st is not None:
        coverage['selftest'] = st
        coverage['selftest_rule'] = ('mutants = single-instance breaks of this property\'s rules applied to a scratch copy of the '
                                     'current tree, each must be reported; benign = behaviour-preserving edits, none may be reported')
    if extra:
        coverage.update(extra)
    ev = {
        'property_id': pid,
        'tier': tier,
        'seed': int(os.environ.get('VERIF_SEED', '0') or 0),
        'level': 'other',
        'coverage': coverage,
        'assumptions': [
            'CPython ast of the analysing interpreter parses the repository sources faithfully',
            'fault model: user code raises (node bodies, node constructors, event managers, artifact stores), explicit raise '
            'statements, the executor relays a body\'s exception; library calls (logging, networkx, storage accessors) are total',
            'asyncio primitives: Condition.wait_for re-checks its predicate, Lock.acquire does not yield when free, '
            'Event.set wakes all waiters, Task.exception() raises on a cancelled task',
            'cancellation of engine tasks happens only at teardown (stop-all) or for the local tasks of a failed one-of branch',
            'rules are necessary structural conditions: PASS means none of the structural ways this code base can break the '
            'property is present, not that the behaviour holds for every run',
        ],
        'wall_s': round(wall, 3),
        'violations': len(new_viol),
    }
    with open(os.path.join(EVIDENCE_DIR, f'{pid}.json'), 'w', encoding='utf-8') as fh:
        json.dump(ev, fh, indent=1, ensure_ascii=False, default=str)


def main(argv=None) -> int:
    ap = argparse.ArgumentParser()
    ap.add_argument('property', nargs='?')
    ap.add_argument('--tier', default=os.environ.get('VERIF_TIER', 'quick'), choices=['quick', 'thorough'])
    ap.add_argument('--repo', default=DEFAULT_REPO)
    ap.add_argument('--replay')
    ap.add_argument('--no-evidence', action='store_true', help='do not write evidence / replay files (self-test, seeded changes)')
    ap.add_argument('--verbose', '-v', action='store_true')
    args = ap.parse_args(argv)

    if args.replay:
        with open(args.replay, encoding='utf-8') as fh:
            rep = json.load(fh)
        pid = rep['property']
        try:
            ctx, out, instances = run_property(pid, 'quick', args.repo)
        except AnalysisError as ex:
            print(f'ANALYSIS-ERROR property={pid} {ex}')
            return 2
        hit = [i for i in instances if i.rule == rep['rule'] and i.construct == rep['construct'] and i.verdict == 'VIOLATION']
        if hit:
            i = hit[0]
            print(f'REPRODUCED property={pid} rule={i.rule} construct={i.construct}')
            print(f'  {i.where}: {i.msg}')
            for line in i.path:
                print(f'    {line}')
            return 1
        print(f'NOT-REPRODUCED property={pid} rule={rep["rule"]} construct={rep["construct"]}')
        return 0

    pid = args.property
    if pid not in PROPERTIES:
        print(f'ANALYSIS-ERROR property={pid} no check is registered for this property')
        return 2
    t0 = time.time()
    try:
        ctx, out, instances = run_property(pid, args.tier, args.repo)
    except AnalysisError as ex:
        print(f'ANALYSIS-ERROR property={pid} {ex}')
        return 2
    except Exception as ex:  # a crash is never a verdict
        print(f'ANALYSIS-ERROR property={pid} internal error: {type(ex).__name__}: {ex}')
        traceback.print_exc()
        return 2

    known = known_index(load_known())
    viol_dir = os.path.join(EVIDENCE_DIR, f'{pid}.violations')
    if args.no_evidence:
        import tempfile
        viol_dir = tempfile.mkdtemp(prefix='sa_viol_')
    else:
        shutil.rmtree(viol_dir, ignore_errors=True)
    new_viol, known_hits = [], []
    for inst in instances:
        if inst.verdict != 'VIOLATION':
            continue
        if (pid, inst.rule, inst.construct) in known:
            known_hits.append(inst)
        else:
            new_viol.append(inst)
    for inst in known_hits:
        print(f'KNOWN-FINDING: property={pid} {inst.rule} {inst.construct} :: {inst.msg}')
    for grp, msg in getattr(out, 'undecided', []) or []:
        print(f'UNDECIDED-PART property={pid} {grp}: {msg}')
    for n, inst in enumerate(new_viol):
        os.makedirs(viol_dir, exist_ok=True)
        path = os.path.join(viol_dir, f'{n}.json')
        with open(path, 'w', encoding='utf-8') as fh:
            json.dump({'property': pid, 'rule': inst.rule, 'rule_text': RULES[inst.rule][1], 'construct': inst.construct,
                       'where': inst.where, 'msg': inst.msg, 'path': inst.path, 'data': inst.data}, fh, indent=1,
                      ensure_ascii=False, default=str)
        print(f'VIOLATION property={pid} replay={path}')
        print(f'  rule {inst.rule}: {RULES[inst.rule][1]}')
        print(f'  at {inst.where}  construct {inst.construct}')
        print(f'  {inst.msg}')
        for line in inst.path:
            print(f'    {line}')
    wall = time.time() - t0
    if args.no_evidence:
        shutil.rmtree(viol_dir, ignore_errors=True)
    else:
        write_evidence(pid, args.tier, ctx, out, instances, new_viol, known_hits, wall)
    for line in getattr(out, 'selftest_problems', []) or []:
        print(f'SELFTEST-WARNING property={pid} {line}')
    st = getattr(out, 'selftest', None)
    if st and 'mutants' in st:
        print(f'{pid} self-test: {st["detected"]}/{st["mutants"]} single-instance breaks detected, {st["silent"]}/{st["benign"]} benign twins silent, '
              f'{len(st["not_applicable"])} not applicable')
    n_pass = sum(1 for i in instances if i.verdict == 'PASS')
    print(f'{pid} [{args.tier}] {len(instances)} rule instances: {n_pass} hold, {len(known_hits)} known findings, '
          f'{len(new_viol)} new violations ({wall:.2f}s)')
    if args.verbose:
        for i in instances:
            print(f'  {i.verdict:9s} {i.rule:6s} {i.construct}')
    return 1 if new_viol else 0


if __name__ == '__main__':
    try:
        sys.exit(main())
    except SystemExit:
        raise
    except BaseException as ex:  # pragma: no cover
        print(f'ANALYSIS-ERROR internal error: {type(ex).__name__}: {ex}')
        traceback.print_exc()
        sys.exit(2)
