#!/usr/bin/env python3
"""seed_eval.py <worktree> <property> <name>

Confirms a seeded change produced by a sub-agent (patch applies, 62 baseline tests pass with it, the
demonstration fails with it and passes without it) in the scratch worktree, stores it under
/verif/seeded/<name>/, then applies it to /repo, runs every registered quick check, records which checks
report a violation, and restores /repo.  Nothing is ever committed to /repo.
"""
import json
import os
import shutil
import subprocess
import sys

VERIF = os.path.dirname(os.path.dirname(os.path.abspath(__file__)))
sys.path.insert(0, VERIF)
from sa.rules import PROPERTIES  # noqa: E402

PY = '/venv/bin/python'


def sh(cmd, cwd=None, timeout=900):
    r = subprocess.run(cmd, cwd=cwd, shell=isinstance(cmd, str), capture_output=True, text=True, timeout=timeout)
    return r.returncode, r.stdout + r.stderr


def main():
    wt, pid, name = sys.argv[1:4]
    seed = os.path.join(wt, '_seed')
    patch = os.path.join(seed, 'patch.diff')
    meta = {'property': pid, 'name': name}
    # ---- state: change applied?  make it clean first
    sh('git checkout -- ml_pipeline_engine ml_pipeline_viewer', cwd=wt)
    rc, out = sh(f'git apply --check {patch}', cwd=wt)
    meta['patch_applies'] = rc == 0
    if rc != 0:
        print(json.dumps(meta, indent=1), out)
        return 1
    rc0, out0 = sh(f'{PY} _seed/demo.py', cwd=wt, timeout=300)
    meta['demo_without_change'] = {'exit': rc0, 'tail': out0.strip().splitlines()[-3:]}
    sh(f'git apply {patch}', cwd=wt)
    rc1, out1 = sh(f'{PY} _seed/demo.py', cwd=wt, timeout=300)
    meta['demo_with_change'] = {'exit': rc1, 'tail': out1.strip().splitlines()[-3:]}
    rct, outt = sh(f'{PY} -m pytest -q -p no:cacheprovider --timeout=900 -x --deselect tests/visualization', cwd=wt)
    meta['tests_with_change'] = next((ln.strip() for ln in reversed(outt.strip().splitlines()) if ' passed' in ln or ' failed' in ln or ' error' in ln), '')
    sh('git checkout -- ml_pipeline_engine ml_pipeline_viewer', cwd=wt)
    meta['confirmed'] = (rc0 == 0 and rc1 != 0 and ' passed' in meta['tests_with_change'] and 'failed' not in meta['tests_with_change'])
    # ---- store
    dst = os.path.join(VERIF, 'seeded', name)
    os.makedirs(dst, exist_ok=True)
    shutil.copy(patch, os.path.join(dst, 'patch.diff'))
    shutil.copy(os.path.join(seed, 'demo.py'), os.path.join(dst, 'demo.py'))
    if os.path.exists(os.path.join(seed, 'notes.md')):
        shutil.copy(os.path.join(seed, 'notes.md'), os.path.join(dst, 'notes.md'))
    # ---- run the checks against it
    rc, out = sh('git status --porcelain', cwd='/repo')
    if out.strip():
        print('REFUSING: /repo is dirty')
        return 2
    rc, out = sh(f'git apply {os.path.join(dst, "patch.diff")}', cwd='/repo')
    detected = {}
    undecided = {}
    try:
        if rc != 0:
            meta['applies_to_repo'] = False
        else:
            meta['applies_to_repo'] = True
            for p in sorted(PROPERTIES):
                rc, o = sh(['python3-vt', os.path.join(VERIF, 'bin', 'check.py'), p, '--no-evidence'], timeout=300)
                if rc == 1:
                    rules = sorted({ln.split()[1].rstrip(':') for ln in o.splitlines() if ln.startswith('  rule ')})
                    detected[p] = rules
                elif rc == 2:
                    undecided[p] = [ln for ln in o.splitlines() if 'ANALYSIS-ERROR' in ln][:1]
    finally:
        sh('git checkout -- .', cwd='/repo')
    meta['checks_reporting_violation'] = detected
    meta['checks_undecided'] = undecided
    meta['detected_for_target_property'] = pid in detected
    with open(os.path.join(dst, 'meta.json'), 'w') as fh:
        json.dump(meta, fh, indent=1)
    print(json.dumps(meta, indent=1))
    return 0


if __name__ == '__main__':
    sys.exit(main())
