import asyncio
import sys
import typing as t

sys.path.insert(0, '.')
sys.path.insert(0, '_hunt')

from harness import chart_of, mark, sweep  # noqa: E402

from ml_pipeline_engine.dag_builders.annotation.marks import Input, InputOneOf, RecurrentSubGraph, SwitchCase  # noqa
from ml_pipeline_engine.node import ProcessorBase, RecurrentProcessor  # noqa


async def body(name, n=2):
    mark('body', name)
    for _ in range(n):
        await asyncio.sleep(0)


# ---------- shape 1: diamond, one failing branch (slow sibling)
class In1(ProcessorBase):
    name = 's1_in'

    async def process(self, x: int) -> int:
        await body('in1')
        return x


class Fast1(ProcessorBase):
    name = 's1_fast_fail'

    async def process(self, x: Input(In1)) -> int:
        await body('fast1', 1)
        raise ValueError('boom')


class Slow1(ProcessorBase):
    name = 's1_slow'

    async def process(self, x: Input(In1)) -> int:
        await body('slow1', 10)
        return x


class Slow1b(ProcessorBase):
    name = 's1_slowb'

    async def process(self, x: Input(Slow1)) -> int:
        await body('slow1b', 3)
        return x


class Out1(ProcessorBase):
    name = 's1_out'

    async def process(self, a: Input(Fast1), b: Input(Slow1b)) -> int:
        await body('out1')
        return a + b


# ---------- shape 2: retry with delay and default
class In2(ProcessorBase):
    name = 's2_in'

    async def process(self, x: int) -> int:
        await body('in2')
        return x


class Retry2(ProcessorBase):
    name = 's2_retry'
    attempts = 3
    delay = 0.001
    use_default = True

    def get_default(self, **kw):
        mark('default', 'retry2')
        return 7

    async def process(self, x: Input(In2)) -> int:
        await body('retry2', 1)
        raise ValueError('again')


class Sync2(ProcessorBase):
    name = 's2_sync'

    def process(self, x: Input(In2)) -> int:
        mark('body', 'sync2')
        import time
        time.sleep(0.002)
        return x


class Out2(ProcessorBase):
    name = 's2_out'

    async def process(self, a: Input(Retry2), b: Input(Sync2)) -> int:
        await body('out2')
        return a + b


# ---------- shape 3: one-of, first candidate fails with slow sibling, second ok
class In3(ProcessorBase):
    name = 's3_in'

    async def process(self, x: int) -> int:
        await body('in3')
        return x


class C3aFail(ProcessorBase):
    name = 's3_a_fail'

    async def process(self, x: Input(In3)) -> int:
        await body('c3afail', 1)
        raise ValueError('a')


class C3aSlow(ProcessorBase):
    name = 's3_a_slow'

    async def process(self, x: Input(In3)) -> int:
        await body('c3aslow', 12)
        return x


class C3a(ProcessorBase):
    name = 's3_a'

    async def process(self, p: Input(C3aFail), q: Input(C3aSlow)) -> int:
        await body('c3a')
        return p + q


class C3b(ProcessorBase):
    name = 's3_b'

    async def process(self, x: Input(In3)) -> int:
        await body('c3b', 1)
        return x + 1


class Out3(ProcessorBase):
    name = 's3_out'

    async def process(self, v: InputOneOf([C3a, C3b])) -> int:
        await body('out3', 1)
        return v


# ---------- shape 4: switch
class In4(ProcessorBase):
    name = 's4_in'

    async def process(self, x: int) -> int:
        await body('in4')
        return x


class Sw4(ProcessorBase):
    name = 's4_sw'

    async def process(self, x: Input(In4)) -> str:
        await body('sw4', 1)
        return 'a' if x > 0 else 'zzz'


class Ca4(ProcessorBase):
    name = 's4_ca'

    async def process(self, x: Input(In4)) -> int:
        await body('ca4', 3)
        return x


class Cb4(ProcessorBase):
    name = 's4_cb'

    async def process(self, x: Input(In4)) -> int:
        await body('cb4', 3)
        return -x


class Side4(ProcessorBase):
    name = 's4_side'

    async def process(self, x: Input(In4)) -> int:
        await body('side4', 9)
        return x


class Out4(ProcessorBase):
    name = 's4_out'

    async def process(self, v: SwitchCase(switch=Sw4, cases=[('a', Ca4), ('b', Cb4)], name='s4'), s: Input(Side4)) -> int:
        await body('out4', 1)
        return v + s


# ---------- shape 5: recurrent
class In5(ProcessorBase):
    name = 's5_in'

    async def process(self, x: int) -> int:
        await body('in5')
        return x


class Start5(RecurrentProcessor):
    name = 's5_start'

    async def process(self, x: Input(In5), additional_data: t.Optional[t.Any] = None) -> int:
        await body('start5', 1)
        return x + (additional_data or 0)


class Mid5(RecurrentProcessor):
    name = 's5_mid'

    async def process(self, x: Input(Start5)) -> int:
        await body('mid5', 1)
        return x


class Dest5(RecurrentProcessor):
    name = 's5_dest'
    use_default = True

    def get_default(self, **kw):
        mark('default', 'dest5')
        return 100

    async def process(self, x: Input(Mid5)) -> int:
        await body('dest5', 1)
        if x < 3:
            return self.next_iteration(x + 1)
        return x


class Side5(ProcessorBase):
    name = 's5_side'

    async def process(self, x: Input(In5)) -> int:
        await body('side5', 25)
        return x


class Out5(ProcessorBase):
    name = 's5_out'

    async def process(self, v: RecurrentSubGraph(start_node=Start5, dest_node=Dest5, max_iterations=5), s: Input(Side5)) -> int:
        await body('out5', 1)
        return v + s


class Out5b(ProcessorBase):
    name = 's5_outb'

    async def process(self, v: RecurrentSubGraph(start_node=Start5, dest_node=Dest5, max_iterations=1), s: Input(Side5)) -> int:
        await body('out5b', 1)
        return v + s


async def main():
    await sweep('diamond-fail', chart_of(In1, Out1), dict(x=1))
    await sweep('retry-default-sync', chart_of(In2, Out2), dict(x=1), settle=0.01)
    await sweep('oneof', chart_of(In3, Out3), dict(x=1))
    await sweep('switch-ok', chart_of(In4, Out4), dict(x=1))
    await sweep('switch-nobranch', chart_of(In4, Out4), dict(x=-1))
    await sweep('recurrent', chart_of(In5, Out5), dict(x=0))
    await sweep('recurrent-exhaust-default', chart_of(In5, Out5b), dict(x=0))


asyncio.run(main())
