import asyncio, sys
sys.path.insert(0, '.')
from ml_pipeline_engine.chart import PipelineChart
from ml_pipeline_engine.dag_builders.annotation import build_dag
from ml_pipeline_engine.dag_builders.annotation.marks import Input
from ml_pipeline_engine.node import ProcessorBase

class In(ProcessorBase):
    name = 'nc_in'
    async def process(self, x: int) -> int:
        fut = asyncio.get_running_loop().create_future()
        fut.cancel()          # e.g. a client library cancelled its inner request future
        return await fut      # -> CancelledError out of the body although nobody cancelled the run

class Out(ProcessorBase):
    name = 'nc_out'
    async def process(self, v: Input(In)) -> int: return v

async def main():
    chart = PipelineChart('m', build_dag(In, Out))
    try:
        print(await asyncio.wait_for(chart.run(input_kwargs=dict(x=1)), 2))
    except asyncio.TimeoutError:
        print('HANG: run neither returned nor raised within 2s')
asyncio.run(main())
