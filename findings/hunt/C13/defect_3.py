"""
Defect 3: node bodies tagged NodeTag.process are started in the worker processes AFTER the run was cancelled /
has ended.  run_node() hands every ready process-node to ProcessPoolExecutor at once and the engine relies on
Future.cancel() (through the cancellation of the awaiting task) to take them back.  ProcessPoolExecutor moves
max_workers + 1 work items into its call queue and marks them RUNNING, for those cancel() is a no-op, so the
queued body is executed later although nobody is interested in it any more.

Run: /venv/bin/python _hunt/defect_3.py   (exit code 1 == defect shown)
"""
import asyncio
import os
import sys
import tempfile
import time
from concurrent.futures import ProcessPoolExecutor
from multiprocessing import Manager, get_context

sys.path.insert(0, '.')

from ml_pipeline_engine.chart import PipelineChart
from ml_pipeline_engine.dag_builders.annotation import build_dag
from ml_pipeline_engine.dag_builders.annotation.marks import Input
from ml_pipeline_engine.node import ProcessorBase
from ml_pipeline_engine.node.enums import NodeTag
from ml_pipeline_engine.parallelism import process_pool_registry

LOGFILE = os.path.join(tempfile.mkdtemp(), 'log.txt')


def log(msg):
    with open(LOGFILE, 'a') as f:
        f.write(f'{time.monotonic():.3f} {msg}\n')


class In(ProcessorBase):
    name = 'pp_in'

    async def process(self, x: int) -> int:
        return x


def work(name):
    log(f'body-start {name}')
    time.sleep(0.5)
    log(f'body-end {name}')
    return 1


class A(ProcessorBase):
    name = 'pp_a'
    tags = (NodeTag.process,)

    def process(self, x: Input(In)) -> int:
        return work('A')


class B(ProcessorBase):
    name = 'pp_b'
    tags = (NodeTag.process,)

    def process(self, x: Input(In)) -> int:
        return work('B')


class C(ProcessorBase):
    name = 'pp_c'
    tags = (NodeTag.process,)

    def process(self, x: Input(In)) -> int:
        return work('C')


class Out(ProcessorBase):
    name = 'pp_out'

    async def process(self, a: Input(A), b: Input(B), c: Input(C)) -> int:
        return a + b + c


async def main():
    process_pool_registry.register_manager(Manager())
    process_pool_registry.register_pool_executor(ProcessPoolExecutor(max_workers=1, mp_context=get_context('fork')))
    chart = PipelineChart('m', build_dag(In, Out))
    task = asyncio.ensure_future(chart.run(input_kwargs=dict(x=1)))
    await asyncio.sleep(0.2)
    task.cancel()
    try:
        await task
    except asyncio.CancelledError:
        log('RUN-CANCELLED-RETURNED')
    await asyncio.sleep(1.5)
    lines = open(LOGFILE).read().splitlines()
    print('EXPECTED: no "body-start" line after RUN-CANCELLED-RETURNED (1 worker, 3 queued process nodes)')
    print('\n'.join(lines))
    end = next(i for i, line in enumerate(lines) if 'RUN-CANCELLED-RETURNED' in line)
    late = [line for line in lines[end + 1:] if 'body-start' in line]
    print('RESULT:', f'DEFECT SHOWN, bodies started after the run was cancelled: {late}' if late else 'no defect')
    return bool(late)


if __name__ == '__main__':
    sys.exit(1 if asyncio.run(main()) else 0)
