import asyncio, sys
sys.path.insert(0, '.')
from ml_pipeline_engine.chart import PipelineChart
from ml_pipeline_engine.dag_builders.annotation import build_dag
from ml_pipeline_engine.dag_builders.annotation.marks import Input, InputOneOf
from ml_pipeline_engine.node import ProcessorBase

LOG = []
EV = {}

class Store:
    def __init__(self, ctx, *a, **k): pass
    async def save(self, node_id, data):
        LOG.append(('save-start', node_id))
        try:
            if node_id.endswith('po_out'):
                EV['out_saving'].set()
                await asyncio.sleep(0.05)   # a slow store
            LOG.append(('save-done', node_id))
        except asyncio.CancelledError:
            LOG.append(('save-CANCELLED', node_id))
            raise
    async def load(self, node_id): raise NotImplementedError

class In(ProcessorBase):
    name = 'po_in'
    async def process(self, x: int) -> int: return x

class AFail(ProcessorBase):
    name = 'po_a_fail'
    async def process(self, x: Input(In)) -> int: raise ValueError('a')

class ASlow(ProcessorBase):
    name = 'po_a_slow'
    async def process(self, x: Input(In)) -> int:
        await EV['out_saving'].wait()     # finishes while the output node is being saved
        return x

class A(ProcessorBase):
    name = 'po_a'
    async def process(self, p: Input(AFail), q: Input(ASlow)) -> int: return p + q

class B(ProcessorBase):
    name = 'po_b'
    async def process(self, x: Input(In)) -> int: return x + 1

class Out(ProcessorBase):
    name = 'po_out'
    async def process(self, v: InputOneOf([A, B])) -> int: return v

async def main():
    EV['out_saving'] = asyncio.Event()
    chart = PipelineChart('m', build_dag(In, Out), artifact_store=Store)
    res = await asyncio.wait_for(chart.run(input_kwargs=dict(x=1)), 3)
    await asyncio.sleep(0.2)
    print(res)
    for l in LOG: print(l)
asyncio.run(main())
