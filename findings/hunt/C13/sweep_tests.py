"""Sweep cancellation over all pipelines of the test-suite (bodies executed inline, deterministically)."""
import asyncio
import importlib
import inspect
import pathlib
import re
import sys

sys.path.insert(0, '.')
sys.path.insert(0, '_hunt')

import harness  # noqa: E402
from harness import mark, sweep  # noqa: E402

import ml_pipeline_engine.dag.manager as manager  # noqa: E402
from ml_pipeline_engine.node.node import get_callable_run_method  # noqa: E402


async def run_node(node, *args, node_id, **kwargs):
    mark('body', node_id)
    await asyncio.sleep(0)
    method = get_callable_run_method(node)
    if inspect.iscoroutinefunction(method):
        res = await method(*args, **kwargs)
    else:
        res = method(*args, **kwargs)
    await asyncio.sleep(0)
    return res


manager.run_node = run_node


async def main():
    total = {}
    for path in sorted(pathlib.Path('tests/dag').rglob('test_*.py')):
        src = path.read_text()
        m = re.search(r'build_chart\(input_node=(\w+), output_node=(\w+)\)', src)
        kw = re.search(r'input_kwargs=(dict\([^)]*\))', src)
        if not m or not kw:
            continue
        modname = '.'.join(path.with_suffix('').parts)
        mod = importlib.import_module(modname)
        inp, out = getattr(mod, m.group(1)), getattr(mod, m.group(2))
        kwsrc = kw.group(1)
        candidates = []
        if 'input_num' in kwsrc:
            for v in (-1.0, 0.0, 1.0, 5.0, 2, 3, 4, 7, 10):
                candidates.append(eval(kwsrc, {'input_num': v}))
        else:
            candidates.append(eval(kwsrc))
        for ikw in candidates:
            found = await sweep(f'{modname} {ikw}', harness.chart_of(inp, out), ikw, max_k=1500)
            if found:
                total[(modname, str(ikw))] = found
    print('TOTAL problem pipelines:', list(total))


asyncio.run(main())
