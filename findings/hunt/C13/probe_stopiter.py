import asyncio, sys
sys.path.insert(0, '.')
from ml_pipeline_engine.chart import PipelineChart
from ml_pipeline_engine.dag_builders.annotation import build_dag
from ml_pipeline_engine.dag_builders.annotation.marks import Input
from ml_pipeline_engine.node import ProcessorBase
from ml_pipeline_engine.parallelism import threads_pool_registry
threads_pool_registry.auto_init()

class In(ProcessorBase):
    name = 'si_in'
    def process(self, x: int) -> int:
        return next(i for i in [1, 2, 3] if i > x)

class Out(ProcessorBase):
    name = 'si_out'
    def process(self, v: Input(In)) -> int:
        return v

async def main():
    chart = PipelineChart('m', build_dag(In, Out))
    print(await asyncio.wait_for(chart.run(input_kwargs=dict(x=1)), 3))
    try:
        print(await asyncio.wait_for(chart.run(input_kwargs=dict(x=5)), 3))
    except asyncio.TimeoutError:
        print('HANG: run did not end within 3s')
asyncio.run(main())
