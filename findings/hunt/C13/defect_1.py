"""
Defect 1: the retry filter of a node may legally contain BaseException / CancelledError
(RetryProtocol.exceptions is typed Tuple[Type[BaseException], ...]).  The cancellation that run() sends to its
tasks when it ends is then caught by the retry loop in DAGRunConcurrentManager.__execute_node as an ordinary
retryable failure: the task survives the end of the run, emits on_node_complete, restarts the node body and,
when the body finally completes, saves the artifact - all after run() has returned / raised CancelledError.

Run: /venv/bin/python _hunt/defect_1.py   (exit code 1 == defect shown)
"""
import asyncio
import sys

sys.path.insert(0, '.')

from ml_pipeline_engine.chart import PipelineChart  # noqa: E402
from ml_pipeline_engine.dag_builders.annotation import build_dag  # noqa: E402
from ml_pipeline_engine.dag_builders.annotation.marks import Input  # noqa: E402
from ml_pipeline_engine.node import ProcessorBase  # noqa: E402

LOG = []
ENDED = [False]
GATE = {}


def mark(what):
    LOG.append((what, 'AFTER-END' if ENDED[0] else 'during-run'))


class Events:
    async def on_node_start(self, ctx, node_id):
        mark(f'event on_node_start {node_id}')

    async def on_node_complete(self, ctx, node_id, error):
        mark(f'event on_node_complete {node_id} error={error!r}')


class Store:
    def __init__(self, ctx, *a, **k):
        pass

    async def save(self, node_id, data):
        mark(f'artifact save {node_id}')

    async def load(self, node_id):
        raise NotImplementedError


class In(ProcessorBase):
    name = 'd1_in'

    async def process(self, x: int) -> int:
        return x


class SlowIO(ProcessorBase):
    """A node that retries on anything, e.g. because its client library raises CancelledError on disconnects."""
    name = 'd1_slow_io'
    attempts = 3
    delay = 0
    exceptions = (BaseException,)

    async def process(self, x: Input(In)) -> int:
        mark('BODY start d1_slow_io')
        await GATE['slow'].wait()
        return x


class Failing(ProcessorBase):
    name = 'd1_failing'

    async def process(self, x: Input(In)) -> int:
        await GATE['fail'].wait()
        raise ValueError('boom')


class Out(ProcessorBase):
    name = 'd1_out'

    async def process(self, a: Input(SlowIO), b: Input(Failing)) -> int:
        return a + b


def leftovers(before):
    return [tk.get_name() for tk in asyncio.all_tasks() if tk not in before and not tk.done()]


async def scenario(kind):
    LOG.clear()
    ENDED[0] = False
    GATE['slow'] = asyncio.Event()
    GATE['fail'] = asyncio.Event()
    chart = PipelineChart('m', build_dag(In, Out), event_managers=[Events], artifact_store=Store)
    before = set(asyncio.all_tasks())

    async def call_run():
        try:
            return await chart.run(input_kwargs=dict(x=1))
        finally:
            ENDED[0] = True  # the very moment run() returns / raises

    run = asyncio.ensure_future(call_run())
    before.add(run)
    await asyncio.sleep(0.05)  # both middle nodes are now blocked in their bodies

    if kind == 'caller-cancel':
        run.cancel()
        try:
            await run
            outcome = 'returned normally'
        except asyncio.CancelledError:
            outcome = 'CancelledError'
    else:
        GATE['fail'].set()  # the sibling fails -> the run ends early with an error
        outcome = repr((await run).error)
    ENDED[0] = True

    for _ in range(100):  # far more loop steps than the engine needs to unwind
        await asyncio.sleep(0)
    left_1 = leftovers(before)

    GATE['slow'].set()  # the "slow IO" finishes some time later
    for _ in range(100):
        await asyncio.sleep(0)
    left_2 = leftovers(before)

    late = [entry for entry in LOG if entry[1] == 'AFTER-END']
    print(f'--- scenario {kind}: run ended with {outcome}')
    print('    tasks still pending 100 loop steps after the end :', left_1)
    print('    tasks still pending after the IO completed       :', left_2)
    print('    activity started after the end of the run:')
    for entry in late:
        print('       ', entry[0])
    for tk in asyncio.all_tasks():
        if tk not in before and not tk.done():
            tk.cancel()
    return bool(left_1 or late)


async def main():
    print('EXPECTED: after run() ended every engine task is finished within a few loop steps and no node body,')
    print('          event callback or artifact save starts any more.')
    bad = False
    for kind in ('caller-cancel', 'sibling-failure'):
        bad = await scenario(kind) or bad
    print('RESULT:', 'DEFECT SHOWN' if bad else 'no defect')
    return bad


if __name__ == '__main__':
    sys.exit(1 if asyncio.run(main()) else 0)
