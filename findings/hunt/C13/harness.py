"""Brute-force harness: cancel a run at every loop step and look for anything left behind."""
import asyncio
import sys
import typing as t

sys.path.insert(0, '.')

from ml_pipeline_engine.chart import PipelineChart  # noqa: E402
from ml_pipeline_engine.dag_builders.annotation import build_dag  # noqa: E402
from ml_pipeline_engine.parallelism import threads_pool_registry  # noqa: E402

threads_pool_registry.auto_init()

LOG: t.List[t.Tuple[str, str, bool]] = []
ENDED = [False]


def mark(kind: str, name: str) -> None:
    LOG.append((kind, name, ENDED[0]))


class Events:
    async def on_pipeline_start(self, ctx):
        mark('event', 'pipeline_start')
        await asyncio.sleep(0)

    async def on_pipeline_complete(self, ctx, result):
        mark('event', 'pipeline_complete')
        await asyncio.sleep(0)

    async def on_node_start(self, ctx, node_id):
        mark('event', f'node_start:{node_id}')
        await asyncio.sleep(0)

    async def on_node_complete(self, ctx, node_id, error):
        mark('event', f'node_complete:{node_id}:{error!r}')
        await asyncio.sleep(0)


class Store:
    def __init__(self, ctx, *a, **k):
        self.ctx = ctx

    async def save(self, node_id, data):
        mark('save', node_id)
        await asyncio.sleep(0)
        await asyncio.sleep(0)

    async def load(self, node_id):
        raise NotImplementedError


async def trial(make_chart, k: t.Optional[int], input_kwargs=None, verbose=False, settle=0.05):
    LOG.clear()
    ENDED[0] = False
    chart = make_chart()
    loop = asyncio.get_running_loop()

    async def wrapper():
        try:
            return await chart.run(input_kwargs=input_kwargs or {})
        finally:
            ENDED[0] = True

    before = set(asyncio.all_tasks())
    task = asyncio.ensure_future(wrapper())
    fut = loop.create_future()

    def tick(n):
        if task.done():
            if not fut.done():
                fut.set_result('done-before')
            return
        if n == 0:
            task.cancel()
            fut.set_result('cancelled')
            return
        loop.call_soon(tick, n - 1)

    if k is not None:
        loop.call_soon(tick, k)
        how = await fut
    else:
        how = 'nocancel'

    try:
        res = await asyncio.wait_for(asyncio.shield(task), 5)
        outcome = ('returned', res)
    except asyncio.CancelledError:
        outcome = ('CancelledError',)
    except asyncio.TimeoutError:
        outcome = ('HANG',)
    except BaseException as e:  # noqa
        outcome = ('raised', repr(e))

    for _ in range(200):
        await asyncio.sleep(0)
    if settle:
        await asyncio.sleep(settle)

    pending = [
        tk for tk in asyncio.all_tasks()
        if tk not in before and tk is not task and not tk.done()
    ]
    late = [entry for entry in LOG if entry[2]]
    problems = []
    if pending:
        problems.append(('pending', [tk.get_name() for tk in pending]))
    if late:
        problems.append(('late', late))
    if how == 'cancelled' and outcome[0] not in ('CancelledError',):
        problems.append(('cancel-surfaced-as', outcome))
    if outcome[0] == 'HANG':
        problems.append(('hang',))
    for tk in pending:
        tk.cancel()
    if not task.done():
        task.cancel()
    return how, outcome, problems


async def sweep(name, make_chart, input_kwargs=None, max_k=400, settle=0.0):
    found = {}
    last = None
    for k in range(max_k):
        how, outcome, problems = await trial(make_chart, k, input_kwargs, settle=settle)
        if problems:
            found[k] = (how, outcome, problems)
        if how == 'done-before':
            last = k
            break
    how, outcome, problems = await trial(make_chart, None, input_kwargs, settle=settle)
    print(f'== {name}: swept k<= {last}, nocancel outcome={outcome}, problems at {len(found)} steps; nocancel problems={problems}')
    shown = 0
    for k, v in found.items():
        if shown < 4:
            print('   k=', k, v)
            shown += 1
    return found


def chart_of(inp, out, events=True, store=True):
    def make():
        return PipelineChart(
            model_name='m',
            entrypoint=build_dag(input_node=inp, output_node=out),
            event_managers=[Events] if events else [],
            artifact_store=Store if store else None,
        )
    return make
