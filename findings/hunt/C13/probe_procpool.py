import asyncio
import os
import sys
import tempfile
import time
from concurrent.futures import ProcessPoolExecutor
from multiprocessing import Manager, get_context

sys.path.insert(0, '.')

from ml_pipeline_engine.chart import PipelineChart
from ml_pipeline_engine.dag_builders.annotation import build_dag
from ml_pipeline_engine.dag_builders.annotation.marks import Input
from ml_pipeline_engine.node import ProcessorBase
from ml_pipeline_engine.node.enums import NodeTag
from ml_pipeline_engine.parallelism import process_pool_registry

LOGFILE = os.path.join(tempfile.mkdtemp(), 'log.txt')


def log(msg):
    with open(LOGFILE, 'a') as f:
        f.write(f'{time.monotonic():.3f} {msg}\n')


class In(ProcessorBase):
    name = 'pp_in'

    async def process(self, x: int) -> int:
        return x


def work(name):
    log(f'body-start {name}')
    time.sleep(0.5)
    log(f'body-end {name}')
    return 1


class A(ProcessorBase):
    name = 'pp_a'
    tags = (NodeTag.process,)

    def process(self, x: Input(In)) -> int:
        return work('A')


class B(ProcessorBase):
    name = 'pp_b'
    tags = (NodeTag.process,)

    def process(self, x: Input(In)) -> int:
        return work('B')


class C(ProcessorBase):
    name = 'pp_c'
    tags = (NodeTag.process,)

    def process(self, x: Input(In)) -> int:
        return work('C')


class Out(ProcessorBase):
    name = 'pp_out'

    async def process(self, a: Input(A), b: Input(B), c: Input(C)) -> int:
        return a + b + c


async def main():
    process_pool_registry.register_manager(Manager())
    process_pool_registry.register_pool_executor(ProcessPoolExecutor(max_workers=1, mp_context=get_context('fork')))
    chart = PipelineChart('m', build_dag(In, Out))
    task = asyncio.ensure_future(chart.run(input_kwargs=dict(x=1)))
    await asyncio.sleep(0.2)
    task.cancel()
    try:
        await task
    except asyncio.CancelledError:
        log('RUN-CANCELLED-RETURNED')
    await asyncio.sleep(1.5)
    print(open(LOGFILE).read())


asyncio.run(main())
