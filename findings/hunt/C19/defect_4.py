"""
Defect 4: from the second iteration on, a recurrent subgraph executes EVERY case node of a SwitchCase that lies
inside it, not only the selected one, and stores an artifact for the unselected case.  When the unselected case
cannot work on the data (it raises), the whole run fails although the switch never selects it.

Shape:  Start -> Sw ; Start -> CaseA ; Start -> CaseB ;  Dest(SwitchCase(Sw, a: CaseA, b: CaseB)) ;
        Out(RecurrentSubGraph(Start, Dest)).   Sw always answers 'a'.
"""
import asyncio
import logging
import os
import sys
import typing as t

sys.path.insert(0, os.getcwd())  # the package is imported from the current directory

from ml_pipeline_engine.artifact_store.store.base import ArtifactStore
from ml_pipeline_engine.chart import PipelineChart
from ml_pipeline_engine.dag_builders.annotation import build_dag
from ml_pipeline_engine.dag_builders.annotation.marks import Input
from ml_pipeline_engine.dag_builders.annotation.marks import RecurrentSubGraph
from ml_pipeline_engine.dag_builders.annotation.marks import SwitchCase
from ml_pipeline_engine.node import ProcessorBase
from ml_pipeline_engine.node import RecurrentProcessor
from ml_pipeline_engine.types import Recurrent

SAVED: t.Dict[str, list] = {}
EXECUTED: t.List[str] = []
CASE_B_RAISES = False


class RecordingStore(ArtifactStore):
    """Records every save (not write-once, so that the known re-save problem of recurrent nodes does not mask this)"""

    async def save(self, node_id, data):
        SAVED.setdefault(node_id, []).append(data)

    async def load(self, node_id):
        return SAVED[node_id][-1]


class Start(RecurrentProcessor):
    name = 'start'

    async def process(self, x: int, additional_data: t.Optional[t.Any] = None) -> int:
        return x if additional_data is None else additional_data


class Sw(ProcessorBase):
    name = 'sw'

    async def process(self, s: Input(Start)) -> str:
        return 'a'


class CaseA(ProcessorBase):
    name = 'case_a'

    async def process(self, s: Input(Start)) -> str:
        EXECUTED.append('case_a')
        return f'a({s})'


class CaseB(ProcessorBase):
    name = 'case_b'

    async def process(self, s: Input(Start)) -> str:
        EXECUTED.append('case_b')
        if CASE_B_RAISES:
            raise ValueError('case b is not applicable to this input')
        return f'b({s})'


class Dest(RecurrentProcessor):
    name = 'dest'

    async def process(
        self,
        c: SwitchCase(name='sw', switch=Sw, cases=[('a', CaseA), ('b', CaseB)]),
    ) -> t.Union[Recurrent, str]:
        if c == 'a(1)':
            return self.next_iteration(2)
        return f'dest({c})'


class Out(ProcessorBase):
    name = 'out'

    async def process(self, d: RecurrentSubGraph(start_node=Start, dest_node=Dest, max_iterations=3)) -> str:
        return d


async def main() -> int:
    global CASE_B_RAISES
    logging.disable(logging.CRITICAL)
    chart = PipelineChart('m', build_dag(input_node=Start, output_node=Out), artifact_store=RecordingStore)

    rc = 0
    result = await asyncio.wait_for(chart.run(input_kwargs=dict(x=1)), 10)
    print('run result:', result)
    print('executed  :', EXECUTED)
    print('saves     :', SAVED)
    print("EXPECTED: the switch answers 'a' in every iteration: case_b is never executed and has no artifact")
    if 'case_b' in EXECUTED or 'processor__case_b' in SAVED:
        print('OBSERVED: the unselected case_b was executed %d time(s); artifact processor__case_b = %r'
              % (EXECUTED.count('case_b'), SAVED.get('processor__case_b')))
        rc = 1

    CASE_B_RAISES = True
    EXECUTED.clear()
    SAVED.clear()
    result = await asyncio.wait_for(chart.run(input_kwargs=dict(x=1)), 10)
    print('--- the same pipeline, case_b raises when it is executed')
    print('run result:', result)
    print("EXPECTED: value 'dest(a(2))', error None (case_b is never selected)")
    if result.error is not None:
        print('OBSERVED: the run failed with %r' % (result.error,))
        rc = 1

    if rc == 0:
        print('OBSERVED: ok')
    return rc


if __name__ == '__main__':
    sys.exit(asyncio.run(main()))
