"""
Defect 3: during a re-execution of a node by a recurrent iteration a second requester of that node does not wait
for the execution: the per-node asyncio.Event was set by the FIRST execution and is never cleared.  The second
requester returns immediately, reads the (hidden) result with with_hidden=False, i.e. None, publishes None as
the node's value (un-hiding it), saves None as the node's artifact and unlocks the consumers.  The consumers run
with None, the run "succeeds", the value the node really returns is never saved.

Shape: Start -> Mid -> Dest  (RecurrentSubGraph(Start, Dest));  K(Input(Mid)) is a case of a SwitchCase whose
       switch node `Sw` finishes while iteration 1 of the subgraph is executing `Start`;  Out(switch, recurrent Dest)
"""
import asyncio, os, sys, typing as t
sys.path.insert(0, os.getcwd())
from ml_pipeline_engine.artifact_store.store.base import ArtifactStore
from ml_pipeline_engine.chart import PipelineChart
from ml_pipeline_engine.dag_builders.annotation import build_dag
from ml_pipeline_engine.dag_builders.annotation.marks import Input, RecurrentSubGraph, SwitchCase
from ml_pipeline_engine.node import ProcessorBase, RecurrentProcessor
from ml_pipeline_engine.types import Recurrent

SAVED = {}
RECEIVED = {}
second_start = None

class RecordingStore(ArtifactStore):
    async def save(self, node_id, data):
        SAVED.setdefault(node_id, []).append(data)
    async def load(self, node_id):
        return SAVED[node_id][-1]

class Start(RecurrentProcessor):
    name = 'start'
    async def process(self, x: int, additional_data: t.Optional[t.Any] = None) -> int:
        if additional_data is not None:
            second_start.set()
            await asyncio.sleep(0.05)
            return additional_data
        return x

class Mid(RecurrentProcessor):
    name = 'mid'
    async def process(self, s: Input(Start)) -> str:
        await asyncio.sleep(0.05)
        return f'mid({s})'

class Dest(RecurrentProcessor):
    name = 'dest'
    async def process(self, m: Input(Mid)) -> t.Union[Recurrent, str]:
        RECEIVED.setdefault('dest', []).append(m)
        if m == 'mid(1)':
            return self.next_iteration(2)
        return f'dest({m})'

class Sw(ProcessorBase):
    name = 'sw'
    async def process(self, s: Input(Start)) -> str:
        await second_start.wait()
        return 'k'

class K(ProcessorBase):
    name = 'k'
    async def process(self, m: Input(Mid)) -> str:
        RECEIVED.setdefault('k', []).append(m)
        return f'k({m})'

class L(ProcessorBase):
    name = 'l'
    async def process(self, s: Input(Start)) -> str:
        return 'l'

class Out(ProcessorBase):
    name = 'out'
    async def process(self,
        sw: SwitchCase(name='sw', switch=Sw, cases=[('k', K), ('l', L)]),
        dest: RecurrentSubGraph(start_node=Start, dest_node=Dest, max_iterations=3)) -> str:
        return f'{sw} + {dest}'

async def main():
    global second_start
    second_start = asyncio.Event()
    chart = PipelineChart('m', build_dag(input_node=Start, output_node=Out), artifact_store=RecordingStore)
    result = await asyncio.wait_for(chart.run(input_kwargs=dict(x=1)), 10)
    print('run result:', result)
    print('saves     :', SAVED)
    print('received  :', RECEIVED)
    print("EXPECTED: value 'k(mid(2)) + dest(mid(2))'; artifacts of `mid` are only values returned by Mid.process "
          "('mid(1)', 'mid(2)'), consumers receive 'mid(2)'")
    bad = [v for v in SAVED.get('processor__mid', []) if not (isinstance(v, str) and v.startswith('mid('))]
    if result.error is None and (bad or None in RECEIVED.get('k', []) or None in RECEIVED.get('dest', [])):
        print('OBSERVED: run succeeded with %r; the store got %r for `mid` (Mid.process never returns None), '
              "consumers k/dest received %r / %r; 'mid(2)' was never saved"
              % (result.value, SAVED.get('processor__mid'), RECEIVED.get('k'), RECEIVED.get('dest')))
        return 1
    print('OBSERVED: ok')
    return 0


if __name__ == '__main__':
    sys.exit(asyncio.run(main()))
