"""
Defect 2: a consumer that lies OUTSIDE a recurrent subgraph and reads an INTERIOR node of it is started with the
value of the first iteration, while the subgraph goes on, re-executes the interior node and the store gets a
different, final value for that node.  So "the saved final value of a node equals what its consumers received"
is violated (and two consumers of the same node see two different values in one run).

Shape:  Start -> Mid -> Dest   (RecurrentSubGraph(start=Start, dest=Dest)),
        Side(Input(Mid)),  Out(Side, <recurrent Dest>)
"""
import asyncio
import os
import sys
import typing as t

sys.path.insert(0, os.getcwd())  # the package is imported from the current directory

from ml_pipeline_engine.artifact_store.store.base import ArtifactStore
from ml_pipeline_engine.chart import PipelineChart
from ml_pipeline_engine.dag_builders.annotation import build_dag
from ml_pipeline_engine.dag_builders.annotation.marks import Input
from ml_pipeline_engine.dag_builders.annotation.marks import RecurrentSubGraph
from ml_pipeline_engine.node import ProcessorBase
from ml_pipeline_engine.node import RecurrentProcessor
from ml_pipeline_engine.types import Recurrent

SAVED: t.Dict[str, list] = {}
RECEIVED: t.Dict[str, list] = {}


class RecordingStore(ArtifactStore):
    """Records every save (it is NOT write-once here, so that the known re-save problem does not mask this one)."""

    async def save(self, node_id, data):
        SAVED.setdefault(node_id, []).append(data)

    async def load(self, node_id):
        return SAVED[node_id][-1]


class Start(RecurrentProcessor):
    name = 'start'

    async def process(self, x: int, additional_data: t.Optional[t.Any] = None) -> int:
        return x if additional_data is None else additional_data


class Mid(RecurrentProcessor):
    name = 'mid'

    async def process(self, s: Input(Start)) -> str:
        return f'mid({s})'


class Dest(RecurrentProcessor):
    name = 'dest'

    async def process(self, m: Input(Mid)) -> t.Union[Recurrent, str]:
        RECEIVED.setdefault('dest', []).append(m)
        if m == 'mid(1)':
            return self.next_iteration(2)      # ask for another iteration with other data
        return f'dest({m})'


SIDE_DELAY = 0.0


class Gate(ProcessorBase):
    """An unrelated dependency of `side`; its duration decides WHEN side is started"""
    name = 'gate'

    async def process(self, s: Input(Start)) -> int:
        await asyncio.sleep(SIDE_DELAY)
        return 0


class Side(ProcessorBase):
    name = 'side'

    async def process(self, m: Input(Mid), g: Input(Gate)) -> str:
        RECEIVED.setdefault('side', []).append(m)
        return f'side({m})'


class Out(ProcessorBase):
    name = 'out'

    async def process(
        self,
        side: Input(Side),
        dest: RecurrentSubGraph(start_node=Start, dest_node=Dest, max_iterations=3),
    ) -> str:
        return f'{side} + {dest}'


async def main() -> int:
    global SIDE_DELAY
    chart = PipelineChart('m', build_dag(input_node=Start, output_node=Out), artifact_store=RecordingStore)

    # the same pipeline, the same input, only the duration of an unrelated node differs
    SIDE_DELAY = 0.2
    slow = await asyncio.wait_for(chart.run(input_kwargs=dict(x=1)), 10)
    print('with a slow `gate` the run returns:', repr(slow.value))
    SAVED.clear()
    RECEIVED.clear()

    SIDE_DELAY = 0.0
    result = await asyncio.wait_for(chart.run(input_kwargs=dict(x=1)), 10)
    print('with a fast `gate` the run returns:', repr(result.value))

    print('run result:', result)
    print('saves     :', SAVED)
    print('received  :', RECEIVED)

    final_mid = SAVED['processor__mid'][-1]
    print('EXPECTED: every consumer of `mid` receives the final value of `mid` that the store holds (%r), '
          'result "side(mid(2)) + dest(mid(2))"' % final_mid)

    if result.error is None and RECEIVED['side'] != [final_mid]:
        print('OBSERVED: run succeeded with %r; consumer `side` received %r but the final artifact of `mid` is %r '
              '(the consumer `dest` received %r)' % (result.value, RECEIVED['side'], final_mid, RECEIVED['dest']))
        return 1
    print('OBSERVED: ok')
    return 0


if __name__ == '__main__':
    sys.exit(asyncio.run(main()))
