"""
Defect 1: a node's value is published to its consumers BEFORE its artifact save has completed, and
DAGRunConcurrentManager.run() cancels every task (including in-flight saves) as soon as the output node
has a value.  With a store whose save() really awaits (any store doing real async IO), a node whose save is
slower than the rest of the pipeline is consumed, the run returns successfully, and the artifact of that
executed node is never stored (its save is cancelled).

Scenario A:  Inp -> Slow ; Inp -> Fast ; Out(Slow, Fast).   Only the save of `Slow` has latency.
Scenario B:  Out2(InputOneOf([A, B])), A(X, Y): X fails at once, Y is still running when candidate B has succeeded
             and Out2 has been executed.  Y finishes while the artifact of the OUTPUT node is being written: its
             notification wakes run(), which sees the output value and cancels the save of the output node itself.
"""
import asyncio
import os
import sys

sys.path.insert(0, os.getcwd())  # the package is imported from the current directory

from ml_pipeline_engine.artifact_store.store.base import ArtifactStore
from ml_pipeline_engine.chart import PipelineChart
from ml_pipeline_engine.dag_builders.annotation import build_dag
from ml_pipeline_engine.dag_builders.annotation.marks import Input
from ml_pipeline_engine.dag_builders.annotation.marks import InputOneOf
from ml_pipeline_engine.node import ProcessorBase

OUT2_SAVE_STARTED = None
EVENTS = []        # (what, node_id)
SAVED = {}         # node_id -> [values]


class RecordingWriteOnceStore(ArtifactStore):
    """In-memory write-once store; the save of the node `processor__slow` has IO latency."""

    async def save(self, node_id, data):
        EVENTS.append(('save-start', node_id))
        try:
            if node_id == 'processor__out2':
                OUT2_SAVE_STARTED.set()
            if node_id in ('processor__slow', 'processor__out2'):
                await asyncio.sleep(0.2)          # a slow write
            else:
                await asyncio.sleep(0)            # a fast write
        except asyncio.CancelledError:
            EVENTS.append(('save-CANCELLED', node_id))
            raise
        if node_id in SAVED:
            raise RuntimeError(f'artifact {node_id} already exists')
        SAVED.setdefault(node_id, []).append(data)
        EVENTS.append(('save-done', node_id))

    async def load(self, node_id):
        return SAVED[node_id][0]


class Inp(ProcessorBase):
    name = 'inp'

    async def process(self, x: int) -> int:
        return x


class Slow(ProcessorBase):
    name = 'slow'

    async def process(self, x: Input(Inp)) -> int:
        return x + 1


class Fast(ProcessorBase):
    name = 'fast'

    async def process(self, x: Input(Inp)) -> int:
        await asyncio.sleep(0.01)
        return x + 2


class Out(ProcessorBase):
    name = 'out'

    async def process(self, a: Input(Slow), b: Input(Fast)) -> int:
        EVENTS.append(('consumed', f'slow={a}'))
        return a * 100 + b


class X(ProcessorBase):
    name = 'x'

    async def process(self, x: Input(Inp)) -> int:
        raise ValueError('x fails, the candidate A is abandoned')


class Y(ProcessorBase):
    name = 'y'

    async def process(self, x: Input(Inp)) -> int:
        await OUT2_SAVE_STARTED.wait()    # a long computation: ends while the output artifact is being written
        return 5


class A(ProcessorBase):
    name = 'a'

    async def process(self, x: Input(X), y: Input(Y)) -> int:
        return 1


class B(ProcessorBase):
    name = 'b'

    async def process(self, x: Input(Inp)) -> int:
        return 2


class Out2(ProcessorBase):
    name = 'out2'

    async def process(self, v: InputOneOf([A, B])) -> int:
        return v * 10


async def scenario_b() -> int:
    global OUT2_SAVE_STARTED
    OUT2_SAVE_STARTED = asyncio.Event()
    EVENTS.clear()
    SAVED.clear()

    import logging
    logging.getLogger('ml_pipeline_engine').setLevel(logging.CRITICAL)
    logging.disable(logging.CRITICAL)

    chart = PipelineChart('m', build_dag(input_node=Inp, output_node=Out2), artifact_store=RecordingWriteOnceStore)
    result = await asyncio.wait_for(chart.run(input_kwargs=dict(x=1)), 10)
    await asyncio.sleep(0.5)

    print('--- scenario B')
    print('run result:', result)
    for ev in EVENTS:
        print('   ', ev)
    print('saved artifacts:', SAVED)
    print('EXPECTED: successful run (20) and an artifact processor__out2 == 20')
    if result.error is None and 'processor__out2' not in SAVED:
        print('OBSERVED: run succeeded (value=%r) but the OUTPUT node has no artifact, its save was cancelled by run()'
              % (result.value,))
        return 1
    print('OBSERVED: ok')
    return 0


async def main() -> int:
    return (await scenario_a()) | (await scenario_b())


async def scenario_a() -> int:
    chart = PipelineChart('m', build_dag(input_node=Inp, output_node=Out), artifact_store=RecordingWriteOnceStore)
    result = await asyncio.wait_for(chart.run(input_kwargs=dict(x=1)), 10)
    await asyncio.sleep(0.5)   # give any pending save all the time it needs

    print('--- scenario A')
    print('run result:', result)
    for ev in EVENTS:
        print('   ', ev)
    print('saved artifacts:', SAVED)

    expected = {'processor__inp', 'processor__slow', 'processor__fast', 'processor__out'}
    print('EXPECTED: successful run, one artifact for each of', sorted(expected))
    missing = expected - set(SAVED)
    if result.error is None and missing:
        print('OBSERVED: run succeeded (value=%r) but executed node(s) %s have NO artifact; '
              'the save was cancelled by run()' % (result.value, sorted(missing)))
        return 1
    print('OBSERVED: ok')
    return 0


if __name__ == '__main__':
    sys.exit(asyncio.run(main()))
