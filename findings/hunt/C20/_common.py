import os
import sys
import types

sys.path.insert(0, os.getcwd())
sys.modules.setdefault('importlib_resources', types.ModuleType('importlib_resources'))
