"""
Defect 2: a generic (build_node) node loses the documentation declared on the process() method of its base class.
The same base used through plain inheritance carries the docstring; the build_node variant shows the docstring of
ProcessorBase ("Базовый класс для обработчиков общего назначения") instead.

Root cause: ml_pipeline_engine/node/node.py:build_node, lines 136-141 + 148: the replacement `class_method` wrapper
keeps neither __doc__ nor __name__ of the wrapped process (no functools.wraps), and
ml_pipeline_viewer/visualization/dag.py:_generate_nodes line 83 relies on inspect.getdoc(bound method), whose MRO
lookup uses __func__.__name__ == 'class_method' and therefore finds nothing; the `or inspect.getdoc(node)` fallback then
returns the doc inherited from ProcessorBase.
"""
import _common  # noqa
import sys

from ml_pipeline_viewer.visualization.dag import GraphConfigImpl

from ml_pipeline_engine.dag_builders.annotation import build_dag
from ml_pipeline_engine.dag_builders.annotation.marks import GenericInput
from ml_pipeline_engine.dag_builders.annotation.marks import Input
from ml_pipeline_engine.node import ProcessorBase
from ml_pipeline_engine.node import build_node


class Inp(ProcessorBase):
    name = 'inp'

    def process(self, x: int) -> int:
        return x


class Feature(ProcessorBase):
    name = 'feature'

    def process(self, v: GenericInput(Inp)) -> int:
        """Multiplies the value by two"""
        return v * 2


class Inherited(Feature):
    name = 'inherited'

    def process(self, v: Input(Inp)) -> int:
        return v * 2


Generic = build_node(Feature, node_name='generic', v=Input(Inp))


class Out(ProcessorBase):
    name = 'out'

    def process(self, a: Input(Inherited), b: Input(Generic)) -> int:
        return a + b


dag = build_dag(input_node=Inp, output_node=Out)
nodes = {node.id: node for node in GraphConfigImpl(dag).generate(name='x').nodes}

expected = 'Multiplies the value by two'
doc_inherited = nodes['processor__inherited'].data.doc
doc_generic = nodes['processor__generic'].data.doc

print('expected doc of both nodes : %r' % expected)
print('plain subclass             : %r' % doc_inherited)
print('build_node generic         : %r' % doc_generic)

if doc_generic != expected:
    print('DEFECT: the generic node does not carry the documentation declared on its process()')
    sys.exit(1)

sys.exit(0)
