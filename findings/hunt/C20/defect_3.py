"""
Defect 3: is_generic of a node entry is derived from the CLASS NAME (substring "generic", case-insensitive), not from
the fact that the node was produced by build_node. A build_node node created with an explicit class_name is reported as
not generic, and an ordinary hand written class whose name merely contains "generic" is reported as generic.

Root cause: ml_pipeline_viewer/visualization/dag.py:_generate_nodes line 79
(`is_generic=NodeType.is_generic(node.__name__)`) with ml_pipeline_engine/node/enums.py:NodeType.is_generic lines 11-13
(`cls.generic.value in value.lower()`); the reliable marker `__generic_class__` set by build_node is ignored here
(it IS used two lines below for code_source).
"""
import _common  # noqa
import sys

from ml_pipeline_viewer.visualization.dag import GraphConfigImpl

from ml_pipeline_engine.dag_builders.annotation import build_dag
from ml_pipeline_engine.dag_builders.annotation.marks import GenericInput
from ml_pipeline_engine.dag_builders.annotation.marks import Input
from ml_pipeline_engine.node import ProcessorBase
from ml_pipeline_engine.node import build_node


class Inp(ProcessorBase):
    name = 'inp'

    def process(self, x: int) -> int:
        return x


class Feature(ProcessorBase):
    name = 'feature'

    def process(self, v: GenericInput(Inp)) -> int:
        return v * 2


# documented parameter of build_node: "class_name: Title for the new class node"
ScoreFeature = build_node(Feature, node_name='score_feature', class_name='ScoreFeature', v=Input(Inp))
DefaultNamed = build_node(Feature, node_name='default_named', v=Input(Inp))


class GenericFallbackScore(ProcessorBase):
    """An ordinary hand written node, not produced by build_node"""
    name = 'plain'

    def process(self, v: Input(Inp)) -> int:
        return v


class Out(ProcessorBase):
    name = 'out'

    def process(self, a: Input(ScoreFeature), b: Input(DefaultNamed), c: Input(GenericFallbackScore)) -> int:
        return a + b + c


dag = build_dag(input_node=Inp, output_node=Out)
nodes = {node.id: node for node in GraphConfigImpl(dag).generate(name='x').nodes}

rows = [
    ('processor__score_feature', True, 'build_node(..., class_name="ScoreFeature")'),
    ('processor__default_named', True, 'build_node(...) with the default class name'),
    ('processor__plain', False, 'hand written class GenericFallbackScore'),
]

bad = False
for node_id, expected, what in rows:
    got = nodes[node_id].is_generic
    is_really_generic = hasattr(dag.node_map[node_id], '__generic_class__')
    assert is_really_generic == expected
    print('%-28s %-48s expected is_generic=%-5s got %s' % (node_id, what, expected, got))
    bad |= got != expected

if bad:
    print('DEFECT: is_generic does not tell whether the node is a build_node node')
    sys.exit(1)

sys.exit(0)
