"""
Defect 1: the viewer graph description cannot be generated for a DAG that contains a generic node built from
another generic node (build_node(build_node(Base, ...), ...)). The pipeline builds and runs, but
GraphConfigImpl.generate() raises OSError('could not find class definition').

Root cause: ml_pipeline_viewer/visualization/dag.py:_get_node_relative_path, lines 39-48: only ONE level of
__generic_class__ is unwrapped; for a second-level generic the "generic class" is itself a type()-created class whose
__module__ is ml_pipeline_engine.node.node, and inspect.getsourcelines() is called on it without any guard.
"""
import _common  # noqa
import asyncio
import json
import sys
import traceback

from ml_pipeline_viewer.visualization.dag import GraphConfigImpl

from ml_pipeline_engine.chart import PipelineChart
from ml_pipeline_engine.dag_builders.annotation import build_dag
from ml_pipeline_engine.dag_builders.annotation.marks import GenericInput
from ml_pipeline_engine.dag_builders.annotation.marks import Input
from ml_pipeline_engine.node import ProcessorBase
from ml_pipeline_engine.node import build_node
from ml_pipeline_engine.parallelism import threads_pool_registry


class Inp(ProcessorBase):
    name = 'inp'

    def process(self, x: int) -> int:
        return x


class Feature(ProcessorBase):
    name = 'feature'

    def process(self, v: GenericInput(Inp), k: int = 1) -> int:
        return v * k


# first level: bind the dependency; second level: specialise the first one with another default
FeatureOfInp = build_node(Feature, node_name='feature_of_inp', v=Input(Inp))
FeatureOfInpTimes3 = build_node(
    FeatureOfInp, node_name='feature_of_inp_x3', dependencies_default={'k': 3}, v=Input(Inp),
)


class Out(ProcessorBase):
    name = 'out'

    def process(self, a: Input(FeatureOfInp), b: Input(FeatureOfInpTimes3)) -> int:
        return a + b


dag = build_dag(input_node=Inp, output_node=Out)


async def run():
    threads_pool_registry.auto_init()
    return await PipelineChart('m', dag).run(input_kwargs={'x': 2})


result = asyncio.run(run())
print('pipeline builds and runs: value=%r error=%r (expected 2*1 + 2*3 = 8)' % (result.value, result.error))
assert result.error is None and result.value == 8

print('expected: GraphConfigImpl(dag).generate() returns a description with %d nodes' % len(dag.graph.nodes))
try:
    config = GraphConfigImpl(dag).generate(name='x')
    json.dumps(config.as_dict())
except Exception as ex:
    traceback.print_exc()
    print('DEFECT: generate() raised %r for a buildable, runnable pipeline' % ex)
    sys.exit(1)

print('ok: %d nodes generated' % len(config.nodes))
sys.exit(0)
