"""
Defect 5: DAG.visualize() cannot be called with its declared default target_dir=None: the description is generated and
then `pathlib.Path(None)` raises TypeError, so nothing is serialised. The `or pathlib.Path(__file__).resolve()` fallback
is unreachable (and would be the path of the dag.py FILE, not a directory).

Root cause: ml_pipeline_engine/dag/dag.py:DAG.visualize, line 74:
    target_dir=pathlib.Path(target_dir) or pathlib.Path(__file__).resolve()
(the `or` must be applied to target_dir before the conversion).
"""
import _common  # noqa
import sys
import traceback
from unittest import mock

from ml_pipeline_engine.dag_builders.annotation import build_dag
from ml_pipeline_engine.dag_builders.annotation.marks import Input
from ml_pipeline_engine.node import ProcessorBase


class Inp(ProcessorBase):
    name = 'inp'

    def process(self, x: int) -> int:
        return x


class Out(ProcessorBase):
    name = 'out'

    def process(self, a: Input(Inp)) -> int:
        return a


dag = build_dag(input_node=Inp, output_node=Out)

print('expected: dag.visualize(name="x") (target_dir: Optional = None is the declared default) reaches build_static')

# build_static is replaced by a recorder: the missing importlib_resources dependency is irrelevant here, and nothing
# must be written next to the library sources.
with mock.patch('ml_pipeline_viewer.visualization.dag.build_static') as build_static:
    try:
        dag.visualize(name='x')
    except TypeError as ex:
        traceback.print_exc()
        print('build_static called: %s' % build_static.called)
        print('DEFECT: visualize() with the default target_dir raised %r' % ex)
        sys.exit(1)

print('ok: build_static called with %r' % (build_static.call_args,))
sys.exit(0)
