"""
Defect 4: edge ids of the graph description are not unique. The id is the plain concatenation
f'{source}->{target}', and node names (hence node ids) are free-form strings, so two different DAG edges
(a, 'b->processor__c') and ('a->processor__b', c) get the same id.

Root cause: ml_pipeline_viewer/visualization/schema.py:Edge.__post_init__, lines 42-43 - the separator '->' is not
escaped / not excluded from node ids (nothing in get_node_id or the builder forbids it: the pipeline builds and runs).
"""
import _common  # noqa
import asyncio
import collections
import sys

from ml_pipeline_viewer.visualization.dag import GraphConfigImpl

from ml_pipeline_engine.chart import PipelineChart
from ml_pipeline_engine.dag_builders.annotation import build_dag
from ml_pipeline_engine.dag_builders.annotation.marks import Input
from ml_pipeline_engine.node import ProcessorBase
from ml_pipeline_engine.parallelism import threads_pool_registry


class A(ProcessorBase):
    name = 'a'

    def process(self, x: int) -> int:
        return x


class B(ProcessorBase):
    name = 'b->processor__c'

    def process(self, x: Input(A)) -> int:
        return x + 1


class D(ProcessorBase):
    name = 'a->processor__b'

    def process(self, x: Input(A)) -> int:
        return x + 10


class C(ProcessorBase):
    name = 'c'

    def process(self, x: Input(D)) -> int:
        return x + 100


class Out(ProcessorBase):
    name = 'out'

    def process(self, b: Input(B), c: Input(C)) -> int:
        return b + c


dag = build_dag(input_node=A, output_node=Out)


async def run():
    threads_pool_registry.auto_init()
    return await PipelineChart('m', dag).run(input_kwargs={'x': 1})


result = asyncio.run(run())
print('pipeline builds and runs: value=%r error=%r' % (result.value, result.error))
assert result.error is None and result.value == 113

edges = GraphConfigImpl(dag).generate(name='x').edges
assert len(edges) == len(dag.graph.edges) == 5

counter = collections.Counter(edge.id for edge in edges)
print('expected: %d distinct edge ids for %d DAG edges' % (len(edges), len(edges)))
print('got     : %d distinct edge ids' % len(counter))

for edge_id, count in counter.items():
    if count > 1:
        print('  id %r is shared by: %s' % (edge_id, [(e.source, e.target) for e in edges if e.id == edge_id]))

if len(counter) != len(edges):
    print('DEFECT: edge ids are not unique')
    sys.exit(1)

sys.exit(0)
