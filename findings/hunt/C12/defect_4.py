"""
defect_4: when a recurrent sub-graph runs out of iterations, the default of the destination node is produced by
calling get_default() *inside* the retry loop that is meant for the node body. The retry / default policy of the
node is therefore applied to get_default() itself: a failing get_default() is re-invoked `attempts` times with
`delay` in between and then once more by the "attempts exhausted -> use default" branch (attempts + 1 calls);
an exception that does not match `exceptions` still causes a second call. On the ordinary path (body failed,
attempts exhausted) get_default() is called exactly once and its exception is the failure of the node.

Shape:  Out(r: RecurrentSubGraph(start_node=RS, dest_node=RD, max_iterations=1));  RD(s: Input(RS)); RS(i: Input(Inp))
        RD: attempts=3, delay=0.1, exceptions=(KeyError,), use_default=True, body always asks for the next iteration
Run from /tmp/hunt_C12:  /venv/bin/python _hunt/defect_4.py     (exit code 1 == defect shows)
"""
import os
import sys

sys.path.insert(0, os.getcwd())

import asyncio
import logging
import time

logging.disable(logging.CRITICAL)

from ml_pipeline_engine.chart import PipelineChart
from ml_pipeline_engine.dag_builders.annotation import build_dag
from ml_pipeline_engine.dag_builders.annotation.marks import Input
from ml_pipeline_engine.dag_builders.annotation.marks import RecurrentSubGraph
from ml_pipeline_engine.node import ProcessorBase
from ml_pipeline_engine.node import RecurrentProcessor

STATE = {}


class Inp(ProcessorBase):
    async def process(self, x: int) -> int:
        return x


class RS(RecurrentProcessor):
    async def process(self, i: Input(Inp), additional_data: object = None) -> int:
        return i


class RD(RecurrentProcessor):
    attempts = 3
    delay = 0.1
    exceptions = (KeyError,)
    use_default = True

    def get_default(self, **kwargs):
        STATE['default_calls'].append(round(time.monotonic() - STATE['t0'], 2))
        raise STATE['default_error']('get_default is broken')

    async def process(self, s: Input(RS)):
        STATE['body_calls'] += 1
        if STATE['body_raises']:
            raise KeyError('body failed')
        return self.next_iteration(s)


class Out(ProcessorBase):
    async def process(self, r: RecurrentSubGraph(start_node=RS, dest_node=RD, max_iterations=1)) -> int:
        return r


async def run(body_raises: bool, default_error: type) -> str:
    STATE.update(body_raises=body_raises, default_error=default_error, default_calls=[], body_calls=0,
                 t0=time.monotonic())
    chart = PipelineChart('m', build_dag(input_node=Inp, output_node=Out))
    try:
        res = await asyncio.wait_for(chart.run(input_kwargs=dict(x=1)), 5)
    except asyncio.TimeoutError:
        return 'HANG'
    return (f'error={res.error!r}; body invoked {STATE["body_calls"]}x; '
            f'get_default invoked {len(STATE["default_calls"])}x at t={STATE["default_calls"]}')


async def main() -> int:
    print('reference (ordinary path: the body raises KeyError at all 3 attempts, then get_default raises):')
    print('   ', await run(body_raises=True, default_error=KeyError))
    ref_calls = len(STATE['default_calls'])
    print()
    print('case A: iterations exhausted (body returns next_iteration), get_default raises KeyError (in `exceptions`)')
    print('expected: get_default invoked once, its KeyError is the failure of the node')
    got_a = await run(body_raises=False, default_error=KeyError)
    calls_a = len(STATE['default_calls'])
    print('got     :', got_a)
    print()
    print('case B: same, get_default raises ValueError (NOT in `exceptions`, i.e. not retryable)')
    print('expected: get_default invoked once')
    got_b = await run(body_raises=False, default_error=ValueError)
    calls_b = len(STATE['default_calls'])
    print('got     :', got_b)

    if ref_calls == 1 and calls_a == 1 and calls_b == 1:
        print('OK - no defect')
        return 0

    print(f'DEFECT: get_default() was invoked {calls_a}x (case A, with the retry delay) / {calls_b}x (case B) '
          f'instead of once')
    return 1


sys.exit(asyncio.run(main()))
