"""
defect_3: the keyword arguments of a node share one namespace with the engine's own parameters of the retry loop.
A node whose process() has a parameter called `node` (or `node_id` / `force_default`) is never invoked: the
engine's own TypeError ("got multiple values for keyword argument") is raised *inside* the retry loop, is treated
as an error of the node body, is "retried" `attempts` times with `delay`, and finally even get_default() cannot be
called (same collision) - so use_default=True is not honoured either.

Shape:  Inp -> Model(node: Input(Inp)) -> Out         (also: input node with process(self, node_id: int))
Run from /tmp/hunt_C12:  /venv/bin/python _hunt/defect_3.py     (exit code 1 == defect shows)
"""
import os
import sys

sys.path.insert(0, os.getcwd())

import asyncio
import logging
import time

logging.disable(logging.CRITICAL)

from ml_pipeline_engine.chart import PipelineChart
from ml_pipeline_engine.dag_builders.annotation import build_dag
from ml_pipeline_engine.dag_builders.annotation.marks import Input
from ml_pipeline_engine.node import ProcessorBase

LOG = []


class Events:
    async def on_node_complete(self, ctx, node_id, error) -> None:  # noqa
        LOG.append((node_id.split('___')[-1], type(error).__name__ if error else None))


class Inp(ProcessorBase):
    async def process(self, x: int) -> int:
        return x


class Model(ProcessorBase):
    attempts = 3
    delay = 0.1
    use_default = True

    def get_default(self, **kwargs):
        LOG.append(('Model.get_default', kwargs))
        return -1

    async def process(self, node: Input(Inp)) -> int:
        LOG.append(('Model.process', node))
        return node + 1


class Out(ProcessorBase):
    async def process(self, m: Input(Model)) -> int:
        return m


class InpNodeId(ProcessorBase):
    use_default = True

    def get_default(self, **kwargs):
        LOG.append(('InpNodeId.get_default', kwargs))
        return -1

    async def process(self, node_id: int) -> int:
        LOG.append(('InpNodeId.process', node_id))
        return node_id


class Out2(ProcessorBase):
    async def process(self, m: Input(InpNodeId)) -> int:
        return m


async def main() -> int:
    bad = False

    print('case 1: Model.process(self, node: Input(Inp)), attempts=3, delay=0.1, use_default=True; body never raises')
    print('expected: Model.process invoked once with node=1 -> value=2 error=None')
    chart = PipelineChart('m', build_dag(input_node=Inp, output_node=Out), event_managers=[Events])
    started = time.monotonic()
    res = await asyncio.wait_for(chart.run(input_kwargs=dict(x=1)), 5)
    print(f'got     : value={res.value!r} error={res.error!r} after {time.monotonic() - started:.2f}s')
    print(f'          body/default invocations and node-complete events: {LOG}')
    bad |= res.value != 2

    LOG.clear()
    print()
    print('case 2: input node InpNodeId.process(self, node_id: int), use_default=True; run(input_kwargs={"node_id": 7})')
    print('expected: value=7 error=None')
    chart = PipelineChart('m', build_dag(input_node=InpNodeId, output_node=Out2), event_managers=[Events])
    res = await asyncio.wait_for(chart.run(input_kwargs=dict(node_id=7)), 5)
    print(f'got     : value={res.value!r} error={res.error!r}')
    print(f'          body/default invocations and node-complete events: {LOG}')
    bad |= res.value != 7

    if not bad:
        print('OK - no defect')
        return 0

    print('DEFECT: the node body was never invoked; the engine retried / reported its own TypeError')
    return 1


sys.exit(asyncio.run(main()))
