"""
defect_5 (extra): a node body that raises asyncio.CancelledError (a BaseException outside Exception - e.g. it awaited
an inner task / future that had been cancelled, or called .result() of a cancelled concurrent future) is neither
retried nor defaulted (as specified), but its failure is not reported either: the node task ends up in the
"cancelled" state, which the run loop ignores, and the pipeline hangs for ever. Any other BaseException
(see the control) aborts the run.

Shape:  Inp -> N -> Out
Run from /tmp/hunt_C12:  /venv/bin/python _hunt/defect_5.py     (exit code 1 == defect shows)
"""
import os
import sys

sys.path.insert(0, os.getcwd())

import asyncio
import logging

logging.disable(logging.CRITICAL)

from ml_pipeline_engine.chart import PipelineChart
from ml_pipeline_engine.dag_builders.annotation import build_dag
from ml_pipeline_engine.dag_builders.annotation.marks import Input
from ml_pipeline_engine.node import ProcessorBase

STATE = {}


class Abort(BaseException):
    pass


class Inp(ProcessorBase):
    async def process(self, x: int) -> int:
        return x


class N(ProcessorBase):
    attempts = 2
    use_default = True

    def get_default(self, **kwargs):
        STATE['default_calls'] += 1
        return -1

    async def process(self, i: Input(Inp)) -> int:
        STATE['body_calls'] += 1

        if STATE['mode'] == 'abort':
            raise Abort('custom BaseException')

        inner = asyncio.ensure_future(asyncio.sleep(10))
        inner.cancel()  # e.g. cancelled by some other part of the application
        await inner     # -> raises asyncio.CancelledError in the node body
        return i


class Out(ProcessorBase):
    async def process(self, n: Input(N)) -> int:
        return n


async def run(mode: str) -> str:
    STATE.update(mode=mode, body_calls=0, default_calls=0)
    chart = PipelineChart('m', build_dag(input_node=Inp, output_node=Out))
    try:
        res = await asyncio.wait_for(chart.run(input_kwargs=dict(x=1)), 2)
        out = f'returned value={res.value!r} error={res.error!r}'
    except asyncio.TimeoutError:
        out = 'HANG (no result within 2s)'
    except BaseException as ex:  # noqa
        out = f'run raised {ex!r}'
    return f'{out}; body invoked {STATE["body_calls"]}x, get_default invoked {STATE["default_calls"]}x'


async def main() -> int:
    print('control (body raises a custom BaseException):')
    print('   ', await run('abort'))
    print('case (body raises asyncio.CancelledError):')
    print('expected: not retried, not defaulted, the run ends with the CancelledError of the node (like the control)')
    got = await run('cancelled')
    print('got     :', got)

    if 'HANG' not in got:
        print('OK - no defect')
        return 0

    print('DEFECT: the failure of the node is lost and the pipeline never finishes')
    return 1


sys.exit(asyncio.run(main()))
