"""
defect_2: the failure of a node (attempts exhausted, use_default=False) is turned into a *value* when the node was
first requested by a one-of candidate scope; a consumer outside of the one-of that needs the node through a plain
Input is then invoked with the exception object as an argument and the pipeline "succeeds".

Shape:
    Out(b: Input(B), one: InputOneOf([C1, C2]), t: Input(T))
    B(x: Input(X))   attempts=2, always raises ValueError          X(i: Input(Inp))
    C1(b: Input(B))                C2(i: Input(Inp))
    T(s: Input(S))                 S(i: Input(Inp))   (S is slow: the main scope waits for T, so that the one-of
                                                       scope is the first one that requests B)
Run from /tmp/hunt_C12:  /venv/bin/python _hunt/defect_2.py     (exit code 1 == defect shows)
"""
import os
import sys

sys.path.insert(0, os.getcwd())

import asyncio
import logging

logging.disable(logging.CRITICAL)

from ml_pipeline_engine.chart import PipelineChart
from ml_pipeline_engine.dag_builders.annotation import build_dag
from ml_pipeline_engine.dag_builders.annotation.marks import Input
from ml_pipeline_engine.dag_builders.annotation.marks import InputOneOf
from ml_pipeline_engine.node import ProcessorBase

STATE = {}


class Inp(ProcessorBase):
    async def process(self, x: int) -> int:
        return x


class X(ProcessorBase):
    async def process(self, i: Input(Inp)) -> int:
        await asyncio.sleep(0.05)
        return i


class S(ProcessorBase):
    async def process(self, i: Input(Inp)) -> int:
        if STATE['s_slow']:
            # S finishes only after B has used up all of its attempts
            await STATE['b_exhausted'].wait()
        return i


class T(ProcessorBase):
    async def process(self, s: Input(S)) -> int:
        return s


class B(ProcessorBase):
    attempts = 2
    delay = 0.01

    async def process(self, x: Input(X)) -> int:
        STATE['b_calls'] += 1
        if STATE['b_calls'] == 2:
            STATE['b_exhausted'].set()
        raise ValueError(f'B failed (attempt {STATE["b_calls"]})')


class C1(ProcessorBase):
    async def process(self, b: Input(B)) -> str:
        return 'c1'


class C2(ProcessorBase):
    async def process(self, i: Input(Inp)) -> str:
        return 'c2'


class Out(ProcessorBase):
    async def process(self, b: Input(B), one: InputOneOf([C1, C2]), t: Input(T)) -> tuple:
        STATE['out_args'] = dict(b=b, one=one, t=t)
        return b, one, t


class OutControl(ProcessorBase):
    # same inputs, declared in another order: the main scope reaches B before it blocks on T
    async def process(self, t: Input(T), one: InputOneOf([C1, C2]), b: Input(B)) -> tuple:
        STATE['out_args'] = dict(b=b, one=one, t=t)
        return b, one, t


async def run(out_node: type) -> str:
    STATE.update(s_slow=True, b_calls=0, b_exhausted=asyncio.Event(), out_args=None)
    chart = PipelineChart('m', build_dag(input_node=Inp, output_node=out_node))
    try:
        res = await asyncio.wait_for(chart.run(input_kwargs=dict(x=1)), 3)
    except asyncio.TimeoutError:
        return 'HANG'
    return f'value={res.value!r} error={res.error!r}; B invoked {STATE["b_calls"]}x; Out invoked with {STATE["out_args"]!r}'


async def main() -> int:
    print('B is required by Out through a plain Input, it raises ValueError at each of its 2 attempts, no default.')
    print('expected: the pipeline fails: error=ValueError("B failed (attempt 2)"), Out is never invoked')
    print()
    print('control (same nodes, inputs of Out declared in another order: B is requested by the main scope first):')
    print('   ', await run(OutControl))
    print('case (B is requested by the scope of one-of candidate C1 first):')
    got = await run(Out)
    print('   ', got)

    if STATE['out_args'] is None and 'error=ValueError' in got:
        print('OK - no defect')
        return 0

    print('DEFECT: the failure of B was delivered to Out as a value (b=%r) and the pipeline reported success'
          % (STATE['out_args'] or {}).get('b'))
    return 1


sys.exit(asyncio.run(main()))
