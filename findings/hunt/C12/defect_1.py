"""
defect_1: a node that is in the middle of its retry sequence (sleeping `delay` between attempts) is cancelled by
the clean-up of a failed one-of candidate and is never re-invoked, although the next candidate needs it -> hang.

Shape:
    Out(one: InputOneOf([C1, C2]))
    C1(b: Input(B), d: Input(D))      D(a: Input(A))     A(i: Input(Inp))  -> fails
    C2(b: Input(B)) = b + 100                                   B(i: Input(Inp))  -> attempts=3, delay=0.2,
                                                                              1st attempt raises, 2nd would succeed
Run from /tmp/hunt_C12:  /venv/bin/python _hunt/defect_1.py     (exit code 1 == defect shows)
"""
import os
import sys

sys.path.insert(0, os.getcwd())

import asyncio
import logging

logging.disable(logging.CRITICAL)

from ml_pipeline_engine.chart import PipelineChart
from ml_pipeline_engine.dag_builders.annotation import build_dag
from ml_pipeline_engine.dag_builders.annotation.marks import Input
from ml_pipeline_engine.dag_builders.annotation.marks import InputOneOf
from ml_pipeline_engine.node import ProcessorBase

STATE = {}


class Inp(ProcessorBase):
    async def process(self, x: int) -> int:
        return x


class A(ProcessorBase):
    async def process(self, i: Input(Inp)) -> int:
        if STATE['a_fails']:
            # fail exactly while B sleeps between its 1st and 2nd attempt
            await STATE['b_first_attempt_done'].wait()
            raise ValueError('A failed')
        return i


class D(ProcessorBase):
    async def process(self, a: Input(A)) -> int:
        return a


class B(ProcessorBase):
    attempts = 3
    delay = 0.2
    exceptions = (KeyError,)

    async def process(self, i: Input(Inp)) -> int:
        STATE['b_calls'] += 1
        STATE['b_first_attempt_done'].set()
        if STATE['b_calls'] == 1 and STATE['b_transient']:
            raise KeyError('transient error of B')
        return 10


class C1(ProcessorBase):
    async def process(self, b: Input(B), d: Input(D)) -> int:
        return b + d


class C2(ProcessorBase):
    async def process(self, b: Input(B)) -> int:
        return b + 100


class Out(ProcessorBase):
    async def process(self, one: InputOneOf([C1, C2])) -> int:
        return one


async def run(a_fails: bool, b_transient: bool) -> str:
    STATE.update(a_fails=a_fails, b_transient=b_transient, b_calls=0, b_first_attempt_done=asyncio.Event())
    chart = PipelineChart('m', build_dag(input_node=Inp, output_node=Out))
    try:
        res = await asyncio.wait_for(chart.run(input_kwargs=dict(x=1)), 3)
    except asyncio.TimeoutError:
        return f'HANG (no result within 3s), B invoked {STATE["b_calls"]} time(s)'
    return f'value={res.value!r} error={res.error!r}, B invoked {STATE["b_calls"]} time(s)'


async def main() -> int:
    print('control 1 (A ok, B fails once then succeeds)   ->', await run(a_fails=False, b_transient=True))
    print('control 2 (A fails, B succeeds at 1st attempt) ->', await run(a_fails=True, b_transient=False))
    print()
    print('case: A fails while B sleeps between attempt 1 and attempt 2')
    print('expected: B (attempts=3) is invoked a 2nd time and returns 10; candidate C1 is rejected (A failed),')
    print('          candidate C2 = B + 100 -> value=110 error=None, B invoked 2 time(s)')
    got = await run(a_fails=True, b_transient=True)
    print('got     :', got)

    if got.startswith('value=110 ') and 'B invoked 2' in got:
        print('OK - no defect')
        return 0

    print('DEFECT: the retry sequence of B was aborted by the clean-up of the failed candidate C1')
    return 1


sys.exit(asyncio.run(main()))
