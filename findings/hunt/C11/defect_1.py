"""
Defect 1: a node of a recurrent subgraph that fails DURING A RE-ITERATION inside a one-of candidate
hangs the whole run, unless the failing node is the direct predecessor of the destination AND the
consumer of the destination is the candidate itself.

Shape:   In -> S -> X -> D ==rec(S..D)==> P -> C1     Out: InputOneOf([C1, C2]),   C2: Input(In)
Trigger: D asks for next_iteration('boom'); X raises when it sees 'boom'.
Expected: candidate C1 is rejected, C2 is used, result == 'fallback'.

Run from /tmp/hunt_C11:  /venv/bin/python _hunt/defect_1.py
"""
import asyncio
import logging
import os
import sys
import typing as t

sys.path.insert(0, os.getcwd())
logging.disable(logging.CRITICAL)

from ml_pipeline_engine.chart import PipelineChart  # noqa: E402
from ml_pipeline_engine.dag_builders.annotation import build_dag  # noqa: E402
from ml_pipeline_engine.dag_builders.annotation.marks import Input  # noqa: E402
from ml_pipeline_engine.dag_builders.annotation.marks import InputOneOf  # noqa: E402
from ml_pipeline_engine.dag_builders.annotation.marks import RecurrentSubGraph  # noqa: E402
from ml_pipeline_engine.node import ProcessorBase  # noqa: E402
from ml_pipeline_engine.node import RecurrentProcessor  # noqa: E402
from ml_pipeline_engine.node.enums import NodeTag  # noqa: E402
from ml_pipeline_engine.parallelism import threads_pool_registry  # noqa: E402

threads_pool_registry.auto_init()
NA = (NodeTag.non_async,)


def make(extra_hop: bool) -> t.Tuple[t.Any, t.Any, list]:
    calls = []

    class In(ProcessorBase):
        tags = NA

        def process(self, num: int) -> int:
            return num

    class S(ProcessorBase):
        tags = NA

        def process(self, num: Input(In), additional_data: t.Any = None) -> t.Any:
            calls.append(('S', additional_data))
            return additional_data if additional_data is not None else num

    class X(ProcessorBase):
        tags = NA

        def process(self, v: Input(S)) -> t.Any:
            calls.append(('X', v))
            if v == 'boom':
                raise RuntimeError('X fails in the re-iteration')
            return v

    class D(RecurrentProcessor):
        tags = NA

        def process(self, v: Input(X)) -> t.Any:
            calls.append(('D', v))
            if v == 1:
                return self.next_iteration('boom')
            return v

    rec = RecurrentSubGraph(start_node=S, dest_node=D, max_iterations=3)

    class P(ProcessorBase):
        tags = NA

        def process(self, v: rec) -> t.Any:
            calls.append(('P', v))
            return v

    class C1(ProcessorBase):
        tags = NA

        def process(self, v: Input(P) if extra_hop else rec) -> t.Any:
            calls.append(('C1', v))
            return v

    class C2(ProcessorBase):
        tags = NA

        def process(self, v: Input(In)) -> t.Any:
            calls.append(('C2', v))
            return 'fallback'

    class Out(ProcessorBase):
        tags = NA

        def process(self, v: InputOneOf([C1, C2])) -> t.Any:
            return v

    return In, Out, calls


async def run_once(extra_hop: bool) -> str:
    inp, out, calls = make(extra_hop)
    chart = PipelineChart('m', build_dag(input_node=inp, output_node=out))
    try:
        res = await asyncio.wait_for(chart.run(input_kwargs=dict(num=1)), 3)
        outcome = f'value={res.value!r} error={res.error!r}'
    except asyncio.TimeoutError:
        outcome = 'HANG (no result after 3s)'
    print(f'  calls: {calls}')
    print(f'  outcome: {outcome}')
    return outcome


async def main() -> int:
    print('control: the candidate C1 consumes the recurrent destination directly')
    print("  expected: value='fallback' error=None")
    control = await run_once(extra_hop=False)

    print('defect shape: one plain node P between the recurrent destination and the candidate C1')
    print("  expected: value='fallback' error=None")
    shape = await run_once(extra_hop=True)

    ok = "value='fallback' error=None"
    if control == ok and shape == ok:
        print('OK: no defect')
        return 0

    print('DEFECT: the failure inside the re-iteration never reaches the one-of, the run hangs')
    return 1


if __name__ == '__main__':
    sys.exit(asyncio.run(main()))
