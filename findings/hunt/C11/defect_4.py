"""
Defect 4 (completion order): a consumer OUTSIDE the recurrent subgraph of a switch that is INSIDE the subgraph
crashes with AttributeError("'NoneType' object has no attribute 'node_id'") when it is launched in the same
event-loop turn in which the destination asks for a re-iteration.

Shape:   In -> S -> {Sel, K1, K2} -> switch sw -> D ==rec(S..D)==> C
         Z(s: sw, w: Input(W))      Z is not on a path S..D, W is a slow independent node
         Out(C, Z, T)               T only releases the two asyncio.Events that fix the interleaving
Interleaving: W completes, then in the next loop step D returns next_iteration(1).
Expected: Z is called with the value of the switch (('k1', 0) or ('k1', 1)), the run succeeds; the nodes outside the
          subgraph must not be disturbed by the re-iteration.

Run from /tmp/hunt_C11:  /venv/bin/python _hunt/defect_4.py
"""
import asyncio
import logging
import os
import sys
import typing as t

sys.path.insert(0, os.getcwd())
logging.disable(logging.CRITICAL)

from ml_pipeline_engine.chart import PipelineChart  # noqa: E402
from ml_pipeline_engine.dag_builders.annotation import build_dag  # noqa: E402
from ml_pipeline_engine.dag_builders.annotation.marks import Input  # noqa: E402
from ml_pipeline_engine.dag_builders.annotation.marks import RecurrentSubGraph  # noqa: E402
from ml_pipeline_engine.dag_builders.annotation.marks import SwitchCase  # noqa: E402
from ml_pipeline_engine.node import ProcessorBase  # noqa: E402
from ml_pipeline_engine.node import RecurrentProcessor  # noqa: E402
from ml_pipeline_engine.node.enums import NodeTag  # noqa: E402
from ml_pipeline_engine.parallelism import threads_pool_registry  # noqa: E402

threads_pool_registry.auto_init()
NA = (NodeTag.non_async,)

calls = []
ev: t.Dict[str, asyncio.Event] = {}
cfg = {'gap': 0.0}


class In(ProcessorBase):
    tags = NA

    def process(self, num: int) -> t.Any:
        return num


class S(ProcessorBase):
    tags = NA

    def process(self, v: Input(In), additional_data: t.Any = None) -> t.Any:
        calls.append(('S', additional_data))
        return additional_data if additional_data is not None else v


class Sel(ProcessorBase):
    tags = NA

    def process(self, v: Input(S)) -> t.Any:
        return 'a'


class K1(ProcessorBase):
    tags = NA

    def process(self, v: Input(S)) -> t.Any:
        return 'k1', v


class K2(ProcessorBase):
    tags = NA

    def process(self, v: Input(S)) -> t.Any:
        return 'k2', v


sw = SwitchCase(switch=Sel, cases=[('a', K1), ('b', K2)], name='sw')


class D(RecurrentProcessor):
    async def process(self, v: sw) -> t.Any:
        calls.append(('D', v))
        if v[1] == 0:
            await ev['d'].wait()
            return self.next_iteration(1)
        return v


class P1(ProcessorBase):
    tags = NA

    def process(self, v: Input(In)) -> t.Any:
        return v


class P2(ProcessorBase):
    tags = NA

    def process(self, v: Input(P1)) -> t.Any:
        return v


class P3(ProcessorBase):
    tags = NA

    def process(self, v: Input(P2)) -> t.Any:
        return v


class W(ProcessorBase):
    """Slow independent node. The P1..P3 chain only pushes Z behind D in the scheduling order."""

    async def process(self, v: Input(P3)) -> t.Any:
        await ev['w'].wait()
        return 'w'


class Z(ProcessorBase):
    tags = NA

    def process(self, s: sw, w: Input(W)) -> t.Any:
        calls.append(('Z', s, w))
        return s, w


class T(ProcessorBase):
    async def process(self, v: Input(In)) -> t.Any:
        await asyncio.sleep(0.2)
        ev['w'].set()
        if cfg['gap']:
            await asyncio.sleep(cfg['gap'])
        ev['d'].set()
        return 't'


class Q5(ProcessorBase):
    tags = NA

    def process(self, v: Input(W)) -> t.Any:
        return v


class Q6(ProcessorBase):
    tags = NA

    def process(self, v: Input(Q5)) -> t.Any:
        return v


class C(ProcessorBase):
    tags = NA

    def process(self, v: RecurrentSubGraph(start_node=S, dest_node=D, max_iterations=3), q: Input(Q6)) -> t.Any:
        calls.append(('C', v))
        return v


class Out(ProcessorBase):
    tags = NA

    def process(self, c: Input(C), z: Input(Z), t_: Input(T)) -> t.Any:
        return c, z


async def run_once(gap: float) -> t.Tuple[t.Any, t.Any]:
    calls.clear()
    cfg['gap'] = gap
    ev['w'] = asyncio.Event()
    ev['d'] = asyncio.Event()
    chart = PipelineChart('m', build_dag(input_node=In, output_node=Out))
    try:
        res = await asyncio.wait_for(chart.run(input_kwargs=dict(num=0)), 3)
        print(f'  calls: {calls}')
        print(f'  outcome: value={res.value!r} error={res.error!r}')
        return res.value, res.error
    except asyncio.TimeoutError:
        print(f'  calls: {calls}')
        print('  outcome: HANG')
        return None, 'HANG'


async def main() -> int:
    print('control: W completes 50 ms before D asks for the re-iteration')
    print("  expected: value=(('k1', 1), (('k1', 0), 'w')) error=None")
    c_value, c_error = await run_once(gap=0.05)

    print('defect interleaving: W completes, D asks for the re-iteration in the next loop step')
    print("  expected: value=(('k1', 1), (('k1', 0 or 1), 'w')) error=None")
    d_value, d_error = await run_once(gap=0.0)

    def ok(value: t.Any, error: t.Any) -> bool:
        return error is None and value is not None and value[0] == ('k1', 1) and value[1][1] == 'w'

    if ok(c_value, c_error) and ok(d_value, d_error):
        print('OK: no defect')
        return 0

    print(
        'DEFECT: the re-iteration hid the verdict of the switch while the outside consumer Z was already '
        'scheduled; Z reads the verdict without the hidden entries and the run dies with an AttributeError',
    )
    return 1


if __name__ == '__main__':
    sys.exit(asyncio.run(main()))
