"""
Defect 3: inside a re-iteration a node result that IS an exception instance (returned, not raised) makes the
recurrent loop give up silently: no further iteration, no default, no RecurrentSubgraphDoesNotHaveResultError,
nobody is notified - the run hangs. In the first (non-recurrent) pass the very same value is an ordinary value.

Shape:   S -> V -> D,  S -> D   ==rec(S..D, max_iterations=5)==> Out        (no one-of anywhere)
Trigger: V returns ValueError('too small') as a validation report while S < 2; D asks for next_iteration(S + 1)
         while there is a report.
Expected: S is called with None, 1, 2 and the result is 2 (2 re-iterations <= max_iterations).

Run from /tmp/hunt_C11:  /venv/bin/python _hunt/defect_3.py
"""
import asyncio
import logging
import os
import sys
import typing as t

sys.path.insert(0, os.getcwd())
logging.disable(logging.CRITICAL)

from ml_pipeline_engine.chart import PipelineChart  # noqa: E402
from ml_pipeline_engine.dag_builders.annotation import build_dag  # noqa: E402
from ml_pipeline_engine.dag_builders.annotation.marks import Input  # noqa: E402
from ml_pipeline_engine.dag_builders.annotation.marks import RecurrentSubGraph  # noqa: E402
from ml_pipeline_engine.node import ProcessorBase  # noqa: E402
from ml_pipeline_engine.node import RecurrentProcessor  # noqa: E402
from ml_pipeline_engine.node.enums import NodeTag  # noqa: E402
from ml_pipeline_engine.parallelism import threads_pool_registry  # noqa: E402

threads_pool_registry.auto_init()
NA = (NodeTag.non_async,)
calls = []


class S(ProcessorBase):
    tags = NA

    def process(self, num: int, additional_data: t.Any = None) -> t.Any:
        calls.append(('S', additional_data))
        return additional_data if additional_data is not None else num


class V(ProcessorBase):
    tags = NA

    def process(self, v: Input(S)) -> t.Any:
        calls.append(('V', v))
        return ValueError('too small') if v < 2 else None


class D(RecurrentProcessor):
    tags = NA

    def process(self, v: Input(S), problem: Input(V)) -> t.Any:
        calls.append(('D', v, repr(problem)))
        if problem is not None:
            return self.next_iteration(v + 1)
        return v


class Out(ProcessorBase):
    tags = NA

    def process(self, v: RecurrentSubGraph(start_node=S, dest_node=D, max_iterations=5)) -> t.Any:
        return v


async def main() -> int:
    chart = PipelineChart('m', build_dag(input_node=S, output_node=Out))
    print('expected: S called with None, 1, 2; value=2 error=None')
    try:
        res = await asyncio.wait_for(chart.run(input_kwargs=dict(num=0)), 3)
        outcome = f'value={res.value!r} error={res.error!r}'
    except asyncio.TimeoutError:
        outcome = 'HANG (no result after 3s)'

    print(f'observed calls: {calls}')
    print(f'observed: {outcome}')

    if outcome == 'value=2 error=None' and [c for c in calls if c[0] == 'S'] == [('S', None), ('S', 1), ('S', 2)]:
        print('OK: no defect')
        return 0

    print(
        'DEFECT: the first pass handed the exception-valued report to D as a value, the first re-iteration '
        'treated the same value as a subgraph failure and abandoned the loop without telling anybody',
    )
    return 1


if __name__ == '__main__':
    sys.exit(asyncio.run(main()))
