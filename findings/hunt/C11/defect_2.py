"""
Defect 2: the additional_data of a finished inner recurrent loop is never forgotten. When an outer recurrent
subgraph re-executes the inner start node as an ordinary member of the outer iteration, the inner start node is
called with the STALE additional_data of the previous inner loop.

Shape:   S1 -> S2 -> D2 ==rec(S2..D2)==> M -> D1 ==rec(S1..D1)==> Out
Trigger: D2 asks for one re-iteration (data 'inner-retry') while the value coming from S1 is 1;
         D1 then asks for one outer re-iteration that makes S1 produce 2.
Expected: S2 calls (1, None), (1, 'inner-retry'), (2, None); final value (2, None)
          (in the outer iteration only S1 receives additional_data, nobody asked S2 for a retry of the value 2).

Run from /tmp/hunt_C11:  /venv/bin/python _hunt/defect_2.py
"""
import asyncio
import logging
import os
import sys
import typing as t

sys.path.insert(0, os.getcwd())
logging.disable(logging.CRITICAL)

from ml_pipeline_engine.chart import PipelineChart  # noqa: E402
from ml_pipeline_engine.dag_builders.annotation import build_dag  # noqa: E402
from ml_pipeline_engine.dag_builders.annotation.marks import Input  # noqa: E402
from ml_pipeline_engine.dag_builders.annotation.marks import RecurrentSubGraph  # noqa: E402
from ml_pipeline_engine.node import ProcessorBase  # noqa: E402
from ml_pipeline_engine.node import RecurrentProcessor  # noqa: E402
from ml_pipeline_engine.node.enums import NodeTag  # noqa: E402
from ml_pipeline_engine.parallelism import threads_pool_registry  # noqa: E402

threads_pool_registry.auto_init()
NA = (NodeTag.non_async,)
calls = []


class S1(ProcessorBase):
    tags = NA

    def process(self, num: int, additional_data: t.Any = None) -> t.Any:
        calls.append(('S1', additional_data))
        return num if additional_data is None else additional_data


class S2(ProcessorBase):
    tags = NA

    def process(self, v: Input(S1), additional_data: t.Any = None) -> t.Any:
        calls.append(('S2', v, additional_data))
        return v, additional_data


class D2(RecurrentProcessor):
    tags = NA

    def process(self, v: Input(S2)) -> t.Any:
        calls.append(('D2', v))
        if v[0] == 1 and v[1] is None:
            return self.next_iteration('inner-retry')
        return v


class M(ProcessorBase):
    tags = NA

    def process(self, v: RecurrentSubGraph(start_node=S2, dest_node=D2, max_iterations=2)) -> t.Any:
        return v


class D1(RecurrentProcessor):
    tags = NA

    def process(self, v: Input(M)) -> t.Any:
        calls.append(('D1', v))
        if v[0] == 1:
            return self.next_iteration(2)
        return v


class Out(ProcessorBase):
    tags = NA

    def process(self, v: RecurrentSubGraph(start_node=S1, dest_node=D1, max_iterations=2)) -> t.Any:
        return v


async def main() -> int:
    chart = PipelineChart('m', build_dag(input_node=S1, output_node=Out))
    value = 'HANG'
    try:
        res = await asyncio.wait_for(chart.run(input_kwargs=dict(num=1)), 3)
        value = res.value
        print(f'result: value={res.value!r} error={res.error!r}')
    except asyncio.TimeoutError:
        print('result: HANG')

    expected_s2 = [('S2', 1, None), ('S2', 1, 'inner-retry'), ('S2', 2, None)]
    expected_d2 = [('D2', (1, None)), ('D2', (1, 'inner-retry')), ('D2', (2, None))]
    expected_value = (2, None)
    got_s2 = [c for c in calls if c[0] == 'S2']
    got_d2 = [c for c in calls if c[0] == 'D2']

    print(f'expected S2 calls: {expected_s2}')
    print(f'observed S2 calls: {got_s2}')
    print(f'expected D2 calls: {expected_d2}')
    print(f'observed D2 calls: {got_d2}')

    print(f'expected value: {expected_value}')
    print(f'observed value: {value!r}')

    if got_s2 == expected_s2 and got_d2 == expected_d2 and value == expected_value:
        print('OK: no defect')
        return 0

    print(
        'DEFECT: in the outer re-iteration the inner start node S2 got the additional_data of the inner loop '
        'that had already finished, so the consumers of the destination see a value built from stale data',
    )
    return 1


if __name__ == '__main__':
    sys.exit(asyncio.run(main()))
