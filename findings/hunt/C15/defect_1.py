"""
Defect 1: node ids are not unique per declared node class and build_dag never checks for a collision.

get_node_id() derives the id from the inheritable class attribute `name` (or module + __name__), and
build_node() gives every derived generic node the name of its base unless node_name is passed
('name': node_name or node.name). Two different declared nodes (two build_node() specialisations of one
generic base - exactly what tests/dag/test_reusable_nodes.py declares - or a subclass that overrides process()
but inherits `name`) get the same id. build_dag silently folds them into ONE graph node: their dependency edges are
united, node_map keeps whichever class was traversed last, and the consumers of both are fed by the same node.
"""
import sys

sys.path.insert(0, '_hunt')
from common import dump, run  # noqa: E402

from ml_pipeline_engine.dag_builders.annotation import build_dag  # noqa: E402
from ml_pipeline_engine.dag_builders.annotation.marks import Input, InputGeneric  # noqa: E402
from ml_pipeline_engine.node import ProcessorBase, build_node  # noqa: E402
from ml_pipeline_engine.types import NodeBase  # noqa: E402


class Inp(ProcessorBase):
    name = 'inp'

    async def process(self, x: int) -> int:
        return x


class FeatA(ProcessorBase):
    name = 'feat_a'

    async def process(self, i: Input(Inp)) -> int:
        return i + 1


class FeatB(ProcessorBase):
    name = 'feat_b'

    async def process(self, i: Input(Inp)) -> int:
        return i + 100


class GenericVectorizer(ProcessorBase):
    name = 'vectorizer'

    async def process(self, v: InputGeneric(NodeBase), k: int) -> int:
        return v * k


VecA = build_node(GenericVectorizer, v=Input(FeatA), dependencies_default=dict(k=2))
VecB = build_node(GenericVectorizer, v=Input(FeatB), dependencies_default=dict(k=3))


class ModelA(ProcessorBase):
    name = 'model_a'

    async def process(self, vec: Input(VecA)) -> int:
        return vec


class ModelB(ProcessorBase):
    name = 'model_b'

    async def process(self, vec: Input(VecB)) -> int:
        return vec


class OutAB(ProcessorBase):
    name = 'out_ab'

    async def process(self, a: Input(ModelA), b: Input(ModelB)) -> tuple:
        return a, b


class OutBA(ProcessorBase):
    name = 'out_ba'

    async def process(self, b: Input(ModelB), a: Input(ModelA)) -> tuple:
        return a, b


# second shape of the same root cause: a subclass that inherits `name`
class FeatA2(FeatA):
    async def process(self, i: Input(Inp)) -> int:
        return i + 5000


class ModelA2(ProcessorBase):
    name = 'model_a2'

    async def process(self, f: Input(FeatA2)) -> int:
        return f


class OutInh(ProcessorBase):
    name = 'out_inh'

    async def process(self, a: Input(ModelA), a2: Input(ModelA2)) -> tuple:
        return a, a2


bad = False
x = 1
expected = ((x + 1) * 2, (x + 100) * 3)
print('VecA is VecB:', VecA is VecB, '| ids:', end=' ')
from ml_pipeline_engine.node import get_node_id  # noqa: E402
print(get_node_id(VecA), get_node_id(VecB))

results = {}
for out in (OutAB, OutBA):
    dag = build_dag(Inp, out)
    print(f'--- build_dag(Inp, {out.__name__})')
    dump(dag)
    r = run(dag, x=x)
    results[out.__name__] = (r.value, repr(r.error))
    n_vec = [n for n in dag.graph.nodes if 'vectorizer' in n]
    print(f'  expected 2 vectorizer nodes and result (a, b) == {expected}; got {len(n_vec)} node(s) {n_vec}, '
          f'result={r.value!r} error={r.error!r}')
    if len(n_vec) != 2 or r.value != expected:
        bad = True

if results['OutAB'] != results['OutBA']:
    print('the result depends on the declaration order of the two parameters of the output node:', results)
    bad = True

dag = build_dag(Inp, OutInh)
print('--- build_dag(Inp, OutInh) (FeatA2 subclasses FeatA and inherits name)')
dump(dag)
r = run(dag, x=x)
print(f'  expected result (4, 5001); got {r.value!r} error={r.error!r}; node_map[processor__feat_a] = '
      f'{dag.node_map["processor__feat_a"].__name__}')
if r.value != (4, 5001):
    bad = True

print('DEFECT SHOWN' if bad else 'no defect')
sys.exit(1 if bad else 0)
