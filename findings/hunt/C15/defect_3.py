"""
Defect 3: the synthetic switch node is identified only by the free-text `name` of the SwitchCase mark.

builder.py builds the id with generate_node_id('switch', input_mark.name) and _add_switch_node()/add_edge() never check
whether that id is already taken. Two DIFFERENT SwitchCase declarations (different deciding node, different case table)
that carry the same `name` - e.g. two teams both calling their switch 'model_choice', or a helper that creates switches
with a fixed name - are merged into one synthetic node: it gets two is_switch edges (two deciding nodes) and the union
of both case tables, where equal labels of the two tables overwrite each other. Both consumers then receive the value
picked by whichever decider/label table the scheduler happens to read last.
(The other side of the same coin: with name=None the id is a fresh uuid4 per visit, so one declared switch shared by
two consumers becomes two synthetic nodes and two builds of the same declarations never give the same graph.)
"""
import sys

sys.path.insert(0, '_hunt')
from common import dump, run  # noqa: E402

from ml_pipeline_engine.dag_builders.annotation import build_dag  # noqa: E402
from ml_pipeline_engine.dag_builders.annotation.marks import Input, SwitchCase  # noqa: E402
from ml_pipeline_engine.node import ProcessorBase  # noqa: E402


class Inp(ProcessorBase):
    name = 'inp'

    async def process(self, x: int) -> int:
        return x


class Plus1(ProcessorBase):
    name = 'plus1'

    async def process(self, i: Input(Inp)) -> int:
        return i + 1


class Plus100(ProcessorBase):
    name = 'plus100'

    async def process(self, i: Input(Inp)) -> int:
        return i + 100


class Times7(ProcessorBase):
    name = 'times7'

    async def process(self, i: Input(Inp)) -> int:
        return i * 7


class DeciderOne(ProcessorBase):
    name = 'decider_one'

    async def process(self, i: Input(Inp)) -> str:
        return 'small'


class DeciderTwo(ProcessorBase):
    name = 'decider_two'

    async def process(self, i: Input(Inp)) -> str:
        return 'huge'


class ConsumerOne(ProcessorBase):
    name = 'consumer_one'

    async def process(
        self,
        v: SwitchCase(name='choice', switch=DeciderOne, cases=[('small', Plus1), ('big', Plus100)]),
    ) -> int:
        return v


class ConsumerTwo(ProcessorBase):
    name = 'consumer_two'

    async def process(
        self,
        v: SwitchCase(name='choice', switch=DeciderTwo, cases=[('small', Times7), ('big', Plus1), ('huge', Plus100)]),
    ) -> int:
        return v


class Out(ProcessorBase):
    name = 'out'

    async def process(self, one: Input(ConsumerOne), two: Input(ConsumerTwo)) -> tuple:
        return one, two


bad = False
dag = build_dag(Inp, Out)
dump(dag)
switches = [n for n, d in dag.graph.nodes(data=True) if any(str(getattr(k, 'value', k)) == 'is_switch' for k in d)]
print(f'expected 2 synthetic switch nodes (two SwitchCase declarations); got {len(switches)}: {switches}')
if len(switches) != 2:
    bad = True
for sw in switches:
    preds = {p: {str(getattr(k, "value", k)): v for k, v in dag.graph.edges[p, sw].items()}
             for p in dag.graph.predecessors(sw)}
    deciders = [p for p, d in preds.items() if d.get('is_switch')]
    print(f'  {sw}: deciders={deciders} cases={ {p: d["case_branch"] for p, d in preds.items() if "case_branch" in d} }')
    if len(deciders) != 1:
        bad = True

x = 1
expected = (x + 1, x + 100)   # DeciderOne -> 'small' -> Plus1 ; DeciderTwo -> 'huge' -> Plus100
r = run(dag, x=x)
print(f'expected result {expected}; got {r.value!r} error={r.error!r}')
if r.value != expected:
    bad = True

print('DEFECT SHOWN' if bad else 'no defect')
sys.exit(1 if bad else 0)
