"""
Defect 5: build_dag(input_node=X, output_node=X) returns a DAG whose graph has no node at all.

_traverse_breadth_first_to_dag() adds a node to the graph only as the end point of an edge. For the only node of a
one-node pipeline there is no mark and `input_node != current_node` is False, so nothing is added: the DAG has
input_node == output_node == 'processor__x', node_map has the class, but graph.nodes is empty (build() adds the node
explicitly only on the build_dag_single() path, output_node=None). Running it fails inside networkx with
NodeNotFound('source node ... not in graph') instead of executing X.
"""
import sys

sys.path.insert(0, '_hunt')
from common import dump, run  # noqa: E402

from ml_pipeline_engine.dag_builders.annotation import build_dag, build_dag_single  # noqa: E402
from ml_pipeline_engine.node import ProcessorBase  # noqa: E402


class Only(ProcessorBase):
    name = 'only'

    async def process(self, x: int) -> int:
        return x + 1


bad = False
ref = build_dag_single(Only)
print('build_dag_single(Only):')
dump(ref)
print('  run ->', run(ref, x=1).value)

dag = build_dag(Only, Only)
print('build_dag(Only, Only):')
dump(dag)
print(f'expected the same one-node graph {sorted(ref.graph.nodes)}; got {sorted(dag.graph.nodes)} '
      f'(input_node={dag.input_node}, output_node={dag.output_node})')
r = run(dag, x=1)
print(f'expected result 2; got value={r.value!r} error={r.error!r}')
if sorted(dag.graph.nodes) != sorted(ref.graph.nodes) or r.value != 2:
    bad = True

print('DEFECT SHOWN' if bad else 'no defect')
sys.exit(1 if bad else 0)
