"""
Borderline 6 (mechanism related to the KNOWN "two parameters fed by one source -> one edge" item, reported separately
because what is lost is a declared CASE LABEL, not a parameter): the case table of a SwitchCase is stored as the
`case_branch` attribute of the edge case_node -> switch. A simple DiGraph has one edge per node pair, therefore

  a) cases=[('a', X), ('b', X), ...] (two labels served by the same node) keeps only the last label of X - label 'a'
     disappears and the run fails with SwitchCaseDoesNotHaveBranchError for a declared label;
  b) cases=[('self', Decider), ...] (the deciding node is itself one of the cases) puts is_switch and case_branch on the
     same edge: the declared case 'self' does not exist for the scheduler and the decider edge is filtered out of the
     reduced graph as a case edge - the run hangs forever.
"""
import sys

sys.path.insert(0, '_hunt')
from common import dump, run  # noqa: E402

from ml_pipeline_engine.dag_builders.annotation import build_dag  # noqa: E402
from ml_pipeline_engine.dag_builders.annotation.marks import Input, SwitchCase  # noqa: E402
from ml_pipeline_engine.node import ProcessorBase  # noqa: E402


class Inp(ProcessorBase):
    name = 'inp'

    async def process(self, x: int, label: str) -> dict:
        return dict(x=x, label=label)


class Plus1(ProcessorBase):
    name = 'plus1'

    async def process(self, i: Input(Inp)) -> int:
        return i['x'] + 1


class Plus100(ProcessorBase):
    name = 'plus100'

    async def process(self, i: Input(Inp)) -> int:
        return i['x'] + 100


class Decider(ProcessorBase):
    name = 'decider'

    async def process(self, i: Input(Inp)) -> str:
        return i['label']


class OutA(ProcessorBase):
    name = 'out_a'

    async def process(
        self, v: SwitchCase(name='sa', switch=Decider, cases=[('a', Plus1), ('b', Plus1), ('c', Plus100)]),
    ) -> int:
        return v


class OutB(ProcessorBase):
    name = 'out_b'

    async def process(
        self, v: SwitchCase(name='sb', switch=Decider, cases=[('self', Decider), ('c', Plus100)]),
    ) -> object:
        return v


bad = False
dag = build_dag(Inp, OutA)
dump(dag)
labels = sorted(d['case_branch'] for _, _, d in dag.graph.in_edges('switch__sa', data=True) if 'case_branch' in d)
print(f"a) expected case labels ['a', 'b', 'c']; got {labels}")
r = run(dag, x=1, label='a')
print(f"   label 'a': expected 2; got value={r.value!r} error={r.error!r}")
if labels != ['a', 'b', 'c'] or r.value != 2:
    bad = True

dag = build_dag(Inp, OutB)
dump(dag)
r = run(dag, timeout=5, x=1, label='self')
print(f"b) label 'self': expected 'self' (the result of Decider); got value={r.value!r} error={r.error!r}")
if r.value != 'self':
    bad = True

print('DEFECT SHOWN' if bad else 'no defect')
sys.exit(1 if bad else 0)
