"""
Defect 2: build_node() throws away every dependency mark that the generic base class declares itself.

A generic node may mix a re-definable dependency (InputGeneric / GenericInput) with ordinary, concrete marks
(Input, SwitchCase, InputOneOf ...). build_node() replaces `process` with a `(*args, **kwargs)` wrapper whose
__annotations__ are only {'args', 'kwargs', 'return'} + the target_dependencies. The marks of the base method are not
copied, so build_dag (which reads process.__annotations__) sees only the overridden parameters: the concrete
Input(...) of the base is dropped from the DAG (no edge, the source node is not even part of the graph) and the node
body is later called without that argument. For the same reason a generic parameter that was NOT overridden is not
reported (NonRedefinedGenericTypeError is never raised for a build_node() class): the node silently gets the
"declares no marks" treatment and an implicit link from the input node.
"""
import sys

sys.path.insert(0, '_hunt')
from common import dump, run  # noqa: E402

from ml_pipeline_engine.dag_builders.annotation import build_dag  # noqa: E402
from ml_pipeline_engine.dag_builders.annotation import errors  # noqa: E402
from ml_pipeline_engine.dag_builders.annotation.marks import Input, InputGeneric  # noqa: E402
from ml_pipeline_engine.node import ProcessorBase, build_node  # noqa: E402
from ml_pipeline_engine.types import NodeBase  # noqa: E402


class Inp(ProcessorBase):
    name = 'inp'

    async def process(self, x: int) -> int:
        return x


class Scale(ProcessorBase):
    name = 'scale'

    async def process(self, i: Input(Inp)) -> int:
        return i * 10


class Feat(ProcessorBase):
    name = 'feat'

    async def process(self, i: Input(Inp)) -> int:
        return i + 1


class GenericVectorizer(ProcessorBase):
    name = 'generic_vectorizer'

    # one re-definable dependency, one ordinary dependency shared by all specialisations
    async def process(self, v: InputGeneric(NodeBase), scale: Input(Scale)) -> int:
        return v * scale


Vec = build_node(GenericVectorizer, node_name='vec', v=Input(Feat))
VecNotRedefined = build_node(GenericVectorizer, node_name='vec_not_redefined')


class Out(ProcessorBase):
    name = 'out'

    async def process(self, vec: Input(Vec)) -> int:
        return vec


class Out2(ProcessorBase):
    name = 'out2'

    async def process(self, vec: Input(VecNotRedefined)) -> int:
        return vec


bad = False
dag = build_dag(Inp, Out)
print('--- build_dag(Inp, Out); Vec = build_node(GenericVectorizer, v=Input(Feat)); base declares scale: Input(Scale)')
dump(dag)
edge = dag.graph.edges.get(('processor__scale', 'processor__vec'))
print("  expected an edge processor__scale -> processor__vec with kwarg_name 'scale'; got", edge)
r = run(dag, x=2)
print(f'  expected result (2 + 1) * 20 = 60; got {r.value!r} error={r.error!r}')
if edge is None or r.value != 60:
    bad = True

print('--- build_dag(Inp, Out2); the generic parameter v is not re-defined')
try:
    dag = build_dag(Inp, Out2)
except errors.NonRedefinedGenericTypeError as ex:
    print('  NonRedefinedGenericTypeError raised as expected:', ex)
else:
    dump(dag)
    print('  expected NonRedefinedGenericTypeError (as for a hand written class); got a DAG in which the node has no '
          'dependency at all and an implicit link from the input node')
    bad = True

print('DEFECT SHOWN' if bad else 'no defect')
sys.exit(1 if bad else 0)
