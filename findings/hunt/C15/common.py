import asyncio
import logging
import os
import sys

sys.path.insert(0, os.getcwd())
logging.disable(logging.CRITICAL)

from ml_pipeline_engine.chart import PipelineChart  # noqa: E402
from ml_pipeline_engine.parallelism import threads_pool_registry  # noqa: E402

threads_pool_registry.auto_init()


def dump(dag):
    print('  nodes   :', sorted(dag.graph.nodes))
    for u, v, d in sorted(dag.graph.edges(data=True), key=lambda e: (e[1], e[0])):
        print('  edge    :', u, '->', v, {str(getattr(k, 'value', k)): val for k, val in d.items()})
    print('  node_map:', {k: v.__qualname__ for k, v in sorted(dag.node_map.items())})


def run(dag, timeout=10, **input_kwargs):
    async def _run():
        return await asyncio.wait_for(PipelineChart('m', dag).run(input_kwargs=input_kwargs), timeout)
    try:
        return asyncio.run(_run())
    except asyncio.TimeoutError:
        import types
        return types.SimpleNamespace(value=None, error=f'HANG: the run did not finish within {timeout}s')
