"""
Defect 4: every declared dependency is silently dropped when the declaring module uses postponed evaluation of
annotations (PEP 563, `from __future__ import annotations`).

AnnotationDAGBuilder._get_input_marks_map() iterates the raw `process.__annotations__` and keeps only values that are
mark INSTANCES. Under PEP 563 the raw values are strings ('Input(Feat)'), so no mark is recognised; the node is treated
as a node "that declares no marks": all its parameters are dropped, the declared source nodes are not part of the
graph, and the node gets the implicit input -> node link instead. _check_annotations() is satisfied (the parameters
ARE annotated) so nothing is reported at build time; the run fails with a TypeError about missing arguments (or, for
parameters with defaults, silently computes from the defaults).
"""
from __future__ import annotations

import sys

sys.path.insert(0, '_hunt')
from common import dump, run  # noqa: E402

from ml_pipeline_engine.dag_builders.annotation import build_dag  # noqa: E402
from ml_pipeline_engine.dag_builders.annotation.marks import Input  # noqa: E402
from ml_pipeline_engine.node import ProcessorBase  # noqa: E402


class Inp(ProcessorBase):
    name = 'inp'

    async def process(self, x: int) -> int:
        return x


class Feat(ProcessorBase):
    name = 'feat'

    async def process(self, i: Input(Inp)) -> int:
        return i + 1


class Out(ProcessorBase):
    name = 'out'

    async def process(self, f: Input(Feat)) -> int:
        return f


class OutAllDefaults(ProcessorBase):
    name = 'out_all_defaults'

    async def process(self, f: Input(Feat) = -1) -> int:
        return f


bad = False
print('raw annotations of Out.process:', Out.process.__annotations__)
dag = build_dag(Inp, Out)
dump(dag)
edge = dag.graph.edges.get(('processor__feat', 'processor__out'))
print("expected nodes inp, feat, out and an edge feat -> out delivering to 'f'; got edge:", edge,
      '| feat in graph:', 'processor__feat' in dag.graph)
if edge is None:
    bad = True
r = run(dag, x=1)
print(f'expected a build-time error or a run result; got value={r.value!r} error={r.error!r}')

dag = build_dag(Inp, OutAllDefaults)
r = run(dag, x=1)
print(f'OutAllDefaults: expected result 2 (Feat = x + 1); got value={r.value!r} error={r.error!r}')
if r.value != 2:
    bad = True

print('DEFECT SHOWN' if bad else 'no defect')
sys.exit(1 if bad else 0)
