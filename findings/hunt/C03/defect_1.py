"""
Defect 1: a failing one-of candidate cancels an in-flight node that other scopes also need.
The node stays "processed" without a result, it is never executed again:
  (a) a second requester that was already waiting for it publishes None as its result, so consumers are
      invoked with a None placeholder;
  (b) the fallback candidate of the same one-of that needs the node waits forever (hang).

Shape
    Inp ─┬─ Bad ── AfterBad ─┐
         └─ Feat (slow) ─────┴─ Model          (candidate 1 of one-of #1)
            Feat ── Fallback                   (candidate 2 of one-of #1)
            Feat ── Aux                        (candidate 1 of one-of #2), AuxFallback (candidate 2)
    Out(pred = InputOneOf([Model, Fallback]), aux = InputOneOf([Aux, AuxFallback]))      variant (a)
    Out(pred = InputOneOf([Model, Fallback]))                                            variant (b)

Bad raises while Feat is still running.
"""
import asyncio
import logging
import os
import sys

sys.path.insert(0, os.path.dirname(os.path.dirname(os.path.abspath(__file__))))
logging.getLogger('pipeline_engine').setLevel(logging.CRITICAL)

from ml_pipeline_engine.chart import PipelineChart  # noqa: E402
from ml_pipeline_engine.dag_builders.annotation import build_dag  # noqa: E402
from ml_pipeline_engine.dag_builders.annotation.marks import Input  # noqa: E402
from ml_pipeline_engine.dag_builders.annotation.marks import InputOneOf  # noqa: E402
from ml_pipeline_engine.node import ProcessorBase  # noqa: E402

CALLS = []
FEAT_STATE = {'started': 0, 'finished': 0, 'cancelled': 0}


class Inp(ProcessorBase):
    async def process(self, x: int) -> int:
        return x


class Bad(ProcessorBase):
    async def process(self, x: Input(Inp)) -> int:
        await asyncio.sleep(0.05)  # Feat is already running
        raise ValueError('Bad failed')


class AfterBad(ProcessorBase):
    async def process(self, b: Input(Bad)) -> int:
        return b


class Feat(ProcessorBase):
    async def process(self, x: Input(Inp)) -> dict:
        FEAT_STATE['started'] += 1
        try:
            await asyncio.sleep(0.3)
        except asyncio.CancelledError:
            FEAT_STATE['cancelled'] += 1
            raise
        FEAT_STATE['finished'] += 1
        return {'feat': x}


class Model(ProcessorBase):
    async def process(self, a: Input(AfterBad), f: Input(Feat)) -> str:
        return 'model'


class Fallback(ProcessorBase):
    async def process(self, f: Input(Feat)) -> str:
        CALLS.append(('Fallback', f))
        return 'fallback'


class Aux(ProcessorBase):
    async def process(self, f: Input(Feat)) -> str:
        CALLS.append(('Aux', f))
        return 'aux(%r)' % (f,)


class AuxFallback(ProcessorBase):
    async def process(self, x: Input(Inp)) -> str:
        return 'aux-fallback'


class OutA(ProcessorBase):
    async def process(self, pred: InputOneOf([Model, Fallback]), aux: InputOneOf([Aux, AuxFallback])) -> tuple:
        CALLS.append(('OutA', pred, aux))
        return pred, aux


class OutB(ProcessorBase):
    async def process(self, pred: InputOneOf([Model, Fallback])) -> str:
        CALLS.append(('OutB', pred))
        return pred


async def run(out: type, expected: object) -> bool:
    CALLS.clear()
    FEAT_STATE.update(started=0, finished=0, cancelled=0)
    chart = PipelineChart('m', build_dag(input_node=Inp, output_node=out))
    print('--- output node %s' % out.__name__)
    print('expected: Feat runs to completion exactly once and every consumer of Feat receives {"feat": 1}; '
          'result %r' % (expected,))
    try:
        res = await asyncio.wait_for(chart.run(input_kwargs=dict(x=1)), 3)
    except asyncio.TimeoutError:
        print('observed: HANG (timeout 3s); Feat state %s; invocations %s' % (FEAT_STATE, CALLS))
        return True

    print('observed: value=%r error=%r' % (res.value, res.error))
    print('          Feat state:', FEAT_STATE)
    print('          invocations:', CALLS)
    return res.error is not None or res.value != expected or bool(FEAT_STATE['cancelled'])


async def main() -> int:
    bad_a = await run(OutA, ('fallback', "aux({'feat': 1})"))
    bad_b = await run(OutB, 'fallback')
    print('DEFECT' if (bad_a or bad_b) else 'ok')
    return 1 if (bad_a or bad_b) else 0


if __name__ == '__main__':
    sys.exit(asyncio.run(main()))
