"""
Defect 3: the keyword arguments of a node travel through engine functions that have keyword parameters of
their own (node_id, force_default, node).  A node parameter / an input_kwargs key with one of these names
collides with them: the body is never invoked with the declared arguments, the run fails with TypeError.

Shapes
    (a) Inp(node_id: int)                     chart.run(input_kwargs={'node_id': 7})
    (b) Inp(x) ── A ── Out(node: Input(A))
    (c) Inp(x) ── A ── Out(force_default: Input(A))
"""
import asyncio
import logging
import os
import sys

sys.path.insert(0, os.path.dirname(os.path.dirname(os.path.abspath(__file__))))
logging.getLogger('pipeline_engine').setLevel(logging.CRITICAL)

from ml_pipeline_engine.chart import PipelineChart  # noqa: E402
from ml_pipeline_engine.dag_builders.annotation import build_dag  # noqa: E402
from ml_pipeline_engine.dag_builders.annotation import build_dag_single  # noqa: E402
from ml_pipeline_engine.dag_builders.annotation.marks import Input  # noqa: E402
from ml_pipeline_engine.node import ProcessorBase  # noqa: E402


class InpNodeId(ProcessorBase):
    async def process(self, node_id: int) -> int:
        return node_id * 2


class Inp(ProcessorBase):
    async def process(self, x: int) -> int:
        return x


class A(ProcessorBase):
    async def process(self, x: Input(Inp)) -> int:
        return x + 1


class OutNode(ProcessorBase):
    async def process(self, node: Input(A)) -> int:
        return node * 10


class OutForceDefault(ProcessorBase):
    async def process(self, force_default: Input(A)) -> int:
        return force_default * 10


class OutPlain(ProcessorBase):
    async def process(self, value: Input(A)) -> int:
        return value * 10


async def run(title: str, dag: object, input_kwargs: dict, expected: object) -> bool:
    res = await asyncio.wait_for(PipelineChart('m', dag).run(input_kwargs=input_kwargs), 3)
    print('%s\n    expected value=%r error=None\n    observed value=%r error=%r' % (title, expected, res.value, res.error))
    return res.error is not None or res.value != expected


async def main() -> int:
    bad = [
        await run('control: Out(value: Input(A))', build_dag(input_node=Inp, output_node=OutPlain), dict(x=1), 20),
        await run('(a) input node with parameter "node_id", input_kwargs={"node_id": 7}',
                  build_dag_single(InpNodeId), dict(node_id=7), 14),
        await run('(b) Out(node: Input(A))', build_dag(input_node=Inp, output_node=OutNode), dict(x=1), 20),
        await run('(c) Out(force_default: Input(A))', build_dag(input_node=Inp, output_node=OutForceDefault),
                  dict(x=1), 20),
    ]
    print('DEFECT' if any(bad) else 'ok')
    return 1 if any(bad) else 0


if __name__ == '__main__':
    sys.exit(asyncio.run(main()))
