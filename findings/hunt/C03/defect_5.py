"""
Defect 5: the additional_data of a recurrent subgraph is never cleared when the subgraph has finished.  When the
subgraph is executed again from scratch (it is nested in an outer recurrent subgraph that re-iterates), its start
node is invoked with the additional_data left over by the superseded outer iteration instead of a fresh start.

Shape
    OStart(additional_data) ── IStart(additional_data) ── IDest ── ODest
    ODest(i = RecurrentSubGraph(IStart, IDest, 2))      inner subgraph, IDest asks for one re-iteration ('i1')
    Out(d = RecurrentSubGraph(OStart, ODest, 2))        outer subgraph, ODest asks for one re-iteration ('o1')
"""
import asyncio
import logging
import os
import sys
import typing as t

sys.path.insert(0, os.path.dirname(os.path.dirname(os.path.abspath(__file__))))
logging.getLogger('pipeline_engine').setLevel(logging.CRITICAL)

from ml_pipeline_engine.chart import PipelineChart  # noqa: E402
from ml_pipeline_engine.dag_builders.annotation import build_dag  # noqa: E402
from ml_pipeline_engine.dag_builders.annotation.marks import Input  # noqa: E402
from ml_pipeline_engine.dag_builders.annotation.marks import RecurrentSubGraph  # noqa: E402
from ml_pipeline_engine.node import ProcessorBase  # noqa: E402
from ml_pipeline_engine.node import RecurrentProcessor  # noqa: E402

CALLS = []


class OStart(RecurrentProcessor):
    async def process(self, x: int, additional_data: t.Optional[str] = None) -> str:
        return additional_data or 'o0'


class IStart(RecurrentProcessor):
    async def process(self, o: Input(OStart), additional_data: t.Optional[str] = None) -> str:
        CALLS.append(('IStart', o, additional_data))
        return '%s/%s' % (o, additional_data or 'i0')


class IDest(RecurrentProcessor):
    async def process(self, s: Input(IStart)) -> t.Any:
        if s.endswith('i0'):
            return self.next_iteration('i1')
        return 'idest(%s)' % s


class ODest(RecurrentProcessor):
    async def process(self, i: RecurrentSubGraph(IStart, IDest, 2)) -> t.Any:
        if i.startswith('idest(o0'):
            return self.next_iteration('o1')
        return 'odest(%s)' % i


class Out(ProcessorBase):
    async def process(self, d: RecurrentSubGraph(OStart, ODest, 2)) -> str:
        return d


async def main() -> int:
    chart = PipelineChart('m', build_dag(input_node=OStart, output_node=Out))
    expected = [
        ('IStart', 'o0', None), ('IStart', 'o0', 'i1'),   # outer iteration 0: fresh start, then one re-iteration
        ('IStart', 'o1', None), ('IStart', 'o1', 'i1'),   # outer iteration 1: the same again
    ]
    print('expected invocations of IStart (o, additional_data): %s' % expected)
    try:
        res = await asyncio.wait_for(chart.run(input_kwargs=dict(x=1)), 3)
    except asyncio.TimeoutError:
        print('observed: HANG', CALLS)
        return 1
    print('observed invocations of IStart (o, additional_data): %s' % CALLS)
    print('          value=%r error=%r' % (res.value, res.error))
    bad = res.error is not None or CALLS != expected
    print('DEFECT' if bad else 'ok')
    return 1 if bad else 0


if __name__ == '__main__':
    sys.exit(asyncio.run(main()))
