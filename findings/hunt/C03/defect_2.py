"""
Defect 2: the failure of a node that is first requested from a one-of candidate is stored as the node's
*result* (the exception object).  The store is shared by all scopes, so a consumer outside of the one-of that
declares the same node as a plain Input is started with the exception object as its argument and the run "succeeds".

Shape
    Inp ─┬─ P ── X (raises) ─┬─ Model                 (candidate 1)
         │                   └───────────────┐
         ├─ Fallback                         │        (candidate 2)
         └─ Slow ── T ─────────────────────┐ │
    Out(pred = InputOneOf([Model, Fallback]), t = Input(T), x = Input(X))

The scheduler loop of a scope starts its nodes strictly in topological order (Inp, one-of, Slow, P, T, X, Out for
the main scope), so the main scope is still blocked on T (Slow is running) when P finishes and X is first
started by the candidate scope of Model.  (Without Slow/T the same happens whenever P completes without
suspending; if the main scope wins the race the run correctly ends with ValueError.)
"""
import asyncio
import logging
import os
import sys

sys.path.insert(0, os.path.dirname(os.path.dirname(os.path.abspath(__file__))))
logging.getLogger('pipeline_engine').setLevel(logging.CRITICAL)

from ml_pipeline_engine.chart import PipelineChart  # noqa: E402
from ml_pipeline_engine.dag_builders.annotation import build_dag  # noqa: E402
from ml_pipeline_engine.dag_builders.annotation.marks import Input  # noqa: E402
from ml_pipeline_engine.dag_builders.annotation.marks import InputOneOf  # noqa: E402
from ml_pipeline_engine.node import ProcessorBase  # noqa: E402

CALLS = []


class Inp(ProcessorBase):
    async def process(self, x: int) -> int:
        return x


class Slow(ProcessorBase):
    async def process(self, x: Input(Inp)) -> int:
        await asyncio.sleep(0.2)
        return x


class T(ProcessorBase):
    async def process(self, s: Input(Slow)) -> int:
        return s


class P(ProcessorBase):
    async def process(self, x: Input(Inp)) -> int:
        await asyncio.sleep(0.02)
        return x


class X(ProcessorBase):
    async def process(self, p: Input(P)) -> int:
        raise ValueError('X failed')


class Model(ProcessorBase):
    async def process(self, x: Input(X)) -> str:
        return 'model'


class Fallback(ProcessorBase):
    async def process(self, x: Input(Inp)) -> str:
        return 'fallback'


class Out(ProcessorBase):
    async def process(self, pred: InputOneOf([Model, Fallback]), x: Input(X), t: Input(T)) -> tuple:
        CALLS.append(('Out', pred, t, x))
        return pred, t, x


async def main() -> int:
    dag = build_dag(input_node=Inp, output_node=Out)
    chart = PipelineChart('m', dag)
    print('expected: Out is never invoked (its input X failed), the run ends with error ValueError("X failed")')
    try:
        res = await asyncio.wait_for(chart.run(input_kwargs=dict(x=1)), 3)
    except asyncio.TimeoutError:
        print('observed: HANG', CALLS)
        return 1

    print('observed: value=%r error=%r' % (res.value, res.error))
    print('          invocations:', CALLS)
    bad = bool(CALLS) or res.error is None
    print('DEFECT' if bad else 'ok')
    return 1 if bad else 0


if __name__ == '__main__':
    sys.exit(asyncio.run(main()))
