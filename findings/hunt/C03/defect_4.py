"""
Defect 4: a consumer outside of a recurrent subgraph that takes an intermediate node of the subgraph as a plain
Input is started with the value of a superseded iteration; which iteration it sees depends on the completion
order of its other inputs.

Shape
    Start(additional_data) ── Mid ── Dest      recurrent subgraph Start --> Dest (Dest asks for 2 re-iterations)
                               └──── W(m = Input(Mid), s = Input(Side))        Side depends on the input only
    Out(w = Input(W), d = RecurrentSubGraph(Start, Dest, 3))

Mid returns 'mid-0', 'mid-1', 'mid-2' in iterations 0, 1, 2; the final value is 'mid-2' and Out gets Dest computed
from 'mid-2'.
"""
import asyncio
import logging
import os
import sys
import typing as t

sys.path.insert(0, os.path.dirname(os.path.dirname(os.path.abspath(__file__))))
logging.getLogger('pipeline_engine').setLevel(logging.CRITICAL)

from ml_pipeline_engine.chart import PipelineChart  # noqa: E402
from ml_pipeline_engine.dag_builders.annotation import build_dag  # noqa: E402
from ml_pipeline_engine.dag_builders.annotation.marks import Input  # noqa: E402
from ml_pipeline_engine.dag_builders.annotation.marks import RecurrentSubGraph  # noqa: E402
from ml_pipeline_engine.node import ProcessorBase  # noqa: E402
from ml_pipeline_engine.node import RecurrentProcessor  # noqa: E402

CALLS = []
RELEASE_SIDE_AT = 0  # Side finishes while this iteration of Mid is running
SIDE_EVENT: t.Optional[asyncio.Event] = None


class Start(RecurrentProcessor):
    async def process(self, x: int, additional_data: t.Optional[int] = None) -> int:
        return 0 if additional_data is None else additional_data


class Mid(RecurrentProcessor):
    async def process(self, it: Input(Start)) -> str:
        if it == RELEASE_SIDE_AT:
            SIDE_EVENT.set()
        await asyncio.sleep(0.02)
        return 'mid-%d' % it


class Dest(RecurrentProcessor):
    async def process(self, m: Input(Mid)) -> t.Any:
        if m != 'mid-2':
            return self.next_iteration(int(m[-1]) + 1)
        return 'dest(%s)' % m


class Side(ProcessorBase):
    async def process(self, x: Input(Start)) -> str:
        await SIDE_EVENT.wait()
        return 'side'


class W(ProcessorBase):
    async def process(self, m: Input(Mid), s: Input(Side)) -> str:
        CALLS.append(('W', m, s))
        return 'w(%s)' % m


class Out(ProcessorBase):
    async def process(self, w: Input(W), d: RecurrentSubGraph(Start, Dest, 3)) -> tuple:
        CALLS.append(('Out', w, d))
        return w, d


async def run(release_side_at: int) -> bool:
    global RELEASE_SIDE_AT, SIDE_EVENT
    RELEASE_SIDE_AT = release_side_at
    SIDE_EVENT = asyncio.Event()
    CALLS.clear()
    chart = PipelineChart('m', build_dag(input_node=Start, output_node=Out))
    expected = ('w(mid-2)', 'dest(mid-2)')
    print('--- Side finishes while iteration %d of Mid is running' % release_side_at)
    print('expected: W is invoked with m="mid-2" (the final value of Mid); result %r' % (expected,))
    try:
        res = await asyncio.wait_for(chart.run(input_kwargs=dict(x=1)), 3)
    except asyncio.TimeoutError:
        print('observed: HANG', CALLS)
        return True
    print('observed: value=%r error=%r' % (res.value, res.error))
    print('          invocations:', CALLS)
    return res.error is not None or res.value != expected


async def main() -> int:
    bad = [await run(0), await run(1), await run(2)]
    print('DEFECT' if any(bad) else 'ok')
    return 1 if any(bad) else 0


if __name__ == '__main__':
    sys.exit(asyncio.run(main()))
