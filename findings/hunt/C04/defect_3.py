"""
Defect 3: a node that is a switch case AND a plain dependency of the main pipeline dead-locks the scheduler
when it lies deeper in the graph than the switch.

Shape
    Inp -> Decide                       (switch decider, returns 'a')
    Inp -> Mid -> Mid2 -> Shared        (Shared is case 'a' of the switch)
    Inp -> Other                        (case 'b')
    UsesShared <- Shared                (plain consumer of Shared in the main pipeline)
    Out <- SwitchCase(Decide, [('a', Shared), ('b', Other)]), Input(UsesShared)

No failures, no timing: the very first run never finishes. The same happens when the shared case is the
NON-selected one (Decide returning 'b').
"""
import os
import sys

sys.path.insert(0, os.getcwd())

import asyncio
import collections
import logging

logging.disable(logging.CRITICAL)

from ml_pipeline_engine.chart import PipelineChart
from ml_pipeline_engine.dag_builders.annotation import build_dag
from ml_pipeline_engine.dag_builders.annotation.marks import Input
from ml_pipeline_engine.dag_builders.annotation.marks import SwitchCase
from ml_pipeline_engine.node import ProcessorBase


def build(label: str, tag: str) -> tuple:
    calls = collections.Counter()

    class Inp(ProcessorBase):
        name = f'd3{tag}_inp'

        async def process(self, x: int) -> int:
            calls['inp'] += 1
            return x

    class Decide(ProcessorBase):
        name = f'd3{tag}_decide'

        async def process(self, i: Input(Inp)) -> str:
            calls['decide'] += 1
            return label

    class Mid(ProcessorBase):
        name = f'd3{tag}_mid'

        async def process(self, i: Input(Inp)) -> int:
            calls['mid'] += 1
            return i + 1

    class Mid2(ProcessorBase):
        name = f'd3{tag}_mid2'

        async def process(self, m: Input(Mid)) -> int:
            calls['mid2'] += 1
            return m

    class Shared(ProcessorBase):
        name = f'd3{tag}_shared'

        async def process(self, m: Input(Mid2)) -> int:
            calls['shared'] += 1
            return m * 10

    class Other(ProcessorBase):
        name = f'd3{tag}_other'

        async def process(self, i: Input(Inp)) -> int:
            calls['other'] += 1
            return -1

    class UsesShared(ProcessorBase):
        name = f'd3{tag}_uses_shared'

        async def process(self, s: Input(Shared)) -> int:
            calls['uses_shared'] += 1
            return s + 1

    class Out(ProcessorBase):
        name = f'd3{tag}_out'

        async def process(
            self,
            v: SwitchCase(name=f'd3{tag}_sw', switch=Decide, cases=[('a', Shared), ('b', Other)]),
            u: Input(UsesShared),
        ) -> tuple:
            calls['out'] += 1
            return v, u

    return PipelineChart(f'd3{tag}', build_dag(input_node=Inp, output_node=Out)), calls


async def main() -> int:
    failed = False

    for label, expected in (('a', (20, 21)), ('b', (-1, 21))):
        chart, calls = build(label, label)

        try:
            res = await asyncio.wait_for(chart.run(input_kwargs=dict(x=1)), 3)
            got = f'value={res.value!r} error={res.error!r}'
        except asyncio.TimeoutError:
            got = 'HANG (no result after 3 seconds)'

        print(f'selected case {label!r} expected: value={expected!r} error=None, Shared executed exactly once')
        print(f'selected case {label!r} happened: {got}, executions={dict(calls)}')

        if got != f'value={expected!r} error=None' or calls['shared'] != 1:
            print('DEFECT: the switch waits for the shared case node which the same scheduling loop would start later')
            failed = True

    return 1 if failed else 0


sys.exit(asyncio.run(main()))
