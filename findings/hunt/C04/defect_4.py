"""
Defect 4: a node requested by two scopes is executed once but PUBLISHED twice - every requester stores the
result and saves it to the artifact store. With the write-once FileSystemArtifactStore of the library the
second save raises ArtifactFileAlreadyExists and a perfectly healthy, non-recurrent run fails.

Shape (no failures, no recurrent subgraph)
    Inp -> Q0 -> Q -> X
    Inp -> Decide ('a')
    CaseA <- X ; CaseB <- Inp
    N <- X                                  (plain consumer in the main pipeline)
    Out <- SwitchCase(Decide, [('a', CaseA), ('b', CaseB)]), Input(N)

X is shared between the main pipeline and the sub-pipeline of the selected switch case. The switch is
resolved while X is still waiting for Q, so both scopes have X in their work list.
"""
import os
import sys

sys.path.insert(0, os.getcwd())

import asyncio
import collections
import logging
import tempfile
import warnings

logging.disable(logging.CRITICAL)
warnings.simplefilter('ignore')

from ml_pipeline_engine.artifact_store.store.filesystem import FileSystemArtifactStore
from ml_pipeline_engine.chart import PipelineChart
from ml_pipeline_engine.dag_builders.annotation import build_dag
from ml_pipeline_engine.dag_builders.annotation.marks import Input
from ml_pipeline_engine.dag_builders.annotation.marks import SwitchCase
from ml_pipeline_engine.node import ProcessorBase

calls = collections.Counter()
saves = collections.Counter()
tmp_dir = tempfile.mkdtemp()


class Store(FileSystemArtifactStore):
    def __init__(self, ctx) -> None:  # noqa: ANN001
        super().__init__(ctx, artifact_dir=tmp_dir)

    async def save(self, node_id, data, **kwargs) -> None:  # noqa: ANN001, ANN003
        saves[node_id] += 1
        return await super().save(node_id, data, **kwargs)


class Inp(ProcessorBase):
    name = 'd4_inp'

    async def process(self, x: int) -> int:
        return x


class Q0(ProcessorBase):
    name = 'd4_q0'

    async def process(self, i: Input(Inp)) -> int:
        return 0


class Q(ProcessorBase):
    name = 'd4_q'

    async def process(self, i: Input(Q0)) -> int:
        await asyncio.sleep(0.05)
        return 7


class X(ProcessorBase):
    name = 'd4_x'

    async def process(self, i: Input(Q)) -> int:
        calls['x'] += 1
        return 100


class Decide(ProcessorBase):
    name = 'd4_decide'

    async def process(self, i: Input(Inp)) -> str:
        return 'a'


class CaseA(ProcessorBase):
    name = 'd4_case_a'

    async def process(self, x: Input(X)) -> int:
        return x + 1


class CaseB(ProcessorBase):
    name = 'd4_case_b'

    async def process(self, i: Input(Inp)) -> int:
        return 2


class N(ProcessorBase):
    name = 'd4_n'

    async def process(self, x: Input(X)) -> int:
        return x + 3


class Out(ProcessorBase):
    name = 'd4_out'

    async def process(
        self,
        v: SwitchCase(name='d4_sw', switch=Decide, cases=[('a', CaseA), ('b', CaseB)]),
        n: Input(N),
    ) -> tuple:
        return v, n


async def main() -> int:
    chart = PipelineChart('d4', build_dag(input_node=Inp, output_node=Out), artifact_store=Store)

    try:
        res = await asyncio.wait_for(chart.run(input_kwargs=dict(x=1)), 5)
    except asyncio.TimeoutError:
        print('UNEXPECTED: hang')
        return 1

    x_saves = saves['processor__d4_x']

    print('expected: value=(101, 103) error=None, X executed once and its single result saved once')
    print(f'happened: value={res.value!r} error={res.error!r}, X executed {calls["x"]} time(s), saved {x_saves} time(s)')

    if res.error is not None or x_saves != 1 or calls['x'] != 1:
        print('DEFECT: the second requester of X published/saved the result again')
        return 1

    print('ok')
    return 0


sys.exit(asyncio.run(main()))
