"""
Defect 1: a shared node whose FIRST requester is the sub-pipeline of a failing one-of candidate is cancelled
in the middle of its body, stays marked as "processed" and is never executed again. Every other scope that
needs the node either waits forever (scenario 1) or receives None instead of the node's result (scenario 2).

Scenario 1 (shared between two candidates of one one-of)
    Inp -> X (raises)        W1 <- Inp (slow, fine)
    W2 <- X
    A  <- W2, W1             candidate 1: fails because of X
    B  <- W1                 candidate 2: everything it needs is fine
    Out <- InputOneOf([A, B])

Scenario 2 (shared between a candidate and the main pipeline)
    Inp -> Q0 -> Q -> X (raises), Q -> W1 (slow, fine)
    W2 <- X ; A <- W2, W1 ; B <- Inp
    Out <- InputOneOf([A, B]), Input(W1)
"""
import os
import sys

sys.path.insert(0, os.getcwd())

import asyncio
import collections
import logging

logging.disable(logging.CRITICAL)

from ml_pipeline_engine.chart import PipelineChart
from ml_pipeline_engine.dag_builders.annotation import build_dag
from ml_pipeline_engine.dag_builders.annotation.marks import Input
from ml_pipeline_engine.dag_builders.annotation.marks import InputOneOf
from ml_pipeline_engine.node import ProcessorBase


def scenario_1() -> tuple:
    calls = collections.Counter()

    class Inp(ProcessorBase):
        name = 'd1s1_inp'

        async def process(self, x: int) -> int:
            return x

    class X(ProcessorBase):
        name = 'd1s1_x'

        async def process(self, i: Input(Inp)) -> int:
            raise ValueError('x failed')

    class W1(ProcessorBase):
        name = 'd1s1_w1'

        async def process(self, i: Input(Inp)) -> int:
            calls['w1 started'] += 1
            await asyncio.sleep(0.2)
            calls['w1 finished'] += 1
            return 10

    class W2(ProcessorBase):
        name = 'd1s1_w2'

        async def process(self, i: Input(X)) -> int:
            return 1

    class A(ProcessorBase):
        name = 'd1s1_a'

        async def process(self, w2: Input(W2), w1: Input(W1)) -> int:
            return w1 + w2

    class B(ProcessorBase):
        name = 'd1s1_b'

        async def process(self, w1: Input(W1)) -> tuple:
            calls['b'] += 1
            return 'b', w1

    class Out(ProcessorBase):
        name = 'd1s1_out'

        async def process(self, v: InputOneOf([A, B])) -> tuple:
            return v

    return PipelineChart('d1s1', build_dag(input_node=Inp, output_node=Out)), calls


def scenario_2() -> tuple:
    calls = collections.Counter()

    class Inp(ProcessorBase):
        name = 'd1s2_inp'

        async def process(self, x: int) -> int:
            return x

    class Q0(ProcessorBase):
        name = 'd1s2_q0'

        async def process(self, i: Input(Inp)) -> int:
            return 0

    class Q(ProcessorBase):
        name = 'd1s2_q'

        async def process(self, i: Input(Q0)) -> int:
            await asyncio.sleep(0.05)
            return 0

    class X(ProcessorBase):
        name = 'd1s2_x'

        async def process(self, i: Input(Q)) -> int:
            await asyncio.sleep(0.05)
            raise ValueError('x failed')

    class W1(ProcessorBase):
        name = 'd1s2_w1'

        async def process(self, i: Input(Q)) -> int:
            calls['w1 started'] += 1
            await asyncio.sleep(0.3)
            calls['w1 finished'] += 1
            return 10

    class W2(ProcessorBase):
        name = 'd1s2_w2'

        async def process(self, i: Input(X)) -> int:
            return 1

    class A(ProcessorBase):
        name = 'd1s2_a'

        async def process(self, w2: Input(W2), w1: Input(W1)) -> int:
            return w1 + w2

    class B(ProcessorBase):
        name = 'd1s2_b'

        async def process(self, i: Input(Inp)) -> int:
            return 2

    class Out(ProcessorBase):
        name = 'd1s2_out'

        async def process(self, v: InputOneOf([A, B]), w1: Input(W1)) -> tuple:
            return v, w1

    return PipelineChart('d1s2', build_dag(input_node=Inp, output_node=Out)), calls


async def run(chart: PipelineChart) -> str:
    try:
        res = await asyncio.wait_for(chart.run(input_kwargs=dict(x=1)), 3)
    except asyncio.TimeoutError:
        return 'HANG (no result after 3 seconds)'

    return f'value={res.value!r} error={res.error!r}'


async def main() -> int:
    failed = False

    chart, calls = scenario_1()
    got = await run(chart)
    print("scenario 1 expected: value=('b', 10) error=None, W1 started once and finished once")
    print(f'scenario 1 happened: {got}, {dict(calls)}')
    if got != "value=('b', 10) error=None" or calls['w1 finished'] != 1:
        print('DEFECT: W1 was cancelled with candidate A and never executed for candidate B')
        failed = True

    chart, calls = scenario_2()
    got = await run(chart)
    print('scenario 2 expected: value=(2, 10) error=None, W1 started once and finished once')
    print(f'scenario 2 happened: {got}, {dict(calls)}')
    if got != 'value=(2, 10) error=None' or calls['w1 finished'] != 1:
        print('DEFECT: the main-pipeline consumer of W1 observed None, the body of W1 was cancelled half-way')
        failed = True

    return 1 if failed else 0


sys.exit(asyncio.run(main()))
