import sys, os; sys.path.insert(0, os.getcwd())
import asyncio, collections, logging, random, traceback
if not os.environ.get("DBG"): logging.disable(logging.CRITICAL)
else: logging.basicConfig(level=logging.DEBUG)
from ml_pipeline_engine.chart import PipelineChart
from ml_pipeline_engine.dag_builders.annotation import build_dag
from ml_pipeline_engine.dag_builders.annotation.marks import Input, InputOneOf, SwitchCase
from ml_pipeline_engine.node import ProcessorBase

class Boom(Exception):
    pass

def gen(seed):
    rnd = random.Random(seed)
    n = rnd.randint(6, 14)
    spec = {}   # idx -> dict(params=[('plain', j) | ('switch', dec, [(label, j)...], chosen) | ('oneof', [j...])], fail, delay)
    exclusive = set()  # candidate nodes: cannot be used elsewhere
    used_as_other = set()
    for i in range(n):
        spec[i] = dict(params=[], fail=False, delay=rnd.choice([0, 0, 0.01, 0.05, 0.1]))
    # build from the top down: for node i choose deps among lower j
    for i in range(n - 1, 0, -1):
        lower = [j for j in range(0, i)]
        params = []
        avail = [j for j in lower if j not in exclusive]
        rnd.shuffle(avail)
        k = rnd.randint(1, min(2, len(avail))) if avail else 0
        used = set()
        for j in avail[:k]:
            params.append(('plain', j)); used.add(j); used_as_other.add(j)
        r = rnd.random()
        if r < float(os.environ.get("ONEOFP", "0.35")) and len(lower) >= 3:
            # oneof: candidates must be fresh (not used anywhere yet), not 0
            fresh = [j for j in lower if j != 0 and j not in exclusive and j not in used_as_other and j not in used]
            if len(fresh) >= 2:
                cands = rnd.sample(fresh, 2)
                for c in cands:
                    exclusive.add(c)
                params.append(('oneof', cands))
        elif r < 0.7 and len(lower) >= 3:
            av = [j for j in lower if j not in exclusive and j not in used]
            fresh = [j for j in lower if j != 0 and j not in exclusive and j not in used_as_other and j not in used]
            if len(av) >= 1 and len(fresh) >= 2 and os.environ.get('EXCL_CASE'):
                c1, c2 = rnd.sample(fresh, 2)
                avd = [j for j in av if j not in (c1, c2)]
                if avd:
                    dec = rnd.choice(avd)
                    exclusive.add(c1); exclusive.add(c2); used_as_other.add(dec)
                    params.append(('switch', dec, [('l1', c1), ('l2', c2)], rnd.choice(['l1', 'l2'])))
            elif len(av) >= 3 and not os.environ.get('EXCL_CASE'):
                ch = rnd.sample(av, 3)
                dec, c1, c2 = ch
                for c in ch:
                    used_as_other.add(c)
                params.append(('switch', dec, [('l1', c1), ('l2', c2)], rnd.choice(['l1', 'l2'])))
        spec[i]['params'] = params
        if i != n - 1 and rnd.random() < float(os.environ.get("FAILP", "0.25")):
            spec[i]['fail'] = True
    return n, spec

def reference(n, spec):
    memo = {}
    def ev(i):
        if i in memo:
            kind, v = memo[i]
            if kind == 'err':
                raise v
            return v
        try:
            args = []
            first_err = None
            label_of = {}
            for p in spec[i]['params']:
                try:
                    if p[0] == 'plain':
                        args.append(ev(p[1]))
                    elif p[0] == 'switch':
                        ev(p[1])
                        chosen = p[3]
                        node = dict(p[2])[chosen]
                        args.append(ev(node))
                    else:
                        for c in p[1]:
                            try:
                                args.append(ev(c)); break
                            except Boom:
                                continue
                        else:
                            raise Boom(f'oneof of {i}')
                except Boom as e:
                    first_err = first_err or e
            if first_err:
                raise first_err
            if spec[i]['fail']:
                raise Boom(f'n{i}')
            v = f'n{i}(' + ','.join(args) + ')'
            memo[i] = ('ok', v)
            return v
        except Boom as e:
            memo[i] = ('err', e)
            raise
    try:
        return ('ok', ev(n - 1))
    except Boom as e:
        return ('err', str(e))

def build(n, spec, seed, calls):
    classes = {}
    switch_label = {}
    for i in range(n):
        sp = spec[i]
        ann = {}
        order = []
        for pi, p in enumerate(sp['params']):
            if p[0] == 'plain':
                ann[f'p{pi}'] = Input(classes[p[1]])
            elif p[0] == 'switch':
                ann[f'p{pi}'] = SwitchCase(name=f'sw_{seed}_{i}', switch=classes[p[1]], cases=[(l, classes[j]) for l, j in p[2]])
                switch_label.setdefault(p[1], p[3])
            else:
                ann[f'p{pi}'] = InputOneOf([classes[j] for j in p[1]])
            order.append(f'p{pi}')
        def make(i=i, sp=sp, order=order):
            if i == 0:
                async def process(self, x: int):
                    calls[i] += 1
                    return 'n0()'
                return process
            async def process(self, **kwargs):
                calls[i] += 1
                if sp['delay']:
                    await asyncio.sleep(sp['delay'])
                if sp['fail']:
                    raise Boom(f'n{i}')
                return f'n{i}(' + ','.join(str(kwargs[k]) for k in order) + ')'
            process.__annotations__ = dict(ann)
            return process
        classes[i] = type(f'N{seed}_{i}', (ProcessorBase,), {'name': f'n{seed}_{i}', 'process': make()})
    return classes

class Label(str):
    pass

async def run_one(seed, verbose=False):
    n, spec = gen(seed)
    # deciders: value must equal label -> special: decider node returns a str subclass equal to label? keep simple:
    # a decider used in a switch returns label; its textual value is the label. adjust reference accordingly.
    deciders = {}
    for i in range(n):
        for p in spec[i]['params']:
            if p[0] == 'switch':
                if p[1] in deciders and deciders[p[1]] != p[3]:
                    # make consistent
                    pass
                deciders.setdefault(p[1], p[3])
    for i in range(n):
        spec[i]['params'] = [ (p[0], p[1], p[2], deciders[p[1]]) if p[0] == 'switch' else p for p in spec[i]['params']]
    calls = collections.Counter()
    classes = build(n, spec, seed, calls)
    # patch decider outputs: wrap process to return label object that prints like normal value
    for d, lab in deciders.items():
        cls = classes[d]
        orig = cls.process
        def mk(orig=orig, lab=lab):
            async def process(self, **kwargs):
                v = await orig(self, **kwargs)
                class L(str):
                    def __str__(s): return v
                    __repr__ = __str__
                return L(lab)
            process.__annotations__ = dict(orig.__annotations__)
            return process
        if d == 0:
            return None
        cls.process = mk()
    ref = reference(n, spec)
    try:
        dag = build_dag(input_node=classes[0], output_node=classes[n - 1])
    except Exception as e:
        return None
    chart = PipelineChart('m', dag)
    try:
        res = await asyncio.wait_for(chart.run(input_kwargs=dict(x=1)), 3)
        got = ('ok', str(res.value)) if res.error is None else ('err', repr(res.error))
    except asyncio.TimeoutError:
        got = ('hang', None)
    multi = {k: v for k, v in calls.items() if v > 1}
    bad = multi or got[0] != ref[0] or (got[0] == 'ok' and got[1] != ref[1])
    uses = collections.Counter()
    cases = set()
    for i in range(n):
        for p in spec[i]['params']:
            if p[0] == 'plain': uses[p[1]] += 1
            elif p[0] == 'switch':
                uses[p[1]] += 1
                for _, j in p[2]:
                    uses[j] += 1; cases.add(j)
            else:
                for j in p[1]: uses[j] += 1
    case_shared = any(uses[c] > 1 for c in cases)
    if bad or verbose:
        print('SEED', seed, 'case_shared' if case_shared else 'case_excl', 'ref', ref, 'got', got, 'multi', multi)
        if verbose or bad:
            for i in range(n):
                print('  ', i, spec[i])
    return bad

skipped=[0]
async def main():
    a, b = int(sys.argv[1]), int(sys.argv[2])
    nb = 0
    for seed in range(a, b):
        r = await run_one(seed, verbose=len(sys.argv) > 3)
        if r:
            nb += 1
        if r is None:
            skipped[0] += 1
    print('bad', nb, 'skipped', skipped[0])

asyncio.run(main())
