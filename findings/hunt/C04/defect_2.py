"""
Defect 2: a failure that was "contained" by a one-of scope leaks into the main scope as an ordinary value.

Shape
    Inp -> Q -> X (raises ValueError)
    A <- X            (candidate 1 of the one-of)
    B <- Inp          (candidate 2 of the one-of, fine)
    N <- X            (plain consumer in the MAIN pipeline)
    Out <- InputOneOf([A, B]), Input(N)

X is shared between the sub-pipeline of candidate A and the main pipeline. The main pipeline needs X
(through N), so the run must fail with X's ValueError. Which scope gets to X first is a pure scheduling
matter; here the one-of scope wins.
"""
import os
import sys

sys.path.insert(0, os.getcwd())

import asyncio
import collections
import logging

logging.disable(logging.CRITICAL)

from ml_pipeline_engine.chart import PipelineChart
from ml_pipeline_engine.dag_builders.annotation import build_dag
from ml_pipeline_engine.dag_builders.annotation.marks import Input
from ml_pipeline_engine.dag_builders.annotation.marks import InputOneOf
from ml_pipeline_engine.node import ProcessorBase

calls = collections.Counter()
seen = {}


class Inp(ProcessorBase):
    name = 'd2_inp'

    async def process(self, x: int) -> int:
        return x


class Q(ProcessorBase):
    name = 'd2_q'

    async def process(self, i: Input(Inp)) -> int:
        return 7


class X(ProcessorBase):
    name = 'd2_x'

    async def process(self, i: Input(Q)) -> int:
        calls['x'] += 1
        raise ValueError('x failed')


class A(ProcessorBase):
    name = 'd2_a'

    async def process(self, x: Input(X)) -> int:
        calls['a'] += 1
        return 1


class B(ProcessorBase):
    name = 'd2_b'

    async def process(self, i: Input(Inp)) -> int:
        calls['b'] += 1
        return 2


class N(ProcessorBase):
    name = 'd2_n'

    async def process(self, x: Input(X)) -> int:
        calls['n'] += 1
        seen['n.x'] = x
        return 3


class Out(ProcessorBase):
    name = 'd2_out'

    async def process(self, v: InputOneOf([A, B]), n: Input(N)) -> tuple:
        calls['out'] += 1
        return v, n


async def main() -> int:
    chart = PipelineChart('d2', build_dag(input_node=Inp, output_node=Out))

    try:
        res = await asyncio.wait_for(chart.run(input_kwargs=dict(x=1)), 5)
    except asyncio.TimeoutError:
        print('UNEXPECTED: hang')
        return 1

    print('expected: X executed once, the run fails with ValueError("x failed"), N is never executed')
    print(f'happened: value={res.value!r} error={res.error!r} executions={dict(calls)} N received x={seen.get("n.x")!r}')

    if calls['x'] > 1:
        print('DEFECT: X executed more than once')
        return 1

    if res.error is None or calls['n']:
        print('DEFECT: the main-pipeline consumer N was executed with the exception OBJECT of X as its input '
              'and the run finished successfully')
        return 1

    print('ok')
    return 0


sys.exit(asyncio.run(main()))
