"""
defect 3: a dependency that is not a class is registered (get_node_id / visited set) BEFORE it is validated.

The builder calls _add_node_to_map()/get_node_id() and _set_visited() on every node named by a mark (and on
the input node) and validates a node only later, when it is popped from the stack.  get_node_id() reads
node.__module__, _set_visited() hashes the node: a non-class value such as a string forward reference, None,
a number, a list (no __module__) or an unhashable instance crashes with AttributeError / TypeError instead
of errors.IncorrectTypeClass.  Only the output node (validated first) and values that happen to have
__module__ and a hash (functions, plain instances) get the specific error.
"""
import os
import sys

sys.path.insert(0, os.getcwd())

import dataclasses
import logging

from ml_pipeline_engine.dag_builders.annotation import build_dag
from ml_pipeline_engine.dag_builders.annotation import errors
from ml_pipeline_engine.dag_builders.annotation.marks import Input
from ml_pipeline_engine.dag_builders.annotation.marks import InputOneOf
from ml_pipeline_engine.dag_builders.annotation.marks import RecurrentSubGraph
from ml_pipeline_engine.dag_builders.annotation.marks import SwitchCase
from ml_pipeline_engine.node import ProcessorBase
from ml_pipeline_engine.node import RecurrentProcessor

logging.disable(logging.CRITICAL)


class Inp(ProcessorBase):
    name = 'inp'

    async def process(self, num: int, additional_data: int = 0) -> int:
        return num


class A(ProcessorBase):
    name = 'a'

    async def process(self, x: Input(Inp)) -> int:
        return x + 1


class Sw(ProcessorBase):
    name = 'sw'

    async def process(self, x: Input(Inp)) -> str:
        return 'a'


class Dest(RecurrentProcessor):
    name = 'dest'

    async def process(self, x: Input(A)) -> int:
        return x


@dataclasses.dataclass
class DataNode(ProcessorBase):     # eq=True -> instances are unhashable
    value: int = 0

    async def process(self, x: Input(Inp)) -> int:
        return x


def out_with(annotation):
    class Out(ProcessorBase):
        name = 'out'

        async def process(self, v: annotation) -> int:
            return v
    return Out


defect = False


def check(label, fn):
    global defect
    try:
        fn()
        print(f'  {label}: DEFECT: built')
        defect = True
    except errors.IncorrectTypeClass:
        print(f'  {label}: IncorrectTypeClass: ok')
    except Exception as ex:
        defect = True
        print(f'  {label}: DEFECT: {type(ex).__name__}: {ex}')


print('controls (expected and observed IncorrectTypeClass):')
check("output_node='A'", lambda: build_dag(Inp, 'A'))
check('Input(A())  (plain instance)', lambda: build_dag(Inp, out_with(Input(A()))))
check('Input(lambda: 1)', lambda: build_dag(Inp, out_with(Input(lambda: 1))))

print('expected IncorrectTypeClass for each of:')
check("Input('A')  (string forward reference)", lambda: build_dag(Inp, out_with(Input('A'))))
check('Input(None)', lambda: build_dag(Inp, out_with(Input(None))))
check('Input(5)', lambda: build_dag(Inp, out_with(Input(5))))
check("InputOneOf([A, 'B'])", lambda: build_dag(Inp, out_with(InputOneOf([A, 'B']))))
check("SwitchCase(Sw, [('a', A), ('b', None)])",
      lambda: build_dag(Inp, out_with(SwitchCase(Sw, [('a', A), ('b', None)], name='s'))))
check("SwitchCase('Sw', [('a', A)])", lambda: build_dag(Inp, out_with(SwitchCase('Sw', [('a', A)], name='s'))))
check("RecurrentSubGraph(start_node=Inp, dest_node='Dest')",
      lambda: build_dag(Inp, out_with(RecurrentSubGraph(start_node=Inp, dest_node='Dest', max_iterations=2))))
check("build_dag(input_node='Inp', output_node=A)", lambda: build_dag('Inp', A))
check('Input(DataNode())  (unhashable instance)', lambda: build_dag(Inp, out_with(Input(DataNode()))))

sys.exit(1 if defect else 0)
