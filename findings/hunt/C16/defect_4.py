"""
defect 4: the builder reads the raw __annotations__ of process(); string annotations are silently ignored.

In a module with `from __future__ import annotations` (or with a quoted annotation such as x: 'Input(A)')
the marks are strings.  _get_input_marks_map() skips everything that is not a mark instance and
_check_annotations() only looks at the keys, so
  * an ordinary chain Inp -> A -> Out builds into a DAG without any dependency edge (every node becomes a leaf
    hanging on the input node) which the engine cannot execute (TypeError: missing argument),
  * a never rebound generic input is not rejected (NonRedefinedGenericTypeError expected),
  * a recurrent destination without RecurrentProtocol / a start node without additional_data is not rejected.
Expected: either the annotations are resolved (typing.get_type_hints / inspect.get_annotations(eval_str=True))
and the usual checks apply, or the declaration is rejected at build time.  Observed: a DAG is returned.
"""
import os
import sys

sys.path.insert(0, os.getcwd())
sys.path.insert(0, os.path.dirname(os.path.abspath(__file__)))

import asyncio
import logging

import pep563_nodes as m

from ml_pipeline_engine.chart import PipelineChart
from ml_pipeline_engine.dag_builders.annotation import build_dag
from ml_pipeline_engine.dag_builders.annotation import errors
from ml_pipeline_engine.dag_builders.annotation.marks import Input
from ml_pipeline_engine.node import ProcessorBase

logging.disable(logging.CRITICAL)


def run(dag, **kw):
    async def go():
        return await asyncio.wait_for(PipelineChart('m', dag).run(input_kwargs=kw), 10)
    return asyncio.run(go())


defect = False


def check(label, out, expected_error, expected_value=None):
    global defect
    print(label)
    try:
        dag = build_dag(m.Inp, out)
    except errors.BaseBuilderError as ex:
        ok = expected_error is not None and isinstance(ex, expected_error)
        print(f'   build_dag raised {type(ex).__name__}:', 'ok' if ok else 'unexpected')
        defect |= not ok
        return
    res = run(dag, num=1)
    edges = sorted(dag.graph.edges)
    if expected_error is None and res.error is None and res.value == expected_value:
        print('   built and ran: ok', res.value)
        return
    defect = True
    want = expected_error.__name__ if expected_error else f'a DAG computing {expected_value} (or a build error)'
    print(f'   expected: {want}')
    print(f'   DEFECT: a DAG was returned, edges={edges}')
    print(f'           run -> value={res.value!r} error={res.error!r}')


check('valid chain Inp -> A -> Out declared under PEP 563', m.Out, None, expected_value=20)
check('never rebound generic input under PEP 563', m.OutGeneric, errors.NonRedefinedGenericTypeError)
check('recurrent destination without RecurrentProtocol under PEP 563', m.OutRecurrent,
      errors.IncorrectRecurrentMixinClass)


# the same without the __future__ import: one quoted annotation is enough
class Quoted(ProcessorBase):
    name = 'quoted'

    async def process(self, a: 'Input(m.A)') -> int:
        return a * 10


class UsesGeneric(ProcessorBase):   # normal module, depends on a generic node declared in the PEP 563 module
    name = 'uses_generic'

    async def process(self, g: Input(m.Generic)) -> int:
        return g


check('normal node -> Input(generic node of the PEP 563 module), generic input never rebound', UsesGeneric,
      errors.NonRedefinedGenericTypeError)

check("quoted annotation  a: 'Input(m.A)'  in a normal module", Quoted, None, expected_value=20)

sys.exit(1 if defect else 0)
