"""
defect 5 (minor): _check_annotations() decides by parameter NAME which parameters may stay un-annotated.

Parameters called self / args / kwargs are skipped whatever their kind, so an ordinary (required, positional
or keyword) parameter that is called `args` or `kwargs` (or `self` in a staticmethod) and has no annotation
is not rejected; the DAG is returned and fails at run time (missing argument).  The same parameter under
any other name is rejected with UndefinedParamAnnotation.
"""
import os
import sys

sys.path.insert(0, os.getcwd())

import asyncio
import logging

from ml_pipeline_engine.chart import PipelineChart
from ml_pipeline_engine.dag_builders.annotation import build_dag
from ml_pipeline_engine.dag_builders.annotation import errors
from ml_pipeline_engine.dag_builders.annotation.marks import Input
from ml_pipeline_engine.node import ProcessorBase

logging.disable(logging.CRITICAL)


class Inp(ProcessorBase):
    name = 'inp'

    async def process(self, num: int) -> int:
        return num


class Control(ProcessorBase):
    name = 'control'

    async def process(self, options, x: Input(Inp)) -> int:
        return x


class Kw(ProcessorBase):
    name = 'kw'

    async def process(self, kwargs, x: Input(Inp)) -> int:
        return x


class Ar(ProcessorBase):
    name = 'ar'

    async def process(self, x: Input(Inp), *, args) -> int:
        return x


class St(ProcessorBase):
    name = 'st'

    @staticmethod
    async def process(self, x: Input(Inp)) -> int:    # `self` is an ordinary required parameter here
        return x


def run(dag, **kw):
    async def go():
        return await asyncio.wait_for(PipelineChart('m', dag).run(input_kwargs=kw), 10)
    return asyncio.run(go())


defect = False
for node in (Control, Kw, Ar, St):
    try:
        dag = build_dag(Inp, node)
    except (errors.UndefinedParamAnnotation, errors.UndefinedAnnotation) as ex:
        print(f'{node.__name__}: {type(ex).__name__}: ok')
    else:
        defect = True
        res = run(dag, num=1)
        print(f'{node.__name__}: expected UndefinedParamAnnotation; DEFECT: a DAG was returned, run -> error={res.error!r}')

sys.exit(1 if defect else 0)
