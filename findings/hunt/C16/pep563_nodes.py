# helper module of defect_4.py: ordinary node declarations in a module that uses PEP 563
from __future__ import annotations

from ml_pipeline_engine.dag_builders.annotation.marks import Input
from ml_pipeline_engine.dag_builders.annotation.marks import InputGeneric
from ml_pipeline_engine.dag_builders.annotation.marks import RecurrentSubGraph
from ml_pipeline_engine.node import ProcessorBase
from ml_pipeline_engine.types import NodeBase


class Inp(ProcessorBase):
    name = 'inp'

    async def process(self, num: int) -> int:
        return num


class A(ProcessorBase):
    name = 'a'

    async def process(self, x: Input(Inp)) -> int:
        return x + 1


class Out(ProcessorBase):
    name = 'out'

    async def process(self, a: Input(A)) -> int:
        return a * 10


# single defect mutations -------------------------------------------------

class Generic(ProcessorBase):
    name = 'generic'

    async def process(self, x: InputGeneric(NodeBase)) -> int:
        return x


class OutGeneric(ProcessorBase):
    name = 'out_generic'

    async def process(self, g: Input(Generic)) -> int:
        return g


class NotRecurrentDest(ProcessorBase):       # no RecurrentProtocol
    name = 'not_recurrent_dest'

    async def process(self, a: Input(A)) -> int:
        return a


class OutRecurrent(ProcessorBase):
    name = 'out_recurrent'

    async def process(self, r: RecurrentSubGraph(start_node=Inp, dest_node=NotRecurrentDest, max_iterations=2)) -> int:
        return r
