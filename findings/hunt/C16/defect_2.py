"""
defect 2: build_dag_single(node) (and build_dag(node, None)) never validates the node.

AnnotationDAGBuilder.build() only calls validate_node()/_get_input_marks_map() from
_traverse_breadth_first_to_dag(), which is skipped when output_node is None.  A single-node declaration
without the node base, with an un-annotated parameter or with a never rebound generic input is returned
as a DAG; build_dag(node, node) rejects each of them with the specific error.
"""
import os
import sys

sys.path.insert(0, os.getcwd())

import asyncio
import logging

from ml_pipeline_engine.chart import PipelineChart
from ml_pipeline_engine.dag_builders.annotation import build_dag
from ml_pipeline_engine.dag_builders.annotation import build_dag_single
from ml_pipeline_engine.dag_builders.annotation import errors
from ml_pipeline_engine.dag_builders.annotation.marks import InputGeneric
from ml_pipeline_engine.node import ProcessorBase
from ml_pipeline_engine.types import NodeBase

logging.disable(logging.CRITICAL)


class NoBase:
    async def process(self, num: int) -> int:
        return num


class NoBaseSync:
    def process(self, num: int) -> int:
        return num


class UnAnnotated(ProcessorBase):
    async def process(self, num, other: int = 0) -> int:
        return num


class GenericNeverRebound(ProcessorBase):
    async def process(self, num: InputGeneric(NodeBase)) -> int:
        return num


def run(dag, **kw):
    async def go():
        return await asyncio.wait_for(PipelineChart('m', dag).run(input_kwargs=kw), 10)
    return asyncio.run(go())


defect = False
cases = (
    (NoBase, errors.IncorrectBaseClass),
    (NoBaseSync, errors.IncorrectBaseClass),
    (UnAnnotated, errors.UndefinedParamAnnotation),
    (GenericNeverRebound, errors.NonRedefinedGenericTypeError),
)

for node, expected in cases:
    try:
        build_dag(node, node)
        control = 'built'
    except Exception as ex:
        control = type(ex).__name__
    print(f'{node.__name__}: expected {expected.__name__} (build_dag(node, node) -> {control})')

    for label, builder in (
        ('build_dag_single(node)', lambda: build_dag_single(node)),
        ('build_dag(node, None) ', lambda: build_dag(node, None)),
    ):
        try:
            dag = builder()
        except expected:
            print(f'   {label}: {expected.__name__}: ok')
        except Exception as ex:
            defect = True
            print(f'   {label}: DEFECT: unspecific {type(ex).__name__}: {ex}')
        else:
            defect = True
            res = run(dag, num=1)
            print(f'   {label}: DEFECT: a DAG was returned; run -> value={res.value!r} error={res.error!r}')

sys.exit(1 if defect else 0)
