"""
defect 1: build_node() hides the signature / annotations of the generic node from the builder.

(a) a generic input that was never rebound is NOT rejected when the generic node went through build_node
    (the very same node used directly is rejected with NonRedefinedGenericTypeError); the DAG is returned
    and only fails at run time with TypeError (missing argument).
(b) a recurrent start node produced by build_node from a base whose process() HAS an annotated
    additional_data parameter is rejected with IncorrectParamsRecurrentNode although nothing is wrong
    (the same pipeline runs fine as soon as the builder is tricked with additional_data=<type> passed
    to build_node as a fake "dependency").
"""
import os
import sys

sys.path.insert(0, os.getcwd())

import asyncio
import logging
import typing as t

from ml_pipeline_engine.chart import PipelineChart
from ml_pipeline_engine.dag_builders.annotation import build_dag
from ml_pipeline_engine.dag_builders.annotation import errors
from ml_pipeline_engine.dag_builders.annotation.marks import Input
from ml_pipeline_engine.dag_builders.annotation.marks import InputGeneric
from ml_pipeline_engine.dag_builders.annotation.marks import RecurrentSubGraph
from ml_pipeline_engine.node import ProcessorBase
from ml_pipeline_engine.node import RecurrentProcessor
from ml_pipeline_engine.node import build_node
from ml_pipeline_engine.types import NodeBase

logging.disable(logging.CRITICAL)
defect = False


def run(dag, **kw):
    async def go():
        return await asyncio.wait_for(PipelineChart('m', dag).run(input_kwargs=kw), 10)
    return asyncio.run(go())


class Inp(ProcessorBase):
    name = 'inp'

    async def process(self, num: int) -> int:
        return num


class A(ProcessorBase):
    name = 'a'

    async def process(self, x: Input(Inp)) -> int:
        return x + 1


class Gen2(ProcessorBase):
    name = 'gen2'

    async def process(self, x: InputGeneric(NodeBase), y: InputGeneric(NodeBase)) -> int:
        return x + y


# ---------------------------------------------------------------- (a)
print('(a) generic node with two generic inputs, only one (or none) of them rebound by build_node')


class OutDirect(ProcessorBase):
    name = 'out_direct'

    async def process(self, v: Input(Gen2)) -> int:
        return v


try:
    build_dag(Inp, OutDirect)
    print('  control: generic node used directly: built (unexpected)')
except errors.NonRedefinedGenericTypeError:
    print('  control: generic node used directly -> NonRedefinedGenericTypeError (as expected)')

for label, node in (
    ('y never rebound', build_node(Gen2, node_name='half', x=Input(A))),
    ('x and y never rebound', build_node(Gen2, node_name='zero')),
):
    class Out(ProcessorBase):
        name = f'out_{node.name}'

        async def process(self, v: Input(node)) -> int:
            return v

    print(f'  {label}: expected NonRedefinedGenericTypeError from build_dag')
    try:
        dag = build_dag(Inp, Out)
    except errors.NonRedefinedGenericTypeError as ex:
        print('    got NonRedefinedGenericTypeError: ok')
    else:
        defect = True
        res = run(dag, num=1)
        print(f'    DEFECT: build_dag returned a DAG (nodes={sorted(dag.graph.nodes)});')
        print(f'            running it: value={res.value!r} error={res.error!r}')

# ---------------------------------------------------------------- (b)
print('(b) recurrent start node made by build_node from a base that has additional_data')


class GenStart(ProcessorBase):
    name = 'genstart'

    async def process(self, x: InputGeneric(NodeBase), additional_data: t.Optional[int] = None) -> int:
        return x + (additional_data or 0)


def make(trick: bool):
    extra = dict(additional_data=t.Optional[int]) if trick else {}
    start = build_node(GenStart, node_name=f'start_{trick}', x=Input(Inp), **extra)

    class Dest(RecurrentProcessor):
        name = f'dest_{trick}'

        async def process(self, s: Input(start)) -> t.Any:
            if s < 10:
                return self.next_iteration(10)
            return s

    class OutRec(ProcessorBase):
        name = f'outrec_{trick}'

        async def process(self, v: RecurrentSubGraph(start_node=start, dest_node=Dest, max_iterations=3)) -> int:
            return v

    return OutRec


print('  expected: build succeeds (start node base has `additional_data: Optional[int] = None`), result 11')
try:
    dag = build_dag(Inp, make(trick=False))
    print('    built: ok, run ->', run(dag, num=1).value)
except errors.IncorrectParamsRecurrentNode as ex:
    defect = True
    print('    DEFECT: build_dag raised IncorrectParamsRecurrentNode:', str(ex)[:90], '...')
    dag = build_dag(Inp, make(trick=True))
    res = run(dag, num=1)
    print('    same pipeline with build_node(..., additional_data=Optional[int]) builds and runs:',
          f'value={res.value!r} error={res.error!r}  (so the declaration is executable)')

sys.exit(1 if defect else 0)
