"""
Defect 1: a node cancelled together with a rejected one-of candidate stays "processed" for the rest of the run.

Variant A (hang):   Out(v: InputOneOf([C1, C2]));  C1(b: B, d: D), D(a: A), C2(b: B);  A fails fast, B is slow.
Variant B (None):   the same B is additionally a plain input of the output node and the main scope reaches it late.

Run: /venv/bin/python _hunt/defect_1.py   (from /tmp/hunt_C14)
"""
import asyncio
import logging
import sys
import typing as t

sys.path.insert(0, '.')
logging.disable(logging.CRITICAL)

from ml_pipeline_engine.chart import PipelineChart  # noqa: E402
from ml_pipeline_engine.dag_builders.annotation import build_dag  # noqa: E402
from ml_pipeline_engine.dag_builders.annotation.marks import Input  # noqa: E402
from ml_pipeline_engine.dag_builders.annotation.marks import InputOneOf  # noqa: E402
from ml_pipeline_engine.node import ProcessorBase  # noqa: E402

LOG: t.List[tuple] = []


class Rec:
    async def on_pipeline_start(self, ctx): LOG.append(('pipeline_start',))  # noqa
    async def on_pipeline_complete(self, ctx, result): LOG.append(('pipeline_complete', result))  # noqa
    async def on_node_start(self, ctx, node_id): LOG.append(('node_start', node_id))  # noqa
    async def on_node_complete(self, ctx, node_id, error): LOG.append(('node_complete', node_id, error))  # noqa


def unfinished_nodes() -> t.List[str]:
    started = [e[1] for e in LOG if e[0] == 'node_start']
    completed = [e[1] for e in LOG if e[0] == 'node_complete']
    return [n for n in started if n not in completed]


# ---------------------------------------------------------------------------------------------- variant A
def variant_a() -> t.Tuple[t.Any, t.Any]:
    class Inp(ProcessorBase):
        name = 'inp'

        async def process(self, x: int) -> int:
            return x

    class A(ProcessorBase):
        name = 'a'

        async def process(self, x: Input(Inp)) -> int:
            raise ValueError('A failed')

    class B(ProcessorBase):
        name = 'b'

        async def process(self, x: Input(Inp)) -> int:
            await asyncio.sleep(0.2)
            return 10

    class D(ProcessorBase):
        name = 'd'

        async def process(self, a: Input(A)) -> int:
            return a

    class C1(ProcessorBase):
        name = 'c1'

        async def process(self, b: Input(B), d: Input(D)) -> int:
            return d + b

    class C2(ProcessorBase):
        name = 'c2'

        async def process(self, b: Input(B)) -> int:
            return b + 1

    class Out(ProcessorBase):
        name = 'out'

        async def process(self, v: InputOneOf([C1, C2])) -> int:
            return v

    return Inp, Out


# ---------------------------------------------------------------------------------------------- variant B
def variant_b() -> t.Tuple[t.Any, t.Any]:
    class Inp(ProcessorBase):
        name = 'inp'

        async def process(self, x: int) -> int:
            return x

    class Q(ProcessorBase):
        name = 'q'

        async def process(self, x: Input(Inp)) -> int:
            return 1

    class A(ProcessorBase):
        name = 'a'

        async def process(self, q: Input(Q)) -> int:
            await asyncio.sleep(0.05)
            raise ValueError('A failed')

    class B(ProcessorBase):
        name = 'b'

        async def process(self, q: Input(Q)) -> int:
            await asyncio.sleep(0.5)
            return 10

    class D(ProcessorBase):
        name = 'd'

        async def process(self, a: Input(A)) -> int:
            return a

    class C1(ProcessorBase):
        name = 'c1'

        async def process(self, b: Input(B), d: Input(D)) -> int:
            return d + b

    class C2(ProcessorBase):
        name = 'c2'

        async def process(self, x: Input(Inp)) -> int:
            return 2

    class S(ProcessorBase):
        name = 's'

        async def process(self, x: Input(Inp)) -> str:
            await asyncio.sleep(0.2)
            return 's'

    class T(ProcessorBase):
        name = 't'

        async def process(self, s: Input(S)) -> str:
            return 't'

    class Out(ProcessorBase):
        name = 'out'

        async def process(self, t_: Input(T), b: Input(B), v: InputOneOf([C1, C2])) -> t.Any:
            return v, b

    return Inp, Out


async def run_variant(title: str, nodes: t.Tuple[t.Any, t.Any], expected: t.Any) -> bool:
    LOG.clear()
    chart = PipelineChart('m', build_dag(*nodes), event_managers=[Rec])

    print(f'--- {title}')
    print(f'expected: run returns value={expected!r}, error=None; every on_node_start has its on_node_complete')

    try:
        res = await asyncio.wait_for(chart.run(input_kwargs=dict(x=1)), 3)
        outcome = f'value={res.value!r}, error={res.error!r}'
        bad = res.error is not None or res.value != expected
    except asyncio.TimeoutError:
        outcome = 'the run HANGS (cancelled by the 3 s watchdog), on_pipeline_complete was never emitted'
        bad = True

    await asyncio.sleep(0.6)
    hanging = unfinished_nodes()
    print(f'observed: {outcome}')
    print(f'          nodes with on_node_start but no on_node_complete: {hanging}')
    print('          pipeline_complete events:', len([e for e in LOG if e[0] == 'pipeline_complete']))
    return bad or bool(hanging)


async def main() -> int:
    bad_a = await run_variant('variant A: second candidate needs the cancelled node', variant_a(), 11)
    bad_b = await run_variant('variant B: the main scope asks for the cancelled node later', variant_b(), (2, 10))

    if bad_a or bad_b:
        print('DEFECT SHOWS')
        return 1

    print('no defect')
    return 0


sys.exit(asyncio.run(main()))
