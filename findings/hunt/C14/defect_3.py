"""
Defect 3: a node that fails on a re-iteration of a recurrent subgraph which lives inside a one-of candidate
hangs the run (nobody wakes the owner of the one-of / the candidate's scope).

Shape:   Out(v: InputOneOf([C1, C2]));  C1(p: P);  P(d: RecurrentSubGraph(S, D, 3));  S -> M -> D
         1st pass: D asks for another iteration;  2nd pass: M raises.

Run: /venv/bin/python _hunt/defect_3.py   (from /tmp/hunt_C14)
"""
import asyncio
import logging
import sys
import typing as t

sys.path.insert(0, '.')
logging.disable(logging.CRITICAL)

from ml_pipeline_engine.chart import PipelineChart  # noqa: E402
from ml_pipeline_engine.dag_builders.annotation import build_dag  # noqa: E402
from ml_pipeline_engine.dag_builders.annotation.marks import Input  # noqa: E402
from ml_pipeline_engine.dag_builders.annotation.marks import InputOneOf  # noqa: E402
from ml_pipeline_engine.dag_builders.annotation.marks import RecurrentSubGraph  # noqa: E402
from ml_pipeline_engine.node import ProcessorBase  # noqa: E402
from ml_pipeline_engine.node import RecurrentProcessor  # noqa: E402

LOG: t.List[tuple] = []


class Rec:
    async def on_pipeline_start(self, ctx): LOG.append(('pipeline_start',))  # noqa
    async def on_pipeline_complete(self, ctx, result): LOG.append(('pipeline_complete', result))  # noqa
    async def on_node_start(self, ctx, node_id): LOG.append(('node_start', node_id))  # noqa
    async def on_node_complete(self, ctx, node_id, error): LOG.append(('node_complete', node_id, error))  # noqa


class Inp(ProcessorBase):
    name = 'inp'

    async def process(self, x: int) -> int:
        return x


class S(ProcessorBase):
    name = 's'

    async def process(self, x: Input(Inp), additional_data: t.Any = None) -> int:
        return additional_data or 0


class M(ProcessorBase):
    name = 'm'

    async def process(self, s: Input(S)) -> int:
        if s:
            raise ValueError('M failed on the 2nd iteration')
        return s


class D(RecurrentProcessor):
    name = 'd'

    async def process(self, m: Input(M)) -> t.Any:
        if m == 0:
            return self.next_iteration(5)
        return m


class P(ProcessorBase):
    name = 'p'

    async def process(self, d: RecurrentSubGraph(S, D, 3)) -> int:
        return d


class C1(ProcessorBase):
    name = 'c1'

    async def process(self, p: Input(P)) -> int:
        return p


class C2(ProcessorBase):
    name = 'c2'

    async def process(self, x: Input(Inp)) -> int:
        return 2


class Out(ProcessorBase):
    name = 'out'

    async def process(self, v: InputOneOf([C1, C2])) -> t.Any:
        return v


async def main() -> int:
    chart = PipelineChart('m', build_dag(Inp, Out), event_managers=[Rec])

    print('expected: candidate C1 is rejected (M failed), C2 is used -> value=2, error=None, '
          'exactly one on_pipeline_complete')

    hang = False
    try:
        res = await asyncio.wait_for(chart.run(input_kwargs=dict(x=1)), 3)
        print(f'observed: value={res.value!r}, error={res.error!r}')
    except asyncio.TimeoutError:
        hang = True
        print('observed: the run HANGS (cancelled by the 3 s watchdog)')

    for event in LOG:
        print('          ', event)

    n_complete = len([e for e in LOG if e[0] == 'pipeline_complete'])
    print(f'          on_pipeline_complete events: {n_complete}')

    if hang or n_complete != 1 or res.value != 2:
        print('DEFECT SHOWS')
        return 1

    print('no defect')
    return 0


sys.exit(asyncio.run(main()))
