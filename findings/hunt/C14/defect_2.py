"""
Defect 2: a node that failed while it was executed for a one-of candidate is handed to its consumers
outside of the one-of as an ordinary value (the exception object).

Shape:   Out(v: InputOneOf([C1, C2]), w: SwitchCase(Sw, [('a', Y), ('b', Z)]))
         C1(x: X)      - X raises
         Y(x: X)       - the selected case also needs X (mandatory input, no one-of around it)
         Sw is slower than X, so X is executed first on behalf of candidate C1.
The same happens with a plain Input(Y) instead of the switch (see report.md).

Run: /venv/bin/python _hunt/defect_2.py   (from /tmp/hunt_C14)
"""
import asyncio
import logging
import sys
import typing as t

sys.path.insert(0, '.')
logging.disable(logging.CRITICAL)

from ml_pipeline_engine.chart import PipelineChart  # noqa: E402
from ml_pipeline_engine.dag_builders.annotation import build_dag  # noqa: E402
from ml_pipeline_engine.dag_builders.annotation.marks import Input  # noqa: E402
from ml_pipeline_engine.dag_builders.annotation.marks import InputOneOf  # noqa: E402
from ml_pipeline_engine.dag_builders.annotation.marks import SwitchCase  # noqa: E402
from ml_pipeline_engine.node import ProcessorBase  # noqa: E402

LOG: t.List[tuple] = []
RECEIVED: t.List[t.Any] = []


class Rec:
    async def on_pipeline_start(self, ctx): LOG.append(('pipeline_start',))  # noqa
    async def on_pipeline_complete(self, ctx, result): LOG.append(('pipeline_complete', result))  # noqa
    async def on_node_start(self, ctx, node_id): LOG.append(('node_start', node_id))  # noqa
    async def on_node_complete(self, ctx, node_id, error): LOG.append(('node_complete', node_id, error))  # noqa


class Inp(ProcessorBase):
    name = 'inp'

    async def process(self, x: int) -> int:
        return x


class X(ProcessorBase):
    name = 'x'

    async def process(self, x: Input(Inp)) -> int:
        raise ValueError('X failed')


class C1(ProcessorBase):
    name = 'c1'

    async def process(self, x: Input(X)) -> int:
        return x


class C2(ProcessorBase):
    name = 'c2'

    async def process(self, x: Input(Inp)) -> int:
        return 2


class Sw(ProcessorBase):
    name = 'sw'

    async def process(self, x: Input(Inp)) -> str:
        await asyncio.sleep(0.1)
        return 'a'


class Y(ProcessorBase):
    name = 'y'

    async def process(self, x: Input(X)) -> t.Any:
        RECEIVED.append(x)
        return 'y computed from %r' % (x,)


class Z(ProcessorBase):
    name = 'z'

    async def process(self, x: Input(Inp)) -> t.Any:
        return 'z'


class Out(ProcessorBase):
    name = 'out'

    async def process(self, v: InputOneOf([C1, C2]), w: SwitchCase(Sw, [('a', Y), ('b', Z)])) -> t.Any:
        return v, w


async def main() -> int:
    chart = PipelineChart('m', build_dag(Inp, Out), event_managers=[Rec])

    print('expected: X is a mandatory input of Y -> the run ends with error=ValueError("X failed"); '
          'Y is never executed, because the last on_node_complete of X reported an error')

    try:
        res = await asyncio.wait_for(chart.run(input_kwargs=dict(x=1)), 3)
    except asyncio.TimeoutError:
        print('observed: HANG')
        return 1

    x_completes = [e for e in LOG if e[0] == 'node_complete' and e[1] == 'processor__x']
    y_started = [e for e in LOG if e[0] == 'node_start' and e[1] == 'processor__y']

    print(f'observed: value={res.value!r}, error={res.error!r}')
    print(f'          on_node_complete events of X: {x_completes}')
    print(f'          Y started: {bool(y_started)}, Y received x={RECEIVED!r}')

    if res.error is None or y_started:
        print('DEFECT SHOWS: the value of a node whose only on_node_complete carries an error was delivered '
              'to a consumer, and the run reports success')
        return 1

    print('no defect')
    return 0


sys.exit(asyncio.run(main()))
