"""
Defect 5: event managers are not isolated from each other - one raising manager corrupts the history that the
well-behaved manager of the same run observes (and changes the outcome of the run).

Pipeline: Inp -> Out (both succeed). Two event managers: Rec (never raises) and Bad (raises in ONE callback).

Run: /venv/bin/python _hunt/defect_5.py   (from /tmp/hunt_C14)
"""
import asyncio
import logging
import sys
import typing as t

sys.path.insert(0, '.')
logging.disable(logging.CRITICAL)

from ml_pipeline_engine.chart import PipelineChart  # noqa: E402
from ml_pipeline_engine.dag_builders.annotation import build_dag  # noqa: E402
from ml_pipeline_engine.dag_builders.annotation.marks import Input  # noqa: E402
from ml_pipeline_engine.node import ProcessorBase  # noqa: E402

LOG: t.List[tuple] = []


class Rec:
    async def on_pipeline_start(self, ctx): LOG.append(('pipeline_start',))  # noqa
    async def on_pipeline_complete(self, ctx, result): LOG.append(('pipeline_complete', result))  # noqa
    async def on_node_start(self, ctx, node_id): LOG.append(('node_start', node_id))  # noqa
    async def on_node_complete(self, ctx, node_id, error): LOG.append(('node_complete', node_id, error))  # noqa


def make_bad(where: str) -> type:
    async def callback(self, ctx, **kwargs):  # noqa
        raise RuntimeError(f'metrics backend is down ({where})')

    return type('Bad', (), {where: callback})


class Inp(ProcessorBase):
    name = 'inp'

    async def process(self, x: int) -> int:
        return x


class Out(ProcessorBase):
    name = 'out'

    async def process(self, v: Input(Inp)) -> int:
        return v + 1


EXPECTED = [
    ('pipeline_start',),
    ('node_start', 'processor__inp'),
    ('node_complete', 'processor__inp', None),
    ('node_start', 'processor__out'),
    ('node_complete', 'processor__out', None),
    ('pipeline_complete', 'value=2'),
]


def normalise(returned: t.Any) -> t.List[tuple]:
    history = []
    for event in LOG:
        if event[0] == 'pipeline_complete':
            same = 'same object as returned' if event[1] is returned else 'NOT the returned object'
            history.append(('pipeline_complete', f'value={event[1].value!r}', f'error={event[1].error!r}', same))
        else:
            history.append(event)
    return history


async def main() -> int:
    print('expected history of Rec in every case:')
    for event in EXPECTED:
        print('     ', event)
    print('expected outcome in every case: run returns PipelineResult(value=2, error=None)\n')

    shows = False

    for where in ('on_pipeline_start', 'on_node_start', 'on_node_complete', 'on_pipeline_complete'):
        for order in ('Rec, Bad', 'Bad, Rec'):
            LOG.clear()
            bad = make_bad(where)
            managers = [Rec, bad] if order == 'Rec, Bad' else [bad, Rec]
            chart = PipelineChart('m', build_dag(Inp, Out), event_managers=managers)

            returned = None
            try:
                returned = await asyncio.wait_for(chart.run(input_kwargs=dict(x=1)), 3)
                outcome = f'run returned value={returned.value!r}, error={returned.error!r}'
            except asyncio.TimeoutError:
                outcome = 'HANG'
            except Exception as ex:  # noqa: BLE001
                outcome = f'run RAISED {ex!r}'

            history = normalise(returned)

            n_start = len([e for e in history if e[0] == 'pipeline_start'])
            n_complete = len([e for e in history if e[0] == 'pipeline_complete'])
            starts = [e[1] for e in history if e[0] == 'node_start']
            completes = [e[1] for e in history if e[0] == 'node_complete']

            well_formed = (
                n_start == 1
                and n_complete == 1
                and history[0][0] == 'pipeline_start'
                and history[-1][0] == 'pipeline_complete'
                and history[-1][-1] == 'same object as returned'
                and starts == completes
            )

            print(f'--- Bad raises in {where}, event_managers=[{order}]: {outcome}')
            for event in history:
                print('     ', event)
            print('      history of Rec is', 'well formed' if well_formed else 'BROKEN')

            shows = shows or not well_formed

    if shows:
        print('DEFECT SHOWS')
        return 1

    print('no defect')
    return 0


sys.exit(asyncio.run(main()))
