"""
Defect 4: cancellation never produces the terminal lifecycle events.

  A. ordinary failing run: Out(a: A, b: B), A raises while B is still running -> B is cancelled by the engine:
     on_node_start(B) is never followed by on_node_complete(B), on_pipeline_complete is emitted while B is "open".
  B. ordinary successful run: Out(v: InputOneOf([C1, C2])), C1(a: A, b: B); A raises, slow B keeps running for the
     rejected candidate, C2 wins, the run ends -> same dangling on_node_start(B).
  C. a node body that ends with asyncio.CancelledError (e.g. it awaited a future that a client library cancelled):
     no on_node_complete, the run HANGS, no on_pipeline_complete.
  D. the caller cancels PipelineChart.run (asyncio.wait_for timeout): on_pipeline_start without on_pipeline_complete.

Run: /venv/bin/python _hunt/defect_4.py   (from /tmp/hunt_C14)
"""
import asyncio
import logging
import sys
import typing as t

sys.path.insert(0, '.')
logging.disable(logging.CRITICAL)

from ml_pipeline_engine.chart import PipelineChart  # noqa: E402
from ml_pipeline_engine.dag_builders.annotation import build_dag  # noqa: E402
from ml_pipeline_engine.dag_builders.annotation.marks import Input  # noqa: E402
from ml_pipeline_engine.dag_builders.annotation.marks import InputOneOf  # noqa: E402
from ml_pipeline_engine.node import ProcessorBase  # noqa: E402

LOG: t.List[tuple] = []


class Rec:
    async def on_pipeline_start(self, ctx): LOG.append(('pipeline_start',))  # noqa
    async def on_pipeline_complete(self, ctx, result): LOG.append(('pipeline_complete', result))  # noqa
    async def on_node_start(self, ctx, node_id): LOG.append(('node_start', node_id))  # noqa
    async def on_node_complete(self, ctx, node_id, error): LOG.append(('node_complete', node_id, error))  # noqa


def check_history() -> t.List[str]:
    problems = []
    started = [e[1] for e in LOG if e[0] == 'node_start']
    completed = [e[1] for e in LOG if e[0] == 'node_complete']
    dangling = [n for n in started if n not in completed]

    if dangling:
        problems.append(f'on_node_start without on_node_complete: {dangling}')

    n_start = len([e for e in LOG if e[0] == 'pipeline_start'])
    n_complete = len([e for e in LOG if e[0] == 'pipeline_complete'])

    if (n_start, n_complete) != (1, 1):
        problems.append(f'on_pipeline_start x{n_start}, on_pipeline_complete x{n_complete}')

    return problems


class Inp(ProcessorBase):
    name = 'inp'

    async def process(self, x: int) -> int:
        return x


class A(ProcessorBase):
    name = 'a'

    async def process(self, x: Input(Inp)) -> int:
        raise ValueError('A failed')


class B(ProcessorBase):
    name = 'b'

    async def process(self, x: Input(Inp)) -> int:
        await asyncio.sleep(0.3)
        return 10


# A
class OutA(ProcessorBase):
    name = 'out_a'

    async def process(self, a: Input(A), b: Input(B)) -> int:
        return a + b


# B
class C1(ProcessorBase):
    name = 'c1'

    async def process(self, a: Input(A), b: Input(B)) -> int:
        return a + b


class C2(ProcessorBase):
    name = 'c2'

    async def process(self, x: Input(Inp)) -> int:
        return 2


class OutB(ProcessorBase):
    name = 'out_b'

    async def process(self, v: InputOneOf([C1, C2])) -> int:
        return v


# C
class SelfCancelled(ProcessorBase):
    name = 'self_cancelled'

    async def process(self, x: Input(Inp)) -> int:
        fut = asyncio.get_running_loop().create_future()
        fut.cancel()  # e.g. a connection pool cancelled its own request future
        return await fut


class OutC(ProcessorBase):
    name = 'out_c'

    async def process(self, v: Input(SelfCancelled)) -> int:
        return v


# D
class OutD(ProcessorBase):
    name = 'out_d'

    async def process(self, b: Input(B)) -> int:
        return b


async def scenario(title: str, out: t.Any, timeout: float, expected: str) -> bool:
    LOG.clear()
    chart = PipelineChart('m', build_dag(Inp, out), event_managers=[Rec])

    print(f'--- {title}')
    print(f'expected: {expected}')

    try:
        res = await asyncio.wait_for(chart.run(input_kwargs=dict(x=1)), timeout)
        print(f'observed: run returned value={res.value!r}, error={res.error!r}')
    except asyncio.TimeoutError:
        print(f'observed: run did not finish within {timeout} s and was cancelled by the caller')

    await asyncio.sleep(0.6)  # give every cancelled task the time to wind up

    problems = check_history()
    for event in LOG:
        print('          ', event)
    for problem in problems:
        print('   !!', problem)

    return bool(problems)


async def main() -> int:
    results = [
        await scenario(
            'A: sibling of a failing node', OutA, 3,
            'error=ValueError; on_node_complete(b, error=<cancelled>) before on_pipeline_complete',
        ),
        await scenario(
            'B: slow node of a rejected one-of candidate', OutB, 3,
            'value=2; b either completes or gets on_node_complete(error=<cancelled>) before on_pipeline_complete',
        ),
        await scenario(
            'C: node body ends with CancelledError', OutC, 1,
            'run returns error=CancelledError (or similar) after on_node_complete(self_cancelled, error=...)',
        ),
        await scenario(
            'D: the caller cancels PipelineChart.run', OutD, 0.1,
            'on_node_complete(b, error=...) and one on_pipeline_complete(error=CancelledError) before run unwinds',
        ),
    ]

    if any(results):
        print('DEFECT SHOWS in scenarios:', [name for name, bad in zip('ABCD', results) if bad])
        return 1

    print('no defect')
    return 0


sys.exit(asyncio.run(main()))
