"""
defect_3: only process() honours the execution mode of a node. The node's constructor and its get_default() are
always executed synchronously inside the event loop thread, also for nodes that run in the thread / process pool:

  * node.py:run_node -> get_callable_run_method -> get_instance(node)   (a new instance per execution, in the loop)
  * manager.py:__execute_node -> run_node_default(node, **kwargs)        (fallback value, in the loop)

So two thread-pool siblings with the same dependencies whose fallback (or constructor) is slow are executed one
after the other, and every other sibling is frozen meanwhile.
"""
import asyncio
import sys
import threading
import time

sys.path.insert(0, '.')

from ml_pipeline_engine.chart import PipelineChart
from ml_pipeline_engine.dag_builders.annotation import build_dag
from ml_pipeline_engine.dag_builders.annotation.marks import Input
from ml_pipeline_engine.node import ProcessorBase
from ml_pipeline_engine.parallelism import threads_pool_registry

threads_pool_registry.auto_init()

HOLD = 1.0
log = []


class Inp(ProcessorBase):
    name = 'inp'

    async def process(self, x: int) -> int:
        return x


class Rendezvous:
    """A barrier for two that is only armed while the chart runs (build_dag instantiates the nodes as well)."""

    def __init__(self) -> None:
        self.barrier = None

    def wait(self, timeout: float) -> None:
        if self.barrier is None:
            raise threading.BrokenBarrierError
        self.barrier.wait(timeout)


def fallback_node(name_: str, rendezvous: Rendezvous):
    class _Node(ProcessorBase):
        name = name_
        use_default = True  # default (thread pool) execution mode

        def process(self, x: Input(Inp)) -> str:
            log.append((time.monotonic(), f'{name_}.process in {threading.current_thread().name}'))
            raise RuntimeError('source is down')

        def get_default(self, **kwargs) -> str:
            log.append((time.monotonic(), f'{name_}.get_default in {threading.current_thread().name}'))
            try:
                rendezvous.wait(HOLD)  # held open until the sibling is in flight as well
                return 'concurrent'
            except threading.BrokenBarrierError:
                return 'alone'

    _Node.__name__ = _Node.__qualname__ = name_
    return _Node


def ctor_node(name_: str, rendezvous: Rendezvous):
    class _Node(ProcessorBase):
        name = name_

        def __init__(self) -> None:
            if rendezvous.barrier is not None:
                log.append((time.monotonic(), f'{name_}.__init__ in {threading.current_thread().name}'))
            try:
                rendezvous.wait(HOLD)  # e.g. loading a model file
                self.how = 'concurrent'
            except threading.BrokenBarrierError:
                self.how = 'alone'

        def process(self, x: Input(Inp)) -> str:
            return self.how

    _Node.__name__ = _Node.__qualname__ = name_
    return _Node


def out_node(name_: str, a, b):
    class _Out(ProcessorBase):
        name = name_

        async def process(self, a_: Input(a), b_: Input(b)) -> list:
            return [a_, b_]

    _Out.__name__ = _Out.__qualname__ = name_
    return _Out


async def scenario(title: str, factory) -> bool:
    log.clear()
    barrier = Rendezvous()
    prefix = title.split()[0]
    a, b = factory(f'{prefix}_a', barrier), factory(f'{prefix}_b', barrier)
    chart = PipelineChart('m', build_dag(input_node=Inp, output_node=out_node(f'{prefix}_out', a, b)))

    barrier.barrier = threading.Barrier(2)
    t0 = time.monotonic()
    result = await asyncio.wait_for(chart.run(input_kwargs={'x': 1}), 30)
    assert result.error is None, result.error

    print(f'[{title}] two thread-pool siblings with the same dependency')
    print("  expected: both are in flight together -> ['concurrent', 'concurrent']")
    print(f'  observed: {result.value} after {time.monotonic() - t0:.2f}s')
    for ts, what in log:
        print(f'    +{ts - t0:5.2f}s {what}')

    return result.value != ['concurrent', 'concurrent']


async def main() -> int:
    bad_default = await scenario('default get_default() of a failed thread-pool node', fallback_node)
    bad_ctor = await scenario('ctor constructor of a thread-pool node', ctor_node)

    if bad_default or bad_ctor:
        print('DEFECT: get_default() / the constructor of pool nodes run inside the event loop thread, '
              'siblings are serialised')
        return 1

    print('no defect')
    return 0


if __name__ == '__main__':
    code = asyncio.run(main())
    threads_pool_registry.shutdown()
    sys.exit(code)
