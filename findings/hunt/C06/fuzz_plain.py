"""Exploration helper (not a defect): random plain DAGs of coroutine nodes, depth-by-depth release."""
import asyncio, random, sys
sys.path.insert(0, '.')
import networkx as nx
from ml_pipeline_engine.chart import PipelineChart
from ml_pipeline_engine.dag_builders.annotation import build_dag
from ml_pipeline_engine.dag_builders.annotation.marks import Input
from ml_pipeline_engine.node import ProcessorBase

async def one(seed):
    rnd = random.Random(seed)
    n = rnd.randint(2, 12)
    started = set(); gates = {}
    classes = {}
    def mk(i, deps, use_inp):
        async def process(self, **kwargs):
            started.add(i)
            await gates[i].wait()
            return i
        ann = {f'd{j}': Input(classes[j]) for j in deps}
        if use_inp: ann['inp'] = Input(classes['inp'])
        process.__annotations__ = ann
        return type(f'S{seed}N{i}', (ProcessorBase,), {'name': f's{seed}_n{i}', 'process': process})
    async def inp_process(self, x: int): return x
    classes['inp'] = type(f'S{seed}Inp', (ProcessorBase,), {'name': f's{seed}_inp', 'process': inp_process})
    g = nx.DiGraph(); g.add_node('inp')
    for i in range(n):
        deps = [j for j in range(i) if rnd.random() < 0.35]
        use_inp = (not deps) and rnd.random() < 0.5 or (deps and rnd.random() < 0.2)
        classes[i] = mk(i, deps, use_inp)
        for j in deps: g.add_edge(j, i)
        if use_inp or not deps: g.add_edge('inp', i)
    # output depends on all sinks
    sinks = [i for i in range(n) if g.out_degree(i) == 0]
    classes['out_deps'] = sinks
    out = mk('out', sinks, False); classes['out'] = out
    for s in sinks: g.add_edge(s, 'out')
    for i in list(range(n)) + ['out']: gates[i] = asyncio.Event()
    depth = {}
    for v in nx.topological_sort(g):
        depth[v] = max([depth[p] + 1 for p in g.predecessors(v)], default=0)
    chart = PipelineChart('m', build_dag(input_node=classes['inp'], output_node=out))
    run = asyncio.ensure_future(chart.run(input_kwargs={'x': 1}))
    maxd = max(depth.values())
    for d in range(1, maxd + 1):
        for _ in range(20): await asyncio.sleep(0)
        level = {v for v in depth if depth[v] == d}
        missing = level - started
        extra = {v for v in started if depth[v] > d}
        if missing or extra:
            print('seed', seed, 'depth', d, 'missing', missing, 'extra', extra, list(g.edges)); 
            run.cancel(); return False
        for v in level: gates[v].set()
    r = await asyncio.wait_for(run, 5)
    if r.error is not None or r.value != 'out':
        print('seed', seed, 'result', r); return False
    return True

async def main():
    bad = 0
    for seed in range(400):
        try:
            ok = await asyncio.wait_for(one(seed), 10)
        except Exception as e:
            print('seed', seed, 'exc', repr(e)); ok = False
        bad += not ok
    print('bad', bad)
asyncio.run(main())
