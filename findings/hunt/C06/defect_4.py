"""
defect_4: before the first node of a run is started, DAGRunConcurrentManager.run() computes the node set with
get_connected_subgraph() -> nx.all_simple_paths(dag, input, output) (dag/graph.py). The number of simple paths of
a plain DAG is exponential in its size (2**k for a chain of k diamonds, 3k+1 nodes), the enumeration is repeated
on every run and it is done synchronously inside the event loop thread. Consequences for plain pipelines:

  * the start of the depth-0/depth-1 nodes is delayed by a time that quadruples with every 6 added nodes
    (49 nodes: seconds, 61 nodes: about a minute, 76 nodes: about an hour) - asyncio.wait_for cannot even time out;
  * while one run enumerates its paths, every other run on the loop is frozen: sibling nodes whose only
    dependency has already completed are not started until the enumeration is over.
"""
import asyncio
import sys
import time

sys.path.insert(0, '.')

from ml_pipeline_engine.chart import PipelineChart
from ml_pipeline_engine.dag_builders.annotation import build_dag
from ml_pipeline_engine.dag_builders.annotation.marks import Input
from ml_pipeline_engine.node import ProcessorBase

stamps = {}


def diamond_chain(k: int, tag: str):
    """inp -> {b0, c0} -> d0 -> {b1, c1} -> d1 ... -> d(k-1): plain Input dependencies only, 3k+1 nodes."""

    async def inp(self, x: int) -> int:
        stamps[f'{tag}_inp_started'] = time.monotonic()
        return x

    first = prev = type(f'{tag}Inp', (ProcessorBase,), {'name': f'{tag}_inp', 'process': inp})

    def mk(name: str, deps):
        async def process(self, **kwargs) -> int:
            return 1

        process.__annotations__ = {f'd{j}': Input(dep) for j, dep in enumerate(deps)}
        return type(name, (ProcessorBase,), {'name': name, 'process': process})

    for i in range(k):
        b, c = mk(f'{tag}_b{i}', [prev]), mk(f'{tag}_c{i}', [prev])
        prev = mk(f'{tag}_d{i}', [b, c])

    return PipelineChart('m', build_dag(input_node=first, output_node=prev))


# a small chart: two siblings with the same single dependency


class SmallInp(ProcessorBase):
    name = 'small_inp'

    async def process(self, x: int) -> int:
        stamps['arrival'].set()  # another request arrives while this node is running
        stamps['small_inp_done'] = time.monotonic()
        return x


class SibA(ProcessorBase):
    name = 'sib_a'

    async def process(self, x: Input(SmallInp)) -> int:
        stamps['sib_a_started'] = time.monotonic()
        return 1


class SibB(ProcessorBase):
    name = 'sib_b'

    async def process(self, x: Input(SmallInp)) -> int:
        stamps['sib_b_started'] = time.monotonic()
        return 2


class SmallOut(ProcessorBase):
    name = 'small_out'

    async def process(self, a: Input(SibA), b: Input(SibB)) -> int:
        return a + b


async def main() -> int:
    print('part 1: time between chart.run() and the start of the input node (chain of k diamonds)')
    delays = []
    for k in (10, 12, 14):
        chart = diamond_chain(k, f'k{k}')
        t0 = time.monotonic()
        result = await chart.run(input_kwargs={'x': 1})
        assert result.error is None, result.error
        delays.append(stamps[f'k{k}_inp_started'] - t0)
        print(f'  k={k:2d} ({3 * k + 1} nodes, {2 ** k} input->output paths): input node started after {delays[-1]:.3f}s')
    ratios = [delays[i + 1] / delays[i] for i in range(len(delays) - 1)]
    print(f'  expected: roughly linear in the number of nodes; observed growth per 6 added nodes: '
          f'{", ".join(f"x{r:.1f}" for r in ratios)}')

    print('part 2: a run of the 43 node chart is requested while a small run (inp -> {sib_a, sib_b} -> out) is in flight')
    stamps['arrival'] = asyncio.Event()
    big = diamond_chain(14, 'big')
    small = PipelineChart('m', build_dag(input_node=SmallInp, output_node=SmallOut))

    async def other_client() -> None:
        await stamps['arrival'].wait()
        await big.run(input_kwargs={'x': 1})

    client = asyncio.ensure_future(other_client())
    result = await small.run(input_kwargs={'x': 1})
    assert result.error is None and result.value == 3, result
    await client

    gap_a = stamps['sib_a_started'] - stamps['small_inp_done']
    gap_b = stamps['sib_b_started'] - stamps['small_inp_done']
    print('  expected: sib_a and sib_b start as soon as their only dependency small_inp has completed')
    print(f'  observed: sib_a started {gap_a:.3f}s and sib_b {gap_b:.3f}s after small_inp completed '
          f'(loop blocked by all_simple_paths of the other run)')

    if min(ratios) > 2.5 and min(gap_a, gap_b) > 0.3:
        print('DEFECT: exponential, loop-blocking path enumeration in get_connected_subgraph delays the start of nodes')
        return 1

    print('no defect')
    return 0


if __name__ == '__main__':
    sys.exit(asyncio.run(main()))
