"""
defect_1: sibling nodes of the default (thread) execution mode are NOT all in flight at the same time.

run_node() hands every sync node to ONE process-wide bounded executor (threads_pool_registry, created by
auto_init() as ThreadPoolExecutor() -> min(32, cpu+4) workers). With more sibling nodes than workers the
surplus siblings are only queued: their bodies are not started until another sibling finishes. The pool is a
singleton shared by all charts and all concurrent runs, so two runs that each fit the pool starve each other.
"""
import asyncio
import sys
import threading
import time

sys.path.insert(0, '.')

from ml_pipeline_engine.chart import PipelineChart
from ml_pipeline_engine.dag_builders.annotation import build_dag
from ml_pipeline_engine.dag_builders.annotation.marks import Input
from ml_pipeline_engine.node import ProcessorBase
from ml_pipeline_engine.parallelism import threads_pool_registry

threads_pool_registry.auto_init()  # the documented (README) setup
WORKERS = threads_pool_registry.get_pool_executor()._max_workers

started = set()
started_lock = threading.Lock()
release = threading.Event()


class Inp(ProcessorBase):
    name = 'inp'

    async def process(self, tag: str) -> str:
        return tag


def make_sibling(idx: int, prefix: str):
    def process(self, tag: Input(Inp)) -> int:
        with started_lock:
            started.add((tag, idx))
        release.wait(60)  # held open
        return idx

    return type(f'{prefix}Sibling{idx}', (ProcessorBase,), {'name': f'{prefix}_sibling_{idx}', 'process': process})


def make_output(siblings, prefix: str):
    async def process(self, **kwargs) -> int:
        return sum(kwargs.values())

    process.__annotations__ = {f'd{i}': Input(node) for i, node in enumerate(siblings)}
    process.__annotations__['return'] = int
    return type(f'{prefix}Out', (ProcessorBase,), {'name': f'{prefix}_out', 'process': process})


async def wait_started(expected: int, timeout: float) -> int:
    deadline = time.monotonic() + timeout
    while time.monotonic() < deadline and len(started) < expected:
        await asyncio.sleep(0.05)
    return len(started)


async def scenario(title: str, n_siblings: int, tags) -> bool:
    started.clear()
    release.clear()

    prefix = title.split()[0]
    siblings = [make_sibling(i, prefix) for i in range(n_siblings)]
    chart = PipelineChart('m', build_dag(input_node=Inp, output_node=make_output(siblings, prefix)))

    runs = [asyncio.ensure_future(chart.run(input_kwargs={'tag': tag})) for tag in tags]
    expected = n_siblings * len(tags)
    in_flight = await wait_started(expected, 3.0)

    print(f'[{title}] pool workers={WORKERS}, runs={len(tags)}, sibling nodes per run={n_siblings} (all depth 1, '
          f'same single dependency)')
    print(f'  expected: all {expected} sibling bodies in flight while every one of them is held open')
    print(f'  observed: {in_flight} in flight after 3s, {expected - in_flight} never started')
    for tag in tags:
        print(f'    run {tag!r}: {len([1 for t, _ in started if t == tag])}/{n_siblings} started')

    release.set()
    results = await asyncio.wait_for(asyncio.gather(*runs), 30)
    assert all(r.error is None for r in results), [r.error for r in results]
    print(f'  (after releasing the held nodes every run finished, values={[r.value for r in results]})')
    return in_flight < expected


async def scenario_cancelled() -> bool:
    """A run that was cancelled keeps its workers: the nodes of a LATER run are not started at all."""
    started.clear()
    release.clear()

    siblings = [make_sibling(i, 'C') for i in range(WORKERS)]
    chart = PipelineChart('m', build_dag(input_node=Inp, output_node=make_output(siblings, 'C')))

    try:
        await asyncio.wait_for(chart.run(input_kwargs={'tag': 'cancelled'}), 1.0)
    except asyncio.TimeoutError:
        pass

    two = [make_sibling(i, 'C2') for i in range(2)]
    chart2 = PipelineChart('m', build_dag(input_node=Inp, output_node=make_output(two, 'C2')))
    run2 = asyncio.ensure_future(chart2.run(input_kwargs={'tag': 'later'}))
    await asyncio.sleep(2.0)
    later = len([1 for t, _ in started if t == 'later'])

    print(f'[C a later run after a cancelled run] first run ({WORKERS} held siblings) was cancelled by wait_for')
    print('  expected: the 2 sibling nodes of the later run are in flight together')
    print(f'  observed: {later}/2 started after 2s')

    release.set()
    result = await asyncio.wait_for(run2, 30)
    assert result.error is None, result.error
    return later < 2


async def main() -> int:
    bad_a = await scenario('A one run, workers+1 siblings', WORKERS + 1, ['r1'])
    # each run alone fits into the pool, both together do not
    bad_b = await scenario('B two concurrent runs of one chart', WORKERS // 2 + 1, ['r1', 'r2'])

    bad_c = await scenario_cancelled()

    if bad_a or bad_b or bad_c:
        print('DEFECT: siblings with the same dependencies were not in flight at the same time '
              '(bounded process-wide executor in node.py:run_node)')
        return 1

    print('no defect')
    return 0


if __name__ == '__main__':
    code = asyncio.run(main())
    threads_pool_registry.shutdown()
    sys.exit(code)
