"""
defect_2: two sibling nodes tagged NodeTag.non_async are never in flight at the same time, and while one of them
is open no sibling (of ANY mode) whose task has not taken its first step yet is started.

run_node() calls the body of a non_async node directly inside the event loop thread (node.py:run_node, the
`elif NodeTag.non_async in tags: result = run_method(*args, **kwargs)` branch). The first sibling whose task is
scheduled occupies the loop, so the tasks of its siblings - already created by _run_dag - cannot take a step.
"""
import asyncio
import sys
import threading
import time

sys.path.insert(0, '.')

from ml_pipeline_engine.chart import PipelineChart
from ml_pipeline_engine.dag_builders.annotation import build_dag
from ml_pipeline_engine.dag_builders.annotation.marks import Input
from ml_pipeline_engine.node import ProcessorBase
from ml_pipeline_engine.node.enums import NodeTag
from ml_pipeline_engine.parallelism import threads_pool_registry

threads_pool_registry.auto_init()

HOLD = 1.5
log = []  # (monotonic time, what)
all_started = threading.Event()
started = set()


def mark(name: str) -> None:
    log.append((time.monotonic(), f'{name} started'))
    started.add(name)
    if len(started) == 4:
        all_started.set()


def body_done(name: str, saw_all: bool) -> None:
    log.append((time.monotonic(), f'{name} finished (saw every sibling in flight: {saw_all})'))


class Inp(ProcessorBase):
    name = 'inp'

    async def process(self, x: int) -> int:
        return x


class SyncA(ProcessorBase):
    name = 'sync_a'
    tags = (NodeTag.non_async,)

    def process(self, x: Input(Inp)) -> bool:
        mark('sync_a')
        saw = all_started.wait(HOLD)  # held open until the siblings are in flight (or give up)
        body_done('sync_a', saw)
        return saw


class SyncB(ProcessorBase):
    name = 'sync_b'
    tags = (NodeTag.non_async,)

    def process(self, x: Input(Inp)) -> bool:
        mark('sync_b')
        saw = all_started.wait(HOLD)
        body_done('sync_b', saw)
        return saw


class Coro(ProcessorBase):
    name = 'coro'

    async def process(self, x: Input(Inp)) -> bool:
        mark('coro')
        return True


class Threaded(ProcessorBase):
    name = 'threaded'

    def process(self, x: Input(Inp)) -> bool:
        mark('threaded')
        return True


class Out(ProcessorBase):
    name = 'out'

    async def process(self, a: Input(SyncA), b: Input(SyncB), c: Input(Coro), d: Input(Threaded)) -> list:
        return [a, b, c, d]


async def main() -> int:
    chart = PipelineChart('m', build_dag(input_node=Inp, output_node=Out))
    t0 = time.monotonic()
    result = await asyncio.wait_for(chart.run(input_kwargs={'x': 1}), 30)
    assert result.error is None, result.error

    print('shape: inp -> {sync_a[non_async], sync_b[non_async], coro[async], threaded[thread pool]} -> out')
    print('each non_async body stays open until it has seen all four siblings started (gives up after %.1fs)' % HOLD)
    print('expected: all four siblings start right after inp; both non_async bodies see every sibling in flight')
    print('observed timeline:')
    for ts, what in log:
        print(f'  +{ts - t0:5.2f}s {what}')

    saw_a, saw_b = result.value[0], result.value[1]
    first_end = min(ts for ts, what in log if 'finished' in what)
    late = [what for ts, what in log if 'started' in what and ts >= first_end]

    if not (saw_a and saw_b) or late:
        print(f'DEFECT: siblings started only after a non_async sibling had finished: {late}')
        return 1

    print('no defect')
    return 0


if __name__ == '__main__':
    code = asyncio.run(main())
    threads_pool_registry.shutdown()
    sys.exit(code)
