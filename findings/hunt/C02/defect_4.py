"""
Defect 4: a synchronous node (executed through the thread / process pool) that fails with StopIteration
(`next()` on an exhausted iterator - a very common bug) makes the run hang.  run_node() hands the raw callable to
loop.run_in_executor(); asyncio cannot copy a StopIteration into the awaiting asyncio future
(TypeError inside the loop callback, Python < 3.13 - the project supports ^3.8), so the future awaited by the
engine stays pending forever.  The same node declared `async` or tagged non_async fails properly.

    Inp -> B -> Out        all nodes are plain `def process`

Run from /tmp/hunt_C02:  /venv/bin/python _hunt/defect_4.py
"""
import os
import sys

sys.path.insert(0, os.getcwd())

import asyncio  # noqa: E402
import logging  # noqa: E402

from ml_pipeline_engine.chart import PipelineChart  # noqa: E402
from ml_pipeline_engine.dag_builders.annotation import build_dag  # noqa: E402
from ml_pipeline_engine.dag_builders.annotation.marks import Input  # noqa: E402
from ml_pipeline_engine.node import ProcessorBase  # noqa: E402
from ml_pipeline_engine.node.enums import NodeTag  # noqa: E402
from ml_pipeline_engine.parallelism import threads_pool_registry  # noqa: E402

logging.disable(logging.CRITICAL)


class Inp(ProcessorBase):
    def process(self, x: int) -> int:
        return x


class BThread(ProcessorBase):
    def process(self, x: Input(Inp)) -> int:
        return next(iter([]))  # raises StopIteration in the pool thread


class BInline(ProcessorBase):
    tags = (NodeTag.non_async,)

    def process(self, x: Input(Inp)) -> int:
        return next(iter([]))


class OutThread(ProcessorBase):
    def process(self, v: Input(BThread)) -> int:
        return v


class OutInline(ProcessorBase):
    def process(self, v: Input(BInline)) -> int:
        return v


async def one_run(output_node: type) -> str:
    chart = PipelineChart('m', build_dag(input_node=Inp, output_node=output_node))
    try:
        res = await asyncio.wait_for(chart.run(input_kwargs=dict(x=1)), 3)
        return f'value={res.value!r} error={res.error!r}'
    except asyncio.TimeoutError:
        return 'HANG (run still pending after 3s, the node body has returned, the pool is idle)'


async def main() -> int:
    threads_pool_registry.auto_init()
    # the "Exception in callback" report of the loop is expected, keep the output readable
    asyncio.get_running_loop().set_exception_handler(
        lambda loop, ctx: print('   [loop exception handler]', repr(ctx.get('exception'))),
    )

    ctl = await one_run(OutInline)
    print('control (non_async node raises StopIteration)   expected: error result   got:', ctl)
    bad = await one_run(OutThread)
    print('defect  (thread-pool node raises StopIteration) expected: error result   got:', bad)
    if 'HANG' in bad:
        print('DEFECT: the failure of the pool node never reaches the engine, the run never completes')
        return 1
    return 0


sys.exit(asyncio.run(main()))
