"""
Defect 5 (neighbour of known item (2), different depth / different symptom): a switch inside a one-of candidate
whose selected case fails ONE LEVEL DEEPER (a dependency of the case node raises) hangs the run instead of
falling back to the next candidate.

    Out <- InputOneOf([C1, C2]);   C1 <- SwitchCase(Dec, [('a', X), ('b', Y)]);   X <- Xa;   Xa raises

Run from /tmp/hunt_C02:  /venv/bin/python _hunt/defect_5.py
"""
import os
import sys

sys.path.insert(0, os.getcwd())

import asyncio  # noqa: E402
import logging  # noqa: E402

from ml_pipeline_engine.chart import PipelineChart  # noqa: E402
from ml_pipeline_engine.dag_builders.annotation import build_dag  # noqa: E402
from ml_pipeline_engine.dag_builders.annotation.marks import Input  # noqa: E402
from ml_pipeline_engine.dag_builders.annotation.marks import InputOneOf  # noqa: E402
from ml_pipeline_engine.dag_builders.annotation.marks import SwitchCase  # noqa: E402
from ml_pipeline_engine.node import ProcessorBase  # noqa: E402

logging.disable(logging.CRITICAL)

MODE = {'fail': True}


class Inp(ProcessorBase):
    async def process(self, x: int) -> int:
        return x


class Dec(ProcessorBase):
    async def process(self, x: Input(Inp)) -> str:
        return 'a'


class Xa(ProcessorBase):
    async def process(self, x: Input(Inp)) -> int:
        if MODE['fail']:
            raise ValueError('Xa fails')
        return 5


class X(ProcessorBase):
    async def process(self, x: Input(Xa)) -> int:
        return x


class Y(ProcessorBase):
    async def process(self, x: Input(Inp)) -> int:
        return 2


class C1(ProcessorBase):
    async def process(self, v: SwitchCase(name='sw', switch=Dec, cases=[('a', X), ('b', Y)])) -> int:
        return v


class C2(ProcessorBase):
    async def process(self, x: Input(Inp)) -> int:
        return -1


class Out(ProcessorBase):
    async def process(self, v: InputOneOf([C1, C2])) -> int:
        return v


async def one_run(fail: bool) -> str:
    MODE['fail'] = fail
    chart = PipelineChart('m', build_dag(input_node=Inp, output_node=Out))
    try:
        res = await asyncio.wait_for(chart.run(input_kwargs=dict(x=1)), 3)
        return f'value={res.value!r} error={res.error!r}'
    except asyncio.TimeoutError:
        return 'HANG (run still pending after 3s, no node body outstanding)'


async def main() -> int:
    ctl = await one_run(fail=False)
    print('control (Xa succeeds) expected: value=5    got:', ctl)
    bad = await one_run(fail=True)
    print('defect  (Xa raises)   expected: value=-1 (fallback C2)   got:', bad)
    if 'HANG' in bad:
        print('DEFECT: the failure below the selected case is invisible to the one-of owner, the run never completes')
        return 1
    return 0


sys.exit(asyncio.run(main()))
