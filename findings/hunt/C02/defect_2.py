"""
Defect 2: a recurrent re-iteration that ends "with an error" is abandoned silently
(manager.py:_run_recurrent_subgraph, `if has_errors: return`): the destination node keeps its hidden
Recurrent marker, nobody is notified, the active-subgraph marker is not removed.

Variant A (one-of):   Out <- InputOneOf([E, Fallback]);  E <- C <- RecurrentSubGraph(A .. D);  A -> B -> D
                      B raises in the 2nd iteration.  With the candidate directly below D (Out <- OneOf([C, ..]))
                      the fallback is used; with one more hop (E) the run hangs.
Variant B (no one-of): Out <- RecurrentSubGraph(A .. D), D <- A, B;  B *returns* an exception instance as a value
                      in the iteration in which D asks for one more iteration.

Run from /tmp/hunt_C02:  /venv/bin/python _hunt/defect_2.py
"""
import os
import sys

sys.path.insert(0, os.getcwd())

import asyncio  # noqa: E402
import logging  # noqa: E402
import typing as t  # noqa: E402

from ml_pipeline_engine.chart import PipelineChart  # noqa: E402
from ml_pipeline_engine.dag_builders.annotation import build_dag  # noqa: E402
from ml_pipeline_engine.dag_builders.annotation.marks import Input  # noqa: E402
from ml_pipeline_engine.dag_builders.annotation.marks import InputOneOf  # noqa: E402
from ml_pipeline_engine.dag_builders.annotation.marks import RecurrentSubGraph  # noqa: E402
from ml_pipeline_engine.node import ProcessorBase  # noqa: E402
from ml_pipeline_engine.node import RecurrentProcessor  # noqa: E402

logging.disable(logging.CRITICAL)


class Inp(ProcessorBase):
    async def process(self, x: int) -> int:
        return x


# ---------------------------------------------------------------- variant A
class A(ProcessorBase):
    async def process(self, x: Input(Inp), additional_data: t.Optional[int] = None) -> int:
        return x if additional_data is None else additional_data


class B(ProcessorBase):
    async def process(self, a: Input(A)) -> int:
        if a == 100:
            raise ValueError('B fails in the 2nd iteration')
        return a


class D(RecurrentProcessor):
    async def process(self, b: Input(B)) -> int:
        if b == 1:
            return self.next_iteration(100)
        return b


class C(ProcessorBase):
    async def process(self, d: RecurrentSubGraph(start_node=A, dest_node=D, max_iterations=3)) -> int:
        return d


class E(ProcessorBase):
    async def process(self, c: Input(C)) -> int:
        return c


class Fallback(ProcessorBase):
    async def process(self, x: Input(Inp)) -> int:
        return -1


class OutOneHop(ProcessorBase):
    async def process(self, v: InputOneOf([C, Fallback])) -> int:
        return v


class OutTwoHops(ProcessorBase):
    async def process(self, v: InputOneOf([E, Fallback])) -> int:
        return v


# ---------------------------------------------------------------- variant B
class A2(ProcessorBase):
    async def process(self, x: Input(Inp), additional_data: t.Optional[int] = None) -> int:
        return x if additional_data is None else additional_data


class B2(ProcessorBase):
    async def process(self, a: Input(A2)) -> t.Any:
        # an exception-like VALUE (e.g. "the last problem seen"), nothing is raised
        return {'a': a} if a < 3 else ValueError('last problem seen')


class D2(RecurrentProcessor):
    async def process(self, a: Input(A2), b: Input(B2)) -> int:
        if a < 4:
            return self.next_iteration(a + 1)
        return a


class OutPlain(ProcessorBase):
    async def process(self, d: RecurrentSubGraph(start_node=A2, dest_node=D2, max_iterations=10)) -> int:
        return d


async def one_run(output_node: t.Any) -> str:
    chart = PipelineChart('m', build_dag(input_node=Inp, output_node=output_node))
    try:
        res = await asyncio.wait_for(chart.run(input_kwargs=dict(x=1)), 3)
        return f'value={res.value!r} error={res.error!r}'
    except asyncio.TimeoutError:
        return 'HANG (run still pending after 3s, no node body outstanding)'


async def main() -> int:
    ctl = await one_run(OutOneHop)
    print('control  A: candidate directly below the recurrent dest   expected: value=-1  got:', ctl)
    a = await one_run(OutTwoHops)
    print('defect   A: candidate two hops below the recurrent dest   expected: value=-1  got:', a)
    b = await one_run(OutPlain)
    print('defect   B: no one-of, exception instance returned as a value'
          '   expected: value=4 (or an error result)  got:', b)

    if 'HANG' in a or 'HANG' in b:
        print('DEFECT: the aborted re-iteration leaves the recurrent destination without a result and wakes nobody')
        return 1
    return 0


sys.exit(asyncio.run(main()))
