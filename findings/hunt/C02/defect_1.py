"""
Defect 1: a node cancelled by the bail-out of a failed one-of candidate stays "processed" without a result,
so the fallback candidate that shares it waits forever.

    Out <- InputOneOf([A1, A2])
    A1  <- Input(S), Input(M);   M <- Input(F1)
    A2  <- Input(S)                       # both candidates share the (slow) feature node S
    F1 raises while S is still running.

Run from /tmp/hunt_C02:  /venv/bin/python _hunt/defect_1.py
"""
import os
import sys

sys.path.insert(0, os.getcwd())

import asyncio  # noqa: E402
import logging  # noqa: E402

from ml_pipeline_engine.chart import PipelineChart  # noqa: E402
from ml_pipeline_engine.dag_builders.annotation import build_dag  # noqa: E402
from ml_pipeline_engine.dag_builders.annotation.marks import Input  # noqa: E402
from ml_pipeline_engine.dag_builders.annotation.marks import InputOneOf  # noqa: E402
from ml_pipeline_engine.node import ProcessorBase  # noqa: E402

logging.disable(logging.CRITICAL)

EV = {}
MODE = {'overlap': True}
LOG = []


class Inp(ProcessorBase):
    async def process(self, x: int) -> int:
        return x


class S(ProcessorBase):
    """Shared feature node of both candidates"""

    async def process(self, x: Input(Inp)) -> int:
        LOG.append('S started')
        EV['s_started'].set()
        try:
            await EV['s_go'].wait()
        except asyncio.CancelledError:
            LOG.append('S cancelled by the engine')
            raise
        LOG.append('S finished')
        EV['s_done'].set()
        return x + 1


class F1(ProcessorBase):
    async def process(self, x: Input(Inp)) -> int:
        # overlap: fail while S is still running; control: fail after S has finished
        await (EV['s_started'] if MODE['overlap'] else EV['s_done']).wait()
        raise ValueError('F1 failed')


class M(ProcessorBase):
    async def process(self, f: Input(F1)) -> int:
        return f


class A1(ProcessorBase):
    async def process(self, s: Input(S), m: Input(M)) -> int:
        return s + m


class A2(ProcessorBase):
    async def process(self, s: Input(S)) -> int:
        return s * 10


class Out(ProcessorBase):
    async def process(self, v: InputOneOf([A1, A2])) -> int:
        return v


async def one_run(overlap: bool) -> str:
    MODE['overlap'] = overlap
    LOG.clear()
    for name in ('s_started', 's_go', 's_done'):
        EV[name] = asyncio.Event()

    chart = PipelineChart('m', build_dag(input_node=Inp, output_node=Out))

    async def releaser() -> None:
        await EV['s_started'].wait()
        await asyncio.sleep(0.2)
        EV['s_go'].set()

    rel = asyncio.create_task(releaser())
    try:
        res = await asyncio.wait_for(chart.run(input_kwargs=dict(x=1)), 3)
        return f'value={res.value!r} error={res.error!r}'
    except asyncio.TimeoutError:
        return 'HANG (PipelineChart.run still pending after 3s, all node bodies returned)'
    finally:
        rel.cancel()


async def main() -> int:
    control = await one_run(overlap=False)
    print('control (F1 fails after S finished)  expected: value=20   got:', control, '| node log:', LOG)
    bad = await one_run(overlap=True)
    print('defect  (F1 fails while S is running) expected: value=20   got:', bad, '| node log:', list(LOG))
    if 'HANG' in bad:
        print('DEFECT: S was cancelled by the bail-out of candidate A1, stays processed without a result; '
              'candidate A2 waits for S forever')
        return 1
    return 0


sys.exit(asyncio.run(main()))
