"""
Defect 3: a node body that fails with asyncio.CancelledError (e.g. it awaited a helper task / future that was
cancelled) makes the run hang: the engine task of the node ends in state "cancelled", the run method only
looks at tasks that are done and NOT cancelled, and the node never gets a result.

    Inp -> B -> Out        B awaits a helper task that is cancelled

Run from /tmp/hunt_C02:  /venv/bin/python _hunt/defect_3.py
"""
import os
import sys

sys.path.insert(0, os.getcwd())

import asyncio  # noqa: E402
import logging  # noqa: E402

from ml_pipeline_engine.chart import PipelineChart  # noqa: E402
from ml_pipeline_engine.dag_builders.annotation import build_dag  # noqa: E402
from ml_pipeline_engine.dag_builders.annotation.marks import Input  # noqa: E402
from ml_pipeline_engine.node import ProcessorBase  # noqa: E402

logging.disable(logging.CRITICAL)

MODE = {'cancelled_error': True}


class Inp(ProcessorBase):
    async def process(self, x: int) -> int:
        return x


async def helper() -> int:
    await asyncio.sleep(10)
    return 1


class B(ProcessorBase):
    async def process(self, x: Input(Inp)) -> int:
        if not MODE['cancelled_error']:
            raise ValueError('ordinary failure')

        # A helper task owned by the node is cancelled by somebody else (a watchdog, a closed client session ...)
        task = asyncio.ensure_future(helper())
        asyncio.get_running_loop().call_later(0.05, task.cancel)
        return x + await task  # -> asyncio.CancelledError is raised inside the node body


class Out(ProcessorBase):
    async def process(self, v: Input(B)) -> int:
        return v


async def one_run(cancelled_error: bool) -> str:
    MODE['cancelled_error'] = cancelled_error
    chart = PipelineChart('m', build_dag(input_node=Inp, output_node=Out))
    try:
        res = await asyncio.wait_for(chart.run(input_kwargs=dict(x=1)), 3)
        return f'value={res.value!r} error={res.error!r}'
    except asyncio.TimeoutError:
        return 'HANG (run still pending after 3s, the node body has returned long ago)'
    except BaseException as ex:  # noqa: BLE001
        return f'propagated {ex!r}'


async def main() -> int:
    ctl = await one_run(cancelled_error=False)
    print('control (B raises ValueError)            expected: error result        got:', ctl)
    bad = await one_run(cancelled_error=True)
    print('defect  (B raises asyncio.CancelledError) expected: error result or a propagated CancelledError  got:', bad)
    if 'HANG' in bad:
        print('DEFECT: the failure of B is invisible to DAGRunConcurrentManager.run, the run never completes')
        return 1
    return 0


sys.exit(asyncio.run(main()))
