"""
Defect 2: engine-raised errors (SwitchCaseDoesNotHaveBranchError, OneOfDoesNotHaveResultError) that arise
inside the sub-pipeline of a one-of candidate are not contained by the one-of: they terminate the whole
run although another candidate would succeed.
"""
import os
import sys

sys.path.insert(0, os.path.dirname(os.path.abspath(__file__)))
from _helper import run, verdict  # noqa: E402

from ml_pipeline_engine.dag_builders.annotation.marks import Input, InputOneOf, SwitchCase  # noqa: E402
from ml_pipeline_engine.node import ProcessorBase  # noqa: E402


class Inp(ProcessorBase):
    async def process(self, num: int) -> int:
        return num


class K1(ProcessorBase):
    async def process(self, num: Input(Inp)) -> int:
        return 1


class K2(ProcessorBase):
    async def process(self, num: Input(Inp)) -> int:
        return 2


class C2(ProcessorBase):
    """The healthy alternative"""
    async def process(self, num: Input(Inp)) -> int:
        return 22


# ---- variant A: the first candidate contains a switch whose label has no branch ------------------------
class SwNoBranch(ProcessorBase):
    async def process(self, num: Input(Inp)) -> str:
        return 'zzz'


class C1A(ProcessorBase):
    async def process(self, y: SwitchCase(SwNoBranch, [('a', K1), ('b', K2)])) -> int:
        return y


class OutA(ProcessorBase):
    async def process(self, x: InputOneOf([C1A, C2])) -> tuple:
        return ('OUT', x)


# ---- variant B: the first candidate contains a switch whose selected case has an exhausted one-of ------
class SwB(ProcessorBase):
    async def process(self, num: Input(Inp)) -> str:
        return 'a'


class F1(ProcessorBase):
    async def process(self, num: Input(Inp)) -> int:
        raise ValueError('F1')


class F2(ProcessorBase):
    async def process(self, num: Input(Inp)) -> int:
        raise ValueError('F2')


class KB(ProcessorBase):
    async def process(self, z: InputOneOf([F1, F2])) -> int:
        return z


class C1B(ProcessorBase):
    async def process(self, y: SwitchCase(SwB, [('a', KB), ('b', K2)])) -> int:
        return y


class OutB(ProcessorBase):
    async def process(self, x: InputOneOf([C1B, C2])) -> tuple:
        return ('OUT', x)


def is_defect(res):
    return isinstance(res, (str, tuple)) or res.error is not None or res.value != ('OUT', 22)


shown = False
r = run(Inp, OutA, num=1)
shown |= verdict(
    'switch without a matching branch inside the first one-of candidate',
    "PipelineResult(value=('OUT', 22), error=None) - candidate C2 succeeds",
    r, is_defect(r),
)
r = run(Inp, OutB, num=1)
shown |= verdict(
    'exhausted nested one-of behind a switch case inside the first one-of candidate',
    "PipelineResult(value=('OUT', 22), error=None) - candidate C2 succeeds",
    r, is_defect(r),
)
sys.exit(1 if shown else 0)
