"""
Defect 1: the failure of a REQUIRED node is swallowed when the node happens to be executed first on behalf
of a one-of candidate; the required consumer receives the exception object as an ordinary value and
run() returns a value with error=None.
"""
import asyncio
import os
import sys

sys.path.insert(0, os.path.dirname(os.path.abspath(__file__)))
from _helper import run, verdict  # noqa: E402

from ml_pipeline_engine.dag_builders.annotation.marks import Input, InputOneOf, SwitchCase  # noqa: E402
from ml_pipeline_engine.node import ProcessorBase  # noqa: E402


class Inp(ProcessorBase):
    async def process(self, num: int) -> int:
        return num


class A(ProcessorBase):
    """Always fails. No retries, no default."""
    async def process(self, num: Input(Inp)) -> int:
        raise ValueError('A failed')


class C1(ProcessorBase):
    async def process(self, a: Input(A)) -> int:
        return a


class C2(ProcessorBase):
    async def process(self, num: Input(Inp)) -> int:
        return 2


# ---- variant 1: A is required through the selected case of a switch ------------------------------------
class Sw(ProcessorBase):
    async def process(self, num: Input(Inp)) -> str:
        await asyncio.sleep(0.05)   # the one-of reaches A before the switch is resolved
        return 'a'


class Other(ProcessorBase):
    async def process(self, num: Input(Inp)) -> int:
        return 7


class OutSwitch(ProcessorBase):
    async def process(
        self,
        x: InputOneOf([C1, C2]),
        y: SwitchCase(Sw, [('a', A), ('b', Other)]),
    ) -> tuple:
        return ('OUT', x, y)


# ---- variant 2: A is required through plain Input edges only -------------------------------------------
class S(ProcessorBase):
    async def process(self, num: Input(Inp)) -> int:
        await asyncio.sleep(0.05)
        return 5


class Q(ProcessorBase):
    async def process(self, s: Input(S)) -> int:
        return s


class P(ProcessorBase):
    async def process(self, num: Input(Inp)) -> int:
        return 1


class A2(ProcessorBase):
    async def process(self, p: Input(P)) -> int:
        raise ValueError('A2 failed')


class D1(ProcessorBase):
    async def process(self, a: Input(A2)) -> int:
        return a


class B(ProcessorBase):
    async def process(self, a: Input(A2), q: Input(Q)) -> tuple:
        return ('B', q, a)


class OutPlain(ProcessorBase):
    async def process(self, b: Input(B), x: InputOneOf([D1, C2])) -> tuple:
        return ('OUT', x, b)


def is_defect(res):
    return not isinstance(res, (str, tuple)) and res.error is None


shown = False
r = run(Inp, OutSwitch, num=1)
shown |= verdict(
    'required node (selected switch case) shared with a one-of candidate',
    "PipelineResult(value=None, error=ValueError('A failed')) - A is required by the selected case 'a'",
    r, is_defect(r),
)
r = run(Inp, OutPlain, num=1)
shown |= verdict(
    'required node (plain Input of B) shared with a one-of candidate',
    "PipelineResult(value=None, error=ValueError('A2 failed')) - B requires A2",
    r, is_defect(r),
)
sys.exit(1 if shown else 0)
