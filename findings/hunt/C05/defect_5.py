"""
Defect 5: a one-of candidate that sits two or more hops below a recurrent subgraph never gets rejected when
a node between start_node and dest_node fails during a re-iteration: nobody wakes the one-of, run() hangs
although the next candidate would succeed. (With the candidate directly consuming the recurrent subgraph the
fail-over works - control case.)
"""
import os
import sys
import typing as t

sys.path.insert(0, os.path.dirname(os.path.abspath(__file__)))
from _helper import HANG, run, verdict  # noqa: E402

from ml_pipeline_engine.dag_builders.annotation.marks import Input, InputOneOf, RecurrentSubGraph  # noqa: E402
from ml_pipeline_engine.node import ProcessorBase, RecurrentProcessor  # noqa: E402


class Inp(ProcessorBase):
    async def process(self, num: int) -> int:
        return num


class S(ProcessorBase):
    async def process(self, num: Input(Inp), additional_data: t.Optional[t.Any] = None) -> int:
        return num if additional_data is None else additional_data


class M(ProcessorBase):
    async def process(self, s: Input(S)) -> int:
        if s == 100:
            raise ValueError('M failed on the second iteration')
        return s


class D(RecurrentProcessor):
    async def process(self, m: Input(M)) -> t.Any:
        if m == 1:
            return self.next_iteration(100)
        return m


class RP(ProcessorBase):
    async def process(self, r: RecurrentSubGraph(start_node=S, dest_node=D, max_iterations=3)) -> int:
        return r


class C1(ProcessorBase):
    async def process(self, r: Input(RP)) -> int:
        return r


class C2(ProcessorBase):
    async def process(self, num: Input(Inp)) -> int:
        return 2


class OutDirect(ProcessorBase):
    async def process(self, x: InputOneOf([RP, C2])) -> tuple:
        return ('OUT', x)


class OutTwoHops(ProcessorBase):
    async def process(self, x: InputOneOf([C1, C2])) -> tuple:
        return ('OUT', x)


exp = ('OUT', 2)


def bad(r):
    return r == HANG or isinstance(r, tuple) or r.value != exp or r.error is not None


r = run(Inp, OutDirect, timeout=3.0, num=1)
verdict('control: the candidate consumes the recurrent subgraph directly', f'value={exp}, error=None', r, bad(r))

r = run(Inp, OutTwoHops, timeout=3.0, num=1)
shown = verdict(
    'candidate C1 -> RP -> recurrent(S..D), M fails in the second iteration',
    f'PipelineResult(value={exp}, error=None) - fail over to C2',
    r, bad(r),
)
sys.exit(1 if shown else 0)
