"""Shared helper for the defect scripts (run them from /tmp/hunt_C05)."""
import asyncio
import logging
import os
import sys

sys.path.insert(0, os.getcwd())

from ml_pipeline_engine.chart import PipelineChart  # noqa: E402
from ml_pipeline_engine.dag_builders.annotation import build_dag  # noqa: E402

logging.disable(logging.CRITICAL)

HANG = 'HANG'


def run(input_node, output_node, timeout=3.0, event_managers=(), **input_kwargs):
    """Returns PipelineResult, the string HANG, or ('RAISED', exc)."""

    async def _main():
        chart = PipelineChart('hunt', build_dag(input_node=input_node, output_node=output_node),
                              event_managers=list(event_managers))
        try:
            return await asyncio.wait_for(chart.run(input_kwargs=input_kwargs), timeout)
        except asyncio.TimeoutError:
            return HANG
        except Exception as ex:  # noqa: BLE001
            return ('RAISED', ex)

    return asyncio.run(_main())


def verdict(name, expected, observed, defect_shown):
    print(f'[{name}]')
    print(f'  expected: {expected}')
    print(f'  observed: {observed}')
    print(f'  -> {"DEFECT REPRODUCED" if defect_shown else "ok (defect not shown)"}')
    return defect_shown
