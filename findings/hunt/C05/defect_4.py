"""
Defect 4: when a one-of candidate is rejected, the scheduler cancels every task the candidate's sub-dag
has started - including the task that is executing a node which is ALSO required outside of the candidate.
The (contained) failure of A therefore destroys the healthy, required node B:
  variant 1 - B is never computed, run() never returns (hang);
  variant 2 - a second requester of B republishes None, run() returns a value built from None.
"""
import asyncio
import os
import sys

sys.path.insert(0, os.path.dirname(os.path.abspath(__file__)))
from _helper import HANG, run, verdict  # noqa: E402

from ml_pipeline_engine.dag_builders.annotation.marks import Input, InputOneOf, SwitchCase  # noqa: E402
from ml_pipeline_engine.node import ProcessorBase  # noqa: E402


class Inp(ProcessorBase):
    async def process(self, num: int) -> int:
        return num


class A(ProcessorBase):
    """Fails quickly; only the first one-of candidate needs it"""
    async def process(self, num: Input(Inp)) -> int:
        await asyncio.sleep(0.01)
        raise ValueError('A failed')


class X(ProcessorBase):
    async def process(self, a: Input(A)) -> int:
        return a


class C2(ProcessorBase):
    async def process(self, num: Input(Inp)) -> int:
        return 2


# ---- variant 1: B is additionally required through the selected case of a (slow) switch ----------------
class B(ProcessorBase):
    """Healthy, a bit slower than A"""
    async def process(self, num: Input(Inp)) -> str:
        await asyncio.sleep(0.1)
        return 'B-value'


class C1(ProcessorBase):
    async def process(self, b: Input(B), x: Input(X)) -> int:
        return 1


class Sw(ProcessorBase):
    async def process(self, num: Input(Inp)) -> str:
        await asyncio.sleep(0.3)
        return 'b'


class Other(ProcessorBase):
    async def process(self, num: Input(Inp)) -> str:
        return 'other'


class OutSwitch(ProcessorBase):
    async def process(
        self,
        m: SwitchCase(Sw, [('b', B), ('o', Other)]),
        x: InputOneOf([C1, C2]),
    ) -> tuple:
        return ('OUT', x, m)


# ---- variant 2: B2 is additionally required through plain Input edges ----------------------------------
class P(ProcessorBase):
    async def process(self, num: Input(Inp)) -> int:
        return 1


class B2(ProcessorBase):
    async def process(self, p: Input(P)) -> str:
        await asyncio.sleep(0.1)
        return 'B-value'


class S(ProcessorBase):
    async def process(self, num: Input(Inp)) -> int:
        await asyncio.sleep(0.3)
        return 5


class Q(ProcessorBase):
    async def process(self, s: Input(S)) -> int:
        return s


class D1(ProcessorBase):
    async def process(self, x: Input(X), b: Input(B2)) -> int:
        return 1


class M(ProcessorBase):
    async def process(self, b: Input(B2), q: Input(Q)) -> tuple:
        return ('M', q, b)


class OutPlain(ProcessorBase):
    async def process(self, m: Input(M), x: InputOneOf([D1, C2])) -> tuple:
        return ('OUT', x, m)


shown = False

exp = ('OUT', 2, 'B-value')
r = run(Inp, OutSwitch, timeout=3.0, num=1)
shown |= verdict(
    'B shared between a rejected candidate and the selected switch case',
    f'PipelineResult(value={exp}, error=None) - only A failed and the one-of has the alternative C2',
    r, r == HANG or isinstance(r, tuple) or r.value != exp or r.error is not None,
)

exp = ('OUT', 2, ('M', 5, 'B-value'))
r = run(Inp, OutPlain, timeout=3.0, num=1)
shown |= verdict(
    'B2 shared between a rejected candidate and the required node M',
    f'PipelineResult(value={exp}, error=None)',
    r, r == HANG or isinstance(r, tuple) or r.value != exp or r.error is not None,
)
sys.exit(1 if shown else 0)
