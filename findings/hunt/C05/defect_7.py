"""
Defect 7 (minor): a switch node whose label value is unhashable (e.g. a list) makes the engine report its own
lookup error TypeError("unhashable type: 'list'") instead of SwitchCaseDoesNotHaveBranchError.
"""
import os
import sys

sys.path.insert(0, os.path.dirname(os.path.abspath(__file__)))
from _helper import run, verdict  # noqa: E402

from ml_pipeline_engine.dag.errors import SwitchCaseDoesNotHaveBranchError  # noqa: E402
from ml_pipeline_engine.dag_builders.annotation.marks import Input, SwitchCase  # noqa: E402
from ml_pipeline_engine.node import ProcessorBase  # noqa: E402


class Inp(ProcessorBase):
    async def process(self, num: int) -> int:
        return num


class Sw(ProcessorBase):
    async def process(self, num: Input(Inp)) -> list:
        return ['k']


class K(ProcessorBase):
    async def process(self, num: Input(Inp)) -> str:
        return 'K-value'


class Other(ProcessorBase):
    async def process(self, num: Input(Inp)) -> str:
        return 'other'


class Out(ProcessorBase):
    async def process(self, m: SwitchCase(Sw, [('k', K), ('o', Other)])) -> tuple:
        return ('OUT', m)


r = run(Inp, Out, num=1)
shown = verdict(
    'switch label is a list',
    "error=SwitchCaseDoesNotHaveBranchError(... label ['k'])",
    r,
    isinstance(r, (tuple, str)) or not isinstance(r.error, SwitchCaseDoesNotHaveBranchError),
)
sys.exit(1 if shown else 0)
