"""
Defect 3: a node that merely RETURNS an exception instance (a legal python value) is classified as failed
as soon as it is looked at from a one-of scope. No node fails, yet run() reports OneOfDoesNotHaveResultError.
The very same sub-pipeline consumed through a plain Input yields a value.
"""
import os
import sys

sys.path.insert(0, os.path.dirname(os.path.abspath(__file__)))
from _helper import run, verdict  # noqa: E402

from ml_pipeline_engine.dag_builders.annotation.marks import Input, InputOneOf  # noqa: E402
from ml_pipeline_engine.node import ProcessorBase  # noqa: E402


class Inp(ProcessorBase):
    async def process(self, num: int) -> int:
        return num


class Validate(ProcessorBase):
    """Succeeds. Its *value* is an exception instance (e.g. a collected validation problem)."""
    async def process(self, num: Input(Inp)) -> object:
        return ValueError('field x is suspicious')


class C1(ProcessorBase):
    async def process(self, v: Input(Validate)) -> tuple:
        return ('C1', repr(v))


class OutPlain(ProcessorBase):
    async def process(self, x: Input(C1)) -> tuple:
        return ('OUT', x)


class OutOneOf(ProcessorBase):
    async def process(self, x: InputOneOf([C1])) -> tuple:
        return ('OUT', x)


expected_value = ('OUT', ('C1', "ValueError('field x is suspicious')"))

r = run(Inp, OutPlain, num=1)
verdict('control: consumed through Input', f'value={expected_value}, error=None', r,
        isinstance(r, (str, tuple)) or r.error is not None)

r = run(Inp, OutOneOf, num=1)
shown = verdict(
    'same sub-pipeline consumed through InputOneOf',
    f'value={expected_value}, error=None (no node raised anything)',
    r, isinstance(r, (str, tuple)) or r.error is not None,
)
sys.exit(1 if shown else 0)
