"""
Defect 6 (minor): lifecycle hooks can change the verdict and make PipelineChart.run raise.
 - on_pipeline_complete raising after a SUCCESSFUL run: the hook is called a second time with a contradicting
   error result and run() itself raises the hook's exception (an Exception subclass).
 - on_node_complete raising after a successful node: the node is recorded as failed and the hook's exception is
   reported as the pipeline error although no node failed.
"""
import asyncio
import os
import sys

sys.path.insert(0, os.path.dirname(os.path.abspath(__file__)))
from _helper import run, verdict  # noqa: E402

from ml_pipeline_engine.dag_builders.annotation.marks import Input  # noqa: E402
from ml_pipeline_engine.node import ProcessorBase  # noqa: E402


class Inp(ProcessorBase):
    async def process(self, num: int) -> int:
        return num


class Out(ProcessorBase):
    async def process(self, num: Input(Inp)) -> int:
        return num + 1


calls = []


class CompleteHookFails:
    async def on_pipeline_complete(self, ctx, result):  # noqa: ANN001
        calls.append(result)
        raise RuntimeError('metrics backend is down')


class NodeHookFails:
    async def on_node_complete(self, ctx, node_id, error):  # noqa: ANN001
        if node_id.endswith('Inp') and error is None:
            raise RuntimeError('metrics backend is down')


shown = False
r = run(Inp, Out, event_managers=[CompleteHookFails], num=1)
shown |= verdict(
    'on_pipeline_complete raises',
    'run() returns a PipelineResult (value=2, error=None) and never raises; the hook is called once',
    f'{r}; hook calls: {calls}',
    isinstance(r, tuple) or len(calls) != 1,
)
r = run(Inp, Out, event_managers=[NodeHookFails], num=1)
shown |= verdict(
    'on_node_complete raises after a successful node',
    'PipelineResult(value=2, error=None) - no node failed',
    r,
    isinstance(r, (tuple, str)) or r.error is not None,
)
sys.exit(1 if shown else 0)
