"""
Defect 1: a case whose label is falsy ('' / 0 / False / None) is executed although it is not selected,
and its failure fails the run.

  Inp -> Dec (returns 'a')
  Out(v: SwitchCase(Dec, [('a', A), (<falsy label>, B)]))      B raises

Expected: Dec returns 'a' -> only A runs, Out receives 'A', B is never executed.
"""
import asyncio
import sys

from common import Input, SwitchCase, node, run


async def main() -> int:
    bad = 0
    for falsy in ['', 0, False, None]:
        def boom(x):
            raise RuntimeError('B is the NON-selected case and must not run')

        Inp = node('Inp', lambda x: x, x=int)
        Dec = node('Dec', lambda x: 'a', x=Input(Inp))
        A = node('A', lambda x: 'A', x=Input(Inp))
        B = node('B', boom, x=Input(Inp))
        Out = node('Out', lambda v: v, v=SwitchCase(Dec, [('a', A), (falsy, B)]))

        value, error, executed = await run(Inp, Out, x=1)
        print(f'label {falsy!r:6}: expected value=A, error=None, B not executed')
        print(f'              got      value={value!r}, error={error!r}, executed={executed}')
        if 'B' in executed or value != 'A':
            bad += 1

    # control: the same pipeline with a truthy label behaves
    Inp = node('Inp', lambda x: x, x=int)
    Dec = node('Dec', lambda x: 'a', x=Input(Inp))
    A = node('A', lambda x: 'A', x=Input(Inp))
    B = node('B', lambda x: 1 / 0, x=Input(Inp))
    Out = node('Out', lambda v: v, v=SwitchCase(Dec, [('a', A), ('b', B)]))
    print("control label 'b':", await run(Inp, Out, x=1))

    print('DEFECT SHOWN' if bad else 'no defect')
    return 1 if bad else 0


sys.exit(asyncio.run(main()))
