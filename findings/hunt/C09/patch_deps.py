# triage-only monkeypatch (library source untouched): switch readiness ignores case edges in non-recurrent dags
import networkx as nx
from ml_pipeline_engine.dag.manager import DAGRunConcurrentManager as M
from ml_pipeline_engine.dag.enums import EdgeField
def _deps(self, dag, node_id):
    preds = set(self.dag.graph.predecessors(node_id))
    if self._is_switch(node_id) and not dag.is_recurrent:
        preds = {p for p in preds if not self.dag.graph.edges[p, node_id].get(EdgeField.case_branch)}
    return set(dag.nodes) & preds
M._get_node_dependencies = _deps
