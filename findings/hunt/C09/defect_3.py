r"""
Defect 3: the selected case of a switch is already being computed for another consumer (a one-of candidate);
that candidate is rejected because a sibling dependency failed, the engine cancels the in-flight case node,
and the switch "reuses" a computation that will never finish: the run hangs, or (other timing) the switch
consumer silently receives None instead of the value of the case.

  H(v: InputOneOf([P1, P2]))         P1(m: Input(M), c: Input(C));  M(f: Input(F));  F fails after 50 ms
                                     P2 -> 'P2'
  K(v: SwitchCase(Dec, [('c', C), ('b', B)]))   Dec returns 'c';   C needs 300 ms and never fails
  Out(h: Input(H), k: Input(K))

Expected: candidate P1 fails (F), P2 wins -> h == 'P2';  Dec selects C, C succeeds -> k == 'K got C'.
"""
import asyncio
import sys

from common import Input, InputOneOf, SwitchCase, node, run


def build(dec_delay):
    async def f(x):
        await asyncio.sleep(0.05)
        raise RuntimeError('F fails')

    async def c(x):
        await asyncio.sleep(0.3)
        return 'C'

    async def dec(x):
        if dec_delay:
            await asyncio.sleep(dec_delay)
        return 'c'

    Inp = node('Inp', lambda x: x, x=int)
    F = node('F', f, x=Input(Inp))
    C = node('C', c, x=Input(Inp))
    M = node('M', lambda f: 'M', f=Input(F))
    P1 = node('P1', lambda m, c: 'P1', m=Input(M), c=Input(C))
    P2 = node('P2', lambda x: 'P2', x=Input(Inp))
    H = node('H', lambda v: v, v=InputOneOf([P1, P2]))
    Dec = node('Dec', dec, x=Input(Inp))
    B = node('B', lambda x: 'B', x=Input(Inp))
    K = node('K', lambda v: f'K got {v}', v=SwitchCase(Dec, [('c', C), ('b', B)]))
    Out = node('Out', lambda h, k: (h, k), h=Input(H), k=Input(K))
    return Inp, Out


async def main() -> int:
    bad = 0
    expected = ('P2', 'K got C')
    for title, dec_delay in (('switch resolved 100 ms after C was started by the candidate', 0.1),
                             ('switch resolved in the same tick as the candidate starts C', 0)):
        Inp, Out = build(dec_delay)
        value, error, executed = await run(Inp, Out, timeout=3, x=1)
        print(f'{title}:')
        print(f'    expected value={expected}, error=None')
        print(f'    got      value={value!r}, error={error!r}, executed={executed}')
        if value != expected:
            bad += 1

    print('DEFECT SHOWN' if bad else 'no defect')
    return 1 if bad else 0


sys.exit(asyncio.run(main()))
