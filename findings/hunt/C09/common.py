"""Shared helpers for the defect scripts (public API only, library untouched)."""
import asyncio
import logging
import os
import sys

sys.path.insert(0, os.path.dirname(os.path.dirname(os.path.abspath(__file__))))

from ml_pipeline_engine.chart import PipelineChart  # noqa: E402
from ml_pipeline_engine.dag_builders.annotation import build_dag  # noqa: E402
from ml_pipeline_engine.dag_builders.annotation.marks import Input  # noqa: E402,F401
from ml_pipeline_engine.dag_builders.annotation.marks import InputOneOf  # noqa: E402,F401
from ml_pipeline_engine.dag_builders.annotation.marks import SwitchCase  # noqa: E402,F401
from ml_pipeline_engine.node import ProcessorBase  # noqa: E402

if not os.environ.get('LOG'):
    logging.disable(logging.CRITICAL)
else:
    logging.basicConfig(level=logging.DEBUG)

calls = []


def node(name_, fn, **deps):
    """Build a ProcessorBase subclass `name_` whose async process(**deps) records the call and returns fn(**kwargs)."""

    async def process(self, **kwargs):
        calls.append(name_)
        result = fn(**kwargs)
        if asyncio.iscoroutine(result):
            result = await result
        return result

    process.__annotations__ = dict(deps)
    return type(name_, (ProcessorBase,), {'process': process, 'name': name_})


async def run(inp, out, timeout=3, artifact_store=None, **input_kwargs):
    """Returns (value, error, executed nodes); value == 'HANG' when chart.run did not finish in `timeout` seconds."""
    calls.clear()
    chart = PipelineChart('hunt', build_dag(input_node=inp, output_node=out), artifact_store=artifact_store)
    try:
        res = await asyncio.wait_for(chart.run(input_kwargs=input_kwargs), timeout)
        return res.value, res.error, list(calls)
    except asyncio.TimeoutError:
        return 'HANG', None, list(calls)
