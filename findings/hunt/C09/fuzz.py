from lab import *
import random, hashlib, sys
from ml_pipeline_engine.dag.errors import SwitchCaseDoesNotHaveBranchError
if os.environ.get("PATCH"): import patch_deps

LABELS = ['a', 'b', 'c']

def val(name, kwargs):
    h = hashlib.md5(repr((name, sorted(kwargs.items()))).encode()).digest()[0]
    return LABELS[h % 3]

def gen(rng, n):
    specs = {0: {}}  # idx -> {param: ('in', j) | ('sw', d, [(l, c)], name)}
    for i in range(1, n):
        params = {}
        for p in range(rng.choice([1, 1, 2, 3])):
            if rng.random() < 0.5 or i < 3:
                params[f'p{p}'] = ('in', rng.randrange(0, i))
            else:
                d = rng.randrange(0, i)
                labs = rng.sample(LABELS, rng.choice([2, 3, 3]))
                cases = [(l, rng.randrange(0, i)) for l in labs]
                # avoid same node under two labels / decider as case / (known edge limitation)
                if len({c for _, c in cases}) < len(cases) or d in {c for _, c in cases}:
                    params[f'p{p}'] = ('in', rng.randrange(0, i)); continue
                params[f'p{p}'] = ('sw', d, cases, None)
        # avoid two params from the same source node (known 4)
        srcs = [v[1] for v in params.values() if v[0] == 'in']
        if len(srcs) != len(set(srcs)):
            params = {'p0': ('in', rng.randrange(0, i))}
        specs[i] = params
    return specs

def reference(specs, out, x):
    memo = {}; log = {}
    def ev(i):
        if i in memo: return memo[i]
        if i == 0:
            kw = {'x': x}
        else:
            kw = {}
            for p, s in specs[i].items():
                if s[0] == 'in': kw[p] = ev(s[1])
                else:
                    lab = ev(s[1])
                    m = dict(s[2])
                    if lab not in m: raise SwitchCaseDoesNotHaveBranchError(lab)
                    kw[p] = ev(m[lab])
        log[i] = kw
        memo[i] = val(f'N{i}', kw)
        return memo[i]
    try:
        return ev(out), None, log
    except SwitchCaseDoesNotHaveBranchError as e:
        return None, e, log

def build(specs, rng, elog):
    classes = {}
    for i in sorted(specs):
        deps = {}
        if i == 0:
            deps = {'x': str}
        else:
            for p, s in specs[i].items():
                if s[0] == 'in': deps[p] = Input(classes[s[1]])
                else: deps[p] = SwitchCase(classes[s[1]], [(l, classes[c]) for l, c in s[2]], name=s[3])
        delay = rng.choice([0, 0, 0.001, 0.005, 0.01, 0.02])
        def mk(i, delay):
            async def fn(s, **kw):
                if delay: await asyncio.sleep(delay)
                if i in elog: elog.setdefault('dup', []).append(i)
                elog[i] = kw
                return val(f'N{i}', kw)
            return fn
        classes[i] = node(f'N{i}', mk(i, delay), **deps)
    return classes

async def one(seed):
    rng = random.Random(seed)
    n = rng.randrange(4, 12)
    specs = gen(rng, n)
    out = n - 1
    x = rng.choice(LABELS)
    rv, rerr, rlog = reference(specs, out, x)
    elog = {}
    classes = build(specs, rng, elog)
    v, err, _ = await run(classes[0], classes[out], timeout=5, x=x)
    problems = []
    if v == 'HANG': problems.append('HANG')
    elif rerr is not None:
        if not isinstance(err, SwitchCaseDoesNotHaveBranchError): problems.append(f'expected switch error got {v!r} {err!r}')
    else:
        if err is not None or v != rv: problems.append(f'expected {rv!r} got {v!r} {err!r}')
    if 'dup' in elog: problems.append(f'dup {elog.pop("dup")}')
    if rerr is None:
        for i, kw in elog.items():
            if i not in rlog: problems.append(f'N{i} executed but not needed')
            elif rlog[i] != kw: problems.append(f'N{i} kwargs {kw} expected {rlog[i]}')
    if problems:
        print('SEED', seed, problems); print(specs, 'out', out, 'x', x)
    return bool(problems)

async def main():
    a, b = int(sys.argv[1]), int(sys.argv[2])
    bad = 0
    for seed in range(a, b):
        bad += await one(seed)
    print('bad', bad)
asyncio.run(main())
