import asyncio, sys, os, logging
sys.path.insert(0, os.path.dirname(os.path.dirname(os.path.abspath(__file__))))
from ml_pipeline_engine.chart import PipelineChart
from ml_pipeline_engine.dag_builders.annotation import build_dag
from ml_pipeline_engine.dag_builders.annotation.marks import Input, SwitchCase, InputOneOf, RecurrentSubGraph
from ml_pipeline_engine.node import ProcessorBase, RecurrentProcessor
from ml_pipeline_engine.parallelism import threads_pool_registry
threads_pool_registry.auto_init()
if not os.environ.get('LOG'):
    logging.disable(logging.CRITICAL)
else:
    logging.basicConfig(level=logging.DEBUG)

calls = []

def node(name_, fn, base=ProcessorBase, attrs=None, **deps):
    async def process(self, **kwargs):
        calls.append(name_)
        r = fn(self, **kwargs)
        if asyncio.iscoroutine(r):
            r = await r
        return r
    process.__annotations__ = dict(deps)
    return type(name_, (base,), {'process': process, 'name': name_, **(attrs or {})})

async def run(inp, out, timeout=5, **kw):
    calls.clear()
    chart = PipelineChart('m', build_dag(input_node=inp, output_node=out))
    try:
        r = await asyncio.wait_for(chart.run(input_kwargs=kw), timeout)
        return r.value, r.error, list(calls)
    except asyncio.TimeoutError:
        return 'HANG', None, list(calls)

import tempfile, functools
from ml_pipeline_engine.artifact_store.store.filesystem import FileSystemArtifactStore

def fs_store():
    d = tempfile.mkdtemp(prefix='hunt_store_')
    class Store(FileSystemArtifactStore):
        saves = []
        def __init__(self, ctx):
            super().__init__(ctx, artifact_dir=d)
        async def save(self, node_id, data, *a, **k):
            Store.saves.append(node_id)
            return await super().save(node_id, data, *a, **k)
    return Store

class Events:
    log = []
    async def on_node_start(self, ctx, node_id):
        Events.log.append(('start', node_id))
    async def on_node_complete(self, ctx, node_id, error):
        Events.log.append(('complete', node_id, error))

async def run2(inp, out, timeout=5, store=None, events=False, **kw):
    calls.clear(); Events.log.clear()
    chart = PipelineChart('m', build_dag(input_node=inp, output_node=out), artifact_store=store, event_managers=[Events] if events else [])
    try:
        r = await asyncio.wait_for(chart.run(input_kwargs=kw), timeout)
        return r.value, r.error, list(calls)
    except asyncio.TimeoutError:
        return 'HANG', None, list(calls)
