r"""
Reproduced, but NOT counted as separate defects because the root cause is shared with an already known one.

V1 (relative of known 2): switch inside a one-of candidate, a DEPENDENCY of the selected case fails -> run hangs
    (the case sub-dag inherits is_oneof, aborts silently, the candidate never becomes ready nor "failed").
V2 (relative of known 4, one nx.DiGraph edge per node pair): the same node under two labels -> first label is lost.
V3 (relative of known 4): the switch (decider) node is also one of its cases -> edge carries is_switch AND case_branch,
    the filter removes it from every reduced dag, the main dag is empty, nothing is executed and the run hangs.
"""
import asyncio
import sys

from common import Input, InputOneOf, SwitchCase, node, run


async def main() -> int:
    Inp = node('Inp', lambda x: x, x=str)
    Dec = node('Dec', lambda x: x, x=Input(Inp))
    A = node('A', lambda x: 'A', x=Input(Inp))
    B = node('B', lambda x: 'B', x=Input(Inp))

    F = node('F', lambda x: 1 / 0, x=Input(Inp))
    C = node('C', lambda x: 'C', x=Input(F))
    P = node('P', lambda v: 'P:' + str(v), v=SwitchCase(Dec, [('a', C), ('b', B)]))
    Q = node('Q', lambda x: 'Q', x=Input(Inp))
    Out = node('Out', lambda v: v, v=InputOneOf([P, Q]))
    print("V1 expected 'Q'           got", await run(Inp, Out, x='a'))

    Out = node('Out', lambda v: v, v=SwitchCase(Dec, [('a', A), ('b', A), ('c', B)]))
    print("V2 label 'a' expected 'A' got", await run(Inp, Out, x='a'))
    print("V2 label 'b' expected 'A' got", await run(Inp, Out, x='b'))

    Out = node('Out', lambda v: v, v=SwitchCase(Dec, [('raw', Dec), ('b', B)]))
    print("V3 label 'b' expected 'B' got", await run(Inp, Out, x='b'))
    return 0


sys.exit(asyncio.run(main()))
