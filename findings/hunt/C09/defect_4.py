r"""
Defect 4: "a selected case already computed for another consumer is reused" - with the write-once
FileSystemArtifactStore the reuse fails the run.  A node of the selected case's sub-pipeline that is requested by
two scopes (two switches selecting the same case, or a switch + the enclosing dag) is scheduled twice; the second
requester does not execute it again, but publishes and SAVES its result a second time ->
ArtifactFileAlreadyExists, the whole run fails.  No recurrent subgraph is involved.

  variant A                                       variant B (= tests/dag/switch_case/test_concurrent_switch.py)
  K1(v: SwitchCase(D1, [('c', C), ('b', B)]))     Out(a: SwitchCase(D1, [('ident', IdentSub)]),
  K2(v: SwitchCase(D2, [('c', C), ('b', B)]))         b: SwitchCase(D2, [('double', Double)]))
  C(x: Input(X)); X slow                          IdentSub(v: third); Double(v: third)
  Out(a: Input(K1), b: Input(K2))                 third = SwitchCase(TD, [('ident', T)])

Expected: A -> ('C:X', 'C:X'); B -> 3 (x=1); every node saved exactly once.
"""
import asyncio
import sys
import tempfile
import warnings

from common import Input, SwitchCase, node, run
from ml_pipeline_engine.artifact_store.store.filesystem import FileSystemArtifactStore

warnings.simplefilter('ignore')


def make_store():
    directory = tempfile.mkdtemp(prefix='hunt_c09_')

    class Store(FileSystemArtifactStore):
        saves = []

        def __init__(self, ctx):
            super().__init__(ctx, artifact_dir=directory)

        async def save(self, node_id, data, *args, **kwargs):
            Store.saves.append(node_id)
            return await super().save(node_id, data, *args, **kwargs)

    return Store


async def variant_a():
    async def slow(x):
        await asyncio.sleep(0.2)
        return 'X'

    async def d2(x):
        await asyncio.sleep(0.1)
        return 'c'

    Inp = node('Inp', lambda x: x, x=int)
    X = node('X', slow, x=Input(Inp))
    C = node('C', lambda x: 'C:' + x, x=Input(X))
    B = node('B', lambda x: 'B', x=Input(Inp))
    D1 = node('D1', lambda x: 'c', x=Input(Inp))
    D2 = node('D2', d2, x=Input(Inp))
    K1 = node('K1', lambda v: v, v=SwitchCase(D1, [('c', C), ('b', B)]))
    K2 = node('K2', lambda v: v, v=SwitchCase(D2, [('c', C), ('b', B)]))
    Out = node('Out', lambda a, b: (a, b), a=Input(K1), b=Input(K2))
    return Inp, Out, ('C:X', 'C:X')


async def variant_b():
    # the shape of tests/dag/switch_case/test_concurrent_switch.py: two selected cases share an inner (unnamed) switch
    Inp = node('Inp', lambda x: x, x=int)
    T = node('T', lambda x: x, x=Input(Inp))
    TD = node('TD', lambda x: 'ident', x=Input(Inp))
    third = SwitchCase(TD, [('ident', T)])
    IdentSub = node('IdentSub', lambda v: v, v=third)
    Double = node('Double', lambda v: v * 2, v=third)
    D1 = node('D1', lambda x: 'ident', x=Input(Inp))
    D2 = node('D2', lambda x: 'double', x=Input(Inp))
    Out = node('Out', lambda a, b: a + b,
               a=SwitchCase(D1, [('ident', IdentSub)]), b=SwitchCase(D2, [('double', Double)]))
    return Inp, Out, 3


async def main() -> int:
    bad = 0
    for name, variant in (('A (two switches select the same case)', variant_a),
                          ('B (two selected cases share an inner switch)', variant_b)):
        Inp, Out, expected = await variant()

        value, error, executed = await run(Inp, Out, x=1)
        print(f'variant {name}')
        print(f'    no-op store      : value={value!r}, error={error!r}')

        store = make_store()
        value, error, executed = await run(Inp, Out, artifact_store=store, x=1)
        dup = sorted({n for n in store.saves if store.saves.count(n) > 1})
        print(f'    filesystem store : expected value={expected}, error=None, each node saved once')
        print(f'                       got value={value!r}, error={error!r}, executed={executed}, saved twice={dup}')
        if value != expected or dup:
            bad += 1

    print('DEFECT SHOWN' if bad else 'no defect')
    return 1 if bad else 0


sys.exit(asyncio.run(main()))
