# fuzz with one-of params (dedicated candidate wrappers, failing leaf candidates) and shared named switches
from lab import *
import random, hashlib, sys
from ml_pipeline_engine.dag.errors import SwitchCaseDoesNotHaveBranchError
if os.environ.get("PATCH"): import patch_deps
LABELS = ['a', 'b', 'c']
def val(name, kwargs):
    h = hashlib.md5(repr((name, sorted(kwargs.items()))).encode()).digest()[0]
    return LABELS[h % 3]

class Fail(Exception): pass

def gen(rng, n):
    specs = {0: {}}
    has_oneof = {0: False}
    named = []
    extra = {}  # wrapper candidates: name -> spec
    for i in range(1, n):
        params = {}
        ho = False
        for p in range(rng.choice([1, 1, 2, 3])):
            r = rng.random()
            if r < 0.4 or i < 3:
                params[f'p{p}'] = ('in', rng.randrange(0, i))
            elif r < 0.8:
                if named and rng.random() < 0.3:
                    params[f'p{p}'] = rng.choice(named); continue
                d = rng.randrange(0, i)
                labs = rng.sample(LABELS, rng.choice([2, 3, 3]))
                cases = [(l, rng.randrange(0, i)) for l in labs]
                if len({c for _, c in cases}) < len(cases) or d in {c for _, c in cases}:
                    params[f'p{p}'] = ('in', rng.randrange(0, i)); continue
                nm = None
                if rng.random() < 0.3:
                    nm = f'sw{i}_{p}'
                params[f'p{p}'] = ('sw', d, cases, nm)
                if nm: named.append(params[f'p{p}'])
            else:
                cands = []
                for k in range(rng.choice([2, 3])):
                    if rng.random() < 0.4:
                        cands.append(('fail', f'F{i}_{p}_{k}'))
                    else:
                        choices = [j for j in range(0, i) if not has_oneof[j]]
                        j = rng.choice(choices)
                        cands.append(('wrap', f'W{i}_{p}_{k}', j))
                params[f'p{p}'] = ('oneof', cands)
                ho = True
        srcs = [v[1] for v in params.values() if v[0] == 'in']
        nms = [v[3] for v in params.values() if v[0] == 'sw' and v[3]]
        if len(srcs) != len(set(srcs)) or len(nms) != len(set(nms)):
            params = {'p0': ('in', rng.randrange(0, i))}; ho = False
        specs[i] = params
        has_oneof[i] = ho or any(has_oneof[v[1]] for v in params.values() if v[0] == 'in') or any(
            has_oneof[v[1]] or any(has_oneof[c] for _, c in v[2]) for v in params.values() if v[0] == 'sw')
    return specs

def reference(specs, out, x):
    memo = {}; log = {}
    def ev(i):
        if i in memo:
            if isinstance(memo[i], Exception): raise memo[i]
            return memo[i]
        try:
            if i == 0:
                kw = {'x': x}
            else:
                kw = {}
                for p, s in specs[i].items():
                    if s[0] == 'in': kw[p] = ev(s[1])
                    elif s[0] == 'sw':
                        lab = ev(s[1])
                        m = dict(s[2])
                        if lab not in m: raise SwitchCaseDoesNotHaveBranchError(lab)
                        kw[p] = ev(m[lab])
                    else:
                        for c in s[1]:
                            if c[0] == 'fail':
                                log[c[1]] = {'p': ev(0)}
                                continue
                            v = ev(c[2])
                            log[c[1]] = {'p': v}
                            kw[p] = val(c[1], {'p': v}); break
                        else:
                            raise Fail('oneof')
            log[f'N{i}'] = kw
            memo[i] = val(f'N{i}', kw)
            return memo[i]
        except Exception as e:
            memo[i] = e; raise
    try:
        return ev(out), None, log
    except Exception as e:
        return None, e, log

def build(specs, rng, elog):
    classes = {}
    def mk(name, delay, fail=False):
        async def fn(s, **kw):
            if delay: await asyncio.sleep(delay)
            if name in elog: elog.setdefault('dup', []).append(name)
            elog[name] = kw
            if fail: raise Fail(name)
            return val(name, kw)
        return fn
    marks = {}
    for i in sorted(specs):
        deps = {}
        if i == 0:
            deps = {'x': str}
        else:
            for p, s in specs[i].items():
                if s[0] == 'in': deps[p] = Input(classes[s[1]])
                elif s[0] == 'sw':
                    if s[3] and s[3] in marks: deps[p] = marks[s[3]]
                    else:
                        deps[p] = SwitchCase(classes[s[1]], [(l, classes[c]) for l, c in s[2]], name=s[3])
                        if s[3]: marks[s[3]] = deps[p]
                else:
                    cs = []
                    for c in s[1]:
                        d = rng.choice([0, 0.001, 0.01])
                        if c[0] == 'fail':
                            cs.append(node(c[1], mk(c[1], d, True), p=Input(classes[0])))
                        else:
                            cs.append(node(c[1], mk(c[1], d), p=Input(classes[c[2]])))
                    deps[p] = InputOneOf(cs)
        delay = rng.choice([0, 0, 0.001, 0.005, 0.01, 0.02])
        classes[i] = node(f'N{i}', mk(f'N{i}', delay), **deps)
    return classes

async def one(seed):
    rng = random.Random(seed)
    n = rng.randrange(4, 12)
    specs = gen(rng, n)
    out = n - 1
    x = rng.choice(LABELS)
    rv, rerr, rlog = reference(specs, out, x)
    elog = {}
    classes = build(specs, rng, elog)
    v, err, _ = await run(classes[0], classes[out], timeout=5, x=x)
    problems = []
    if v == 'HANG': problems.append('HANG')
    elif rerr is not None:
        if err is None: problems.append(f'expected error {rerr!r} got {v!r}')
        elif isinstance(rerr, SwitchCaseDoesNotHaveBranchError) and not isinstance(err, SwitchCaseDoesNotHaveBranchError): problems.append(f'expected switch error got {err!r}')
    else:
        if err is not None or v != rv: problems.append(f'expected {rv!r} got {v!r} {err!r}')
    if 'dup' in elog: problems.append(f'dup {elog.pop("dup")}')
    if rerr is None:
        for i, kw in elog.items():
            if i not in rlog: problems.append(f'{i} executed but not needed')
            elif rlog[i] != kw: problems.append(f'{i} kwargs {kw} expected {rlog[i]}')
    if problems:
        print('SEED', seed, problems); print(specs, 'out', out, 'x', x)
    return bool(problems)

async def main():
    a, b = int(sys.argv[1]), int(sys.argv[2])
    bad = 0
    for seed in range(a, b):
        bad += await one(seed)
    print('bad', bad)
asyncio.run(main())
