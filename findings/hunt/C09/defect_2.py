r"""
Defect 2: scheduler deadlock when a case node of a switch is ALSO needed somewhere else in the same dag
(plain Input of another node) and the topological order puts the switch before that case node.

  Inp -> Dec ------------------(switch)--> K(v: SwitchCase(Dec, [('a', A3), ('b', B)]))
  Inp -> A1 -> A2 -> A3 --(case 'a')-^         \
                      \-> L(a: Input(A3)) ------> Out(k: Input(K), l: Input(L))
  Inp -> B ----------------(case 'b')-^

Expected: x='a' -> Out == ('A3', 'L:A3');  x='b' -> Out == ('B', 'L:A3').  Nothing fails, nothing is slow.
"""
import asyncio
import sys

from common import Input, SwitchCase, node, run


def build(decider_is_input=False):
    Inp = node('Inp', lambda x: x, x=str)
    B = node('B', lambda p: 'B', p=Input(Inp))
    Dec = node('Dec', lambda p: p, p=Input(Inp))
    A1 = node('A1', lambda p: 'A1', p=Input(Inp))
    A2 = node('A2', lambda p: 'A2', p=Input(A1))
    A3 = node('A3', lambda p: 'A3', p=Input(A2))
    K = node('K', lambda v: v, v=SwitchCase(Inp if decider_is_input else Dec, [('a', A3), ('b', B)]))
    L = node('L', lambda a: 'L:' + a, a=Input(A3))
    Out = node('Out', lambda k, l: (k, l), k=Input(K), l=Input(L))
    return Inp, Out


async def main() -> int:
    bad = 0
    for decider_is_input in (False, True):
        for label, expected in (('a', ('A3', 'L:A3')), ('b', ('B', 'L:A3'))):
            Inp, Out = build(decider_is_input)
            value, error, executed = await run(Inp, Out, timeout=3, x=label)
            print(f'decider={"Inp" if decider_is_input else "Dec"} label={label!r}: expected value={expected}, error=None')
            print(f'    got value={value!r}, error={error!r}, executed={executed}')
            if value != expected:
                bad += 1

    # control: the same pipeline without the second consumer of A3 works
    Inp = node('Inp', lambda x: x, x=str)
    B = node('B', lambda p: 'B', p=Input(Inp))
    Dec = node('Dec', lambda p: p, p=Input(Inp))
    A1 = node('A1', lambda p: 'A1', p=Input(Inp))
    A2 = node('A2', lambda p: 'A2', p=Input(A1))
    A3 = node('A3', lambda p: 'A3', p=Input(A2))
    K = node('K', lambda v: v, v=SwitchCase(Dec, [('a', A3), ('b', B)]))
    Out = node('Out', lambda k: k, k=Input(K))
    print('control (A3 only a case):', await run(Inp, Out, x='a'))

    print('DEFECT SHOWN (run hangs)' if bad else 'no defect')
    return 1 if bad else 0


sys.exit(asyncio.run(main()))
