"""
Defect 2: the model name and the pipeline id are joined into the directory of the context unescaped, and the
pipeline id is coerced with str() (FileSystemArtifactStore._ensure_dir).

Several contexts sharing one artifact directory therefore alias each other although their keys differ:
  * (model 'm',   pipeline 'x/y')  and (model 'm/x', pipeline 'y')   -> one directory
  * (model 'm',   pipeline 7)      and (model 'm',   pipeline '7')   -> one directory
  * (model 'm',   pipeline '..')   resolves to the artifact directory itself, pipeline '../..' leaves it
"""
import os
import sys

sys.path.insert(0, os.path.dirname(os.path.dirname(os.path.abspath(__file__))))

import asyncio
import functools
import logging
import pathlib
import tempfile
import warnings

warnings.simplefilter('ignore')
logging.disable(logging.CRITICAL)

from ml_pipeline_engine.artifact_store.errors import ArtifactDoesNotExist
from ml_pipeline_engine.artifact_store.store.filesystem import FileSystemArtifactStore
from ml_pipeline_engine.chart import PipelineChart
from ml_pipeline_engine.dag_builders.annotation import build_dag_single
from ml_pipeline_engine.node import ProcessorBase
from ml_pipeline_engine.parallelism import threads_pool_registry

threads_pool_registry.auto_init()

failures = []


def check(label: str, ok: bool, detail: str) -> None:
    print(('ok      ' if ok else 'DEFECT  ') + label + ': ' + detail)
    if not ok:
        failures.append(label)


class Ctx:
    def __init__(self, model_name, pipeline_id) -> None:
        self.model_name = model_name
        self.pipeline_id = pipeline_id


async def outcome(coro):
    try:
        return 'value', await coro
    except BaseException as ex:  # noqa: BLE001
        return 'raised', ex


async def pair(label, first, second) -> None:
    root = pathlib.Path(tempfile.mkdtemp())
    a = FileSystemArtifactStore(Ctx(*first), root)
    b = FileSystemArtifactStore(Ctx(*second), root)

    await a.save('node', f'saved by {first!r}')

    kind, res = await outcome(b.load('node'))
    check(
        f'{label}: load in context {second!r} after a save in context {first!r}',
        kind == 'raised' and isinstance(res, ArtifactDoesNotExist),
        f'expected ArtifactDoesNotExist, got {kind} {res!r}',
    )
    kind, res = await outcome(b.save('node', f'saved by {second!r}'))
    check(
        f'{label}: first save in context {second!r}',
        kind == 'value',
        f'expected success, got {kind} {res!r}',
    )


async def escape() -> None:
    root = pathlib.Path(tempfile.mkdtemp())
    artifact_dir = root / 'artifacts'
    artifact_dir.mkdir()

    await FileSystemArtifactStore(Ctx('m', 'p'), artifact_dir).save('node', 0)  # the model directory exists
    store = FileSystemArtifactStore(Ctx('m', '../..'), artifact_dir)
    kind, res = await outcome(store.save('node', 1))
    print(f"        save in context ('m', '../..') -> {kind} {res!r}")
    files = sorted(str(f.relative_to(root)) for f in root.rglob('*') if f.is_file())
    check(
        "pipeline id '../..'",
        all(f.startswith('artifacts/') for f in files),
        f'expected every artifact below artifacts/, files relative to its parent: {files}',
    )


async def engine_level() -> None:
    # two charts sharing one artifact directory, (model name, pipeline id) differ only by the place of the separator
    root = pathlib.Path(tempfile.mkdtemp())

    class Node(ProcessorBase):
        name = 'node'

        def process(self, num: int) -> int:
            return num

    def chart(model_name):
        return PipelineChart(
            model_name=model_name,
            entrypoint=build_dag_single(Node),
            artifact_store=functools.partial(FileSystemArtifactStore, artifact_dir=root),
        )

    first = await chart('risk').run(pipeline_id='v2/123', input_kwargs=dict(num=1))
    second = await chart('risk/v2').run(pipeline_id='123', input_kwargs=dict(num=2))
    check(
        "run of chart 'risk' with pipeline id 'v2/123', then run of chart 'risk/v2' with pipeline id '123'",
        first.error is None and second.error is None,
        f'first: value={first.value!r} error={first.error!r}; second: value={second.value!r} error={second.error!r}',
    )


async def main() -> None:
    await pair('separator', ('m', 'x/y'), ('m/x', 'y'))
    await pair('str coercion (an int id is outside the declared PipelineId type, shown for completeness)', ('m', 7), ('m', '7'))
    await escape()
    await engine_level()


asyncio.run(main())
print()
print(f'{len(failures)} violated expectation(s)')
sys.exit(1 if failures else 0)
