"""
Defect 4 (lower severity, JSON format only): a successful save(fmt=JSON) followed by load does not return an equal
value for values that json.dump accepts without complaint, and one kind of JSON-representable string cannot be
saved at all (JSONSerializer.dump: json.dump(obj, fp, indent=4, ensure_ascii=False) into a utf-8 text file).

  * {1: 'a'}            -> save succeeds, load returns {'1': 'a'}
  * {1: 'a', '1': 'b'}  -> save succeeds (file has a duplicate member "1"), load returns {'1': 'b'}: one entry lost
  * (1, 2)              -> save succeeds, load returns [1, 2]
  * 'a\\ud800'          -> json.dumps/json.loads round-trip it, the store raises UnicodeEncodeError because of
                          ensure_ascii=False + encoding='utf-8' (the same value is stored fine with fmt=PICKLE)
"""
import os
import sys

sys.path.insert(0, os.path.dirname(os.path.dirname(os.path.abspath(__file__))))

import asyncio
import json
import pathlib
import tempfile
import warnings

warnings.simplefilter('ignore')

from ml_pipeline_engine.artifact_store.enums import DataFormat
from ml_pipeline_engine.artifact_store.store.filesystem import FileSystemArtifactStore

failures = []


def check(label: str, ok: bool, detail: str) -> None:
    print(('ok      ' if ok else 'DEFECT  ') + label + ': ' + detail)
    if not ok:
        failures.append(label)


class Ctx:
    model_name = 'm'
    pipeline_id = 'p'


async def outcome(coro):
    try:
        return 'value', await coro
    except BaseException as ex:  # noqa: BLE001
        return 'raised', ex


async def main() -> None:
    store = FileSystemArtifactStore(Ctx(), pathlib.Path(tempfile.mkdtemp()))

    values = {
        'int_key': {1: 'a'},
        'clashing_keys': {1: 'a', '1': 'b'},
        'tuple': (1, 2),
    }
    for node_id, value in values.items():
        saved, res = await outcome(store.save(node_id, value, DataFormat.JSON))
        if saved == 'raised':
            # refusing the value would be fine: nothing is stored, nothing is altered
            print(f'ok      save({value!r}, JSON) is refused with {res!r}')
            continue
        loaded = await store.load(node_id)
        check(
            f'save({value!r}, JSON) succeeded, load',
            loaded == value,
            f'expected {value!r}, got {loaded!r}',
        )

    surrogate = 'a\ud800'
    assert json.loads(json.dumps(surrogate)) == surrogate  # representable by the json module
    await store.save('surrogate_pickle', surrogate, DataFormat.PICKLE)
    assert await store.load('surrogate_pickle') == surrogate
    kind, res = await outcome(store.save('surrogate_json', surrogate, DataFormat.JSON))
    check(
        "save('a\\ud800', JSON) (json.dumps / json.loads round-trip this string)",
        kind == 'value' and await store.load('surrogate_json') == surrogate,
        f'expected success, got {kind} {res!r}',
    )


asyncio.run(main())
print()
print(f'{len(failures)} violated expectation(s)')
sys.exit(1 if failures else 0)
