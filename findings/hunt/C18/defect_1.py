"""
Defect 1: the node id is joined into the artifact path unescaped (FileSystemArtifactStore._get_glob / save).

A node id that contains a path separator is resolved by pathlib instead of being used as an exact key:
  * './x' is normalised to 'x'                    -> two distinct node ids alias each other
  * '../<other pipeline>/x'                       -> a key of pipeline q reads/blocks a key of pipeline p
  * an absolute id ('/.../abs')                   -> model name and pipeline id are dropped from the key altogether
  * 'features/age' (a perfectly legal node name)  -> save raises FileNotFoundError, a chart run with this store fails
"""
import os
import sys

sys.path.insert(0, os.path.dirname(os.path.dirname(os.path.abspath(__file__))))

import asyncio
import functools
import pathlib
import tempfile
import warnings

warnings.simplefilter("ignore")
import logging
logging.disable(logging.CRITICAL)

from ml_pipeline_engine.artifact_store.errors import ArtifactAlreadyExists
from ml_pipeline_engine.artifact_store.errors import ArtifactDoesNotExist
from ml_pipeline_engine.artifact_store.store.filesystem import FileSystemArtifactStore
from ml_pipeline_engine.chart import PipelineChart
from ml_pipeline_engine.dag_builders.annotation import build_dag
from ml_pipeline_engine.dag_builders.annotation.marks import Input
from ml_pipeline_engine.node import ProcessorBase
from ml_pipeline_engine.parallelism import threads_pool_registry

threads_pool_registry.auto_init()

failures = []


def check(label: str, ok: bool, detail: str) -> None:
    print(('ok      ' if ok else 'DEFECT  ') + label + ': ' + detail)
    if not ok:
        failures.append(label)


class Ctx:
    def __init__(self, model_name: str, pipeline_id: str) -> None:
        self.model_name = model_name
        self.pipeline_id = pipeline_id


async def outcome(coro):
    try:
        return 'value', await coro
    except BaseException as ex:  # noqa: BLE001
        return 'raised', ex


async def store_level() -> None:
    root = pathlib.Path(tempfile.mkdtemp())
    p = FileSystemArtifactStore(Ctx('m', 'p'), root)
    q = FileSystemArtifactStore(Ctx('m', 'q'), root)

    await p.save('x', 'value of x')

    # (a) './x' was never saved
    kind, res = await outcome(p.load('./x'))
    check(
        "load('./x') after save('x')",
        kind == 'raised' and isinstance(res, ArtifactDoesNotExist),
        f'expected ArtifactDoesNotExist, got {kind} {res!r}',
    )
    kind, res = await outcome(p.save('./x', 'value of ./x'))
    check(
        "save('./x') after save('x')",
        kind == 'value',
        f'expected the save of a new key to succeed, got {kind} {res!r}',
    )

    # (b) a key of pipeline q reaches into pipeline p
    kind, res = await outcome(q.load('../p/x'))
    check(
        "pipeline q: load('../p/x')",
        kind == 'raised' and isinstance(res, ArtifactDoesNotExist),
        f'expected ArtifactDoesNotExist (nothing was saved in pipeline q), got {kind} {res!r}',
    )

    # (c) an absolute node id ignores model name and pipeline id
    absolute = str(root / 'elsewhere')
    await q.save(absolute, 'saved by pipeline q')
    kind, res = await outcome(p.load(absolute))
    check(
        'pipeline p: load(<absolute id>) after pipeline q saved it',
        kind == 'raised' and isinstance(res, ArtifactDoesNotExist),
        f'expected ArtifactDoesNotExist, got {kind} {res!r}; files: '
        f'{sorted(str(f.relative_to(root)) for f in root.rglob("*") if f.is_file())}',
    )

    # (d) a nested id cannot be saved at all
    kind, res = await outcome(p.save('features/age', 42))
    check(
        "save('features/age')",
        kind == 'value',
        f'expected the save to succeed, got {kind} {type(res).__name__}: {res}',
    )


async def engine_level() -> None:
    root = pathlib.Path(tempfile.mkdtemp())

    class Source(ProcessorBase):
        name = 'source'

        def process(self, num: int) -> int:
            return num

    class Age(ProcessorBase):
        name = 'features/age'

        def process(self, num: Input(Source)) -> int:
            return num + 1

    def make_chart(store):
        return PipelineChart(
            model_name='model',
            entrypoint=build_dag(input_node=Source, output_node=Age),
            artifact_store=store,
        )

    plain = await make_chart(None).run(pipeline_id='plain', input_kwargs=dict(num=1))
    stored = await make_chart(functools.partial(FileSystemArtifactStore, artifact_dir=root)).run(
        pipeline_id='stored', input_kwargs=dict(num=1),
    )
    check(
        "chart with a node named 'features/age' and the filesystem store",
        stored.error is None and stored.value == plain.value == 2,
        f'without a store: value={plain.value!r} error={plain.error!r}; '
        f'with FileSystemArtifactStore: value={stored.value!r} error={stored.error!r}',
    )


async def main() -> None:
    await store_level()
    await engine_level()


asyncio.run(main())
print()
print(f'{len(failures)} violated expectation(s)')
sys.exit(1 if failures else 0)
