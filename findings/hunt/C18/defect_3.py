"""
Defect 3: the node id is used verbatim as one file name, so it is subject to the file-name length limit of the
file system (255 BYTES on ext4/xfs/tmpfs..., i.e. ~120 Cyrillic characters), and the probe of the key
(FileSystemArtifactStore._get_glob -> Path.is_file) lets the resulting OSError(ENAMETOOLONG) escape.

  * load of a never saved long id raises OSError instead of ArtifactDoesNotExist
  * such an id can never be saved (OSError from the probe, before anything is written)
  * ids of 249..250 characters: 'id.json' still fits in 255 bytes, 'id.pickle' does not, the probe of the pickle
    name fails first, so even the JSON format that would fit is refused
  * a chart whose node has a long (or a moderately long non-ASCII) name fails with the filesystem store
"""
import os
import sys

sys.path.insert(0, os.path.dirname(os.path.dirname(os.path.abspath(__file__))))

import asyncio
import functools
import logging
import pathlib
import tempfile
import warnings

warnings.simplefilter('ignore')
logging.disable(logging.CRITICAL)

from ml_pipeline_engine.artifact_store.enums import DataFormat
from ml_pipeline_engine.artifact_store.errors import ArtifactDoesNotExist
from ml_pipeline_engine.artifact_store.store.filesystem import FileSystemArtifactStore
from ml_pipeline_engine.chart import PipelineChart
from ml_pipeline_engine.dag_builders.annotation import build_dag_single
from ml_pipeline_engine.node import ProcessorBase
from ml_pipeline_engine.parallelism import threads_pool_registry

threads_pool_registry.auto_init()

failures = []


def check(label: str, ok: bool, detail: str) -> None:
    print(('ok      ' if ok else 'DEFECT  ') + label + ': ' + detail)
    if not ok:
        failures.append(label)


class Ctx:
    model_name = 'm'
    pipeline_id = 'p'


def short(ex: BaseException) -> str:
    text = f'{type(ex).__name__}: {ex}'
    return text if len(text) < 90 else text[:60] + '...' + text[-25:]


async def outcome(coro):
    try:
        return 'value', await coro
    except BaseException as ex:  # noqa: BLE001
        return 'raised', ex


async def store_level() -> None:
    root = pathlib.Path(tempfile.mkdtemp())
    store = FileSystemArtifactStore(Ctx(), root)

    long_id = 'n' * 300
    kind, res = await outcome(store.load(long_id))
    check(
        'load of a never saved id of 300 characters',
        kind == 'raised' and isinstance(res, ArtifactDoesNotExist),
        f'expected ArtifactDoesNotExist, got {kind} {short(res) if kind == "raised" else res!r}',
    )

    kind, res = await outcome(store.save(long_id, 1))
    check(
        'save under an id of 300 characters',
        kind == 'value',
        f'expected success, got {kind} {short(res) if kind == "raised" else res!r}',
    )

    cyrillic = 'признак_' * 17  # 136 characters, 255 bytes
    kind, res = await outcome(store.load(cyrillic))
    check(
        f'load of a never saved Cyrillic id of {len(cyrillic)} characters',
        kind == 'raised' and isinstance(res, ArtifactDoesNotExist),
        f'expected ArtifactDoesNotExist, got {kind} {short(res) if kind == "raised" else res!r}',
    )

    fits_json = 'j' * 250  # 'j'*250 + '.json' == 255 bytes
    kind, res = await outcome(store.save(fits_json, {'a': 1}, DataFormat.JSON))
    check(
        "save(fmt=JSON) under an id of 250 characters ('<id>.json' is a legal 255 byte file name)",
        kind == 'value',
        f'expected success, got {kind} {short(res) if kind == "raised" else res!r}',
    )


async def engine_level() -> None:
    root = pathlib.Path(tempfile.mkdtemp())

    class Node(ProcessorBase):
        name = 'признак_клиента_' * 8  # 128 characters

        def process(self, num: int) -> int:
            return num

    def chart(store):
        return PipelineChart(model_name='m', entrypoint=build_dag_single(Node), artifact_store=store)

    plain = await chart(None).run(input_kwargs=dict(num=1))
    stored = await chart(functools.partial(FileSystemArtifactStore, artifact_dir=root)).run(input_kwargs=dict(num=1))
    check(
        f'chart with a node whose name has {len(Node.name)} Cyrillic characters',
        stored.error is None and stored.value == plain.value == 1,
        f'without a store: value={plain.value!r} error={plain.error!r}; with FileSystemArtifactStore: '
        f'value={stored.value!r} error={short(stored.error) if stored.error else None}',
    )


async def main() -> None:
    await store_level()
    await engine_level()


asyncio.run(main())
print()
print(f'{len(failures)} violated expectation(s)')
sys.exit(1 if failures else 0)
