"""
defect_2: a generic node made by build_node() from a sync base class cannot be executed in the process pool.
The same declarations give the right value inline and in the thread pool; with the `process` tag the worker process
dies while unpickling the call, the run ends with BrokenProcessPool and the pool stays broken, so every later run of any
chart that needs the process pool is refused.
Root cause: node/node.py build_node(): the sync wrapper is a function named `class_method` stored under the attribute
`process`. A bound method is pickled as getattr(instance, func.__name__) == getattr(instance, 'class_method').
(Second problem of the same function: two build_node() calls on one base class use the same default class name,
globals()[class_name] is overwritten, and the first class is not picklable at all.)
"""
import asyncio
import logging
import sys

sys.path.insert(0, '.')
logging.disable(logging.CRITICAL)

from ml_pipeline_engine.chart import PipelineChart
from ml_pipeline_engine.dag_builders.annotation import build_dag
from ml_pipeline_engine.dag_builders.annotation.marks import Input
from ml_pipeline_engine.dag_builders.annotation.marks import InputGeneric
from ml_pipeline_engine.node import ProcessorBase
from ml_pipeline_engine.node import build_node
from ml_pipeline_engine.node.enums import NodeTag
from ml_pipeline_engine.parallelism import process_pool_registry
from ml_pipeline_engine.parallelism import threads_pool_registry
from ml_pipeline_engine.types import NodeBase


class Inp(ProcessorBase):
    name = 'inp'

    async def process(self, x: int) -> int:
        return x


class PlainProcessNode(ProcessorBase):
    name = 'plain'
    tags = (NodeTag.process,)

    def process(self, v: Input(Inp)) -> int:
        return v * 10 + 1


def make_generic(tags: tuple, suffix: str):
    base = type(
        f'Vectorizer{suffix}',
        (ProcessorBase,),
        {'name': f'vectorizer{suffix}', 'tags': tags, '__module__': __name__},
    )

    def process(self, v: InputGeneric(NodeBase), const: int) -> int:  # noqa
        return v * 10 + const

    base.process = process
    globals()[base.__name__] = base
    return build_node(base, node_name=f'vec{suffix}', v=Input(Inp), dependencies_default=dict(const=1))


Inline = make_generic((NodeTag.non_async,), 'Inline')
Thread = make_generic((), 'Thread')
Process = make_generic((NodeTag.process,), 'Process')


async def run(node: type) -> str:
    result = await asyncio.wait_for(PipelineChart('m', build_dag(Inp, node)).run(input_kwargs={'x': 4}), 30)
    return f'value={result.value!r} error={result.error!r}'


async def main() -> int:
    threads_pool_registry.auto_init()
    process_pool_registry.auto_init()

    print('plain node in the process pool (pool is healthy):', await run(PlainProcessNode))
    print('generic node, non_async :', await run(Inline))
    print('generic node, thread    :', await run(Thread))
    got = await run(Process)
    print('generic node, process   :', got, ' <- expected value=41 error=None')
    after = await run(PlainProcessNode)
    print('plain node in the process pool afterwards:', after, ' <- expected value=41 error=None')

    failed = int('value=41 error=None' not in got or 'value=41 error=None' not in after)
    print('DEFECT SHOWN' if failed else 'no defect')
    return failed


sys.exit(asyncio.run(main()))
