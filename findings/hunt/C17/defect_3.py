"""
defect_3: a sync node whose body raises concurrent.futures.CancelledError (an ordinary Exception subclass, e.g. the
body called .result() on a cancelled future of its own executor) gives an error result / the default value when it is
executed inline, but the run HANGS when the same node is executed in the thread pool (or process pool).
Root cause: node/node.py run_node(): `await loop.run_in_executor(...)`. asyncio converts a
concurrent.futures.CancelledError stored in the pool future into asyncio.CancelledError (BaseException), so the node task
is cancelled instead of failing: no retry, no default, no stored error, and DAGRunConcurrentManager.run()
(_get_first_error_in_tasks skips cancelled tasks) waits for ever.
"""
import asyncio
import concurrent.futures
import logging
import sys

sys.path.insert(0, '.')
logging.disable(logging.CRITICAL)

from ml_pipeline_engine.chart import PipelineChart
from ml_pipeline_engine.dag_builders.annotation import build_dag
from ml_pipeline_engine.dag_builders.annotation.marks import Input
from ml_pipeline_engine.node import ProcessorBase
from ml_pipeline_engine.node.enums import NodeTag
from ml_pipeline_engine.parallelism import threads_pool_registry


class Inp(ProcessorBase):
    name = 'inp'

    async def process(self, x: int) -> int:
        return x


class Fetch(ProcessorBase):
    name = 'fetch'
    use_default = False

    def get_default(self, **kwargs):  # noqa
        return -1

    def process(self, x: Input(Inp)) -> int:
        future = concurrent.futures.Future()
        future.cancel()            # e.g. a request future cancelled by a client library
        return future.result()     # raises concurrent.futures.CancelledError (subclass of Exception)


class Out(ProcessorBase):
    name = 'out'

    async def process(self, f: Input(Fetch)) -> int:
        return f * 2


async def run(tags: tuple, use_default: bool) -> str:
    Fetch.tags = tags
    Fetch.use_default = use_default
    chart = PipelineChart('m', build_dag(Inp, Out))
    try:
        result = await asyncio.wait_for(chart.run(input_kwargs={'x': 1}), 3)
        return f'value={result.value!r} error={result.error!r}'
    except asyncio.TimeoutError:
        return 'HANG (no result after 3s)'


async def main() -> int:
    threads_pool_registry.auto_init()
    assert issubclass(concurrent.futures.CancelledError, Exception)

    failed = 0
    for use_default in (False, True):
        inline = await run((NodeTag.non_async,), use_default)
        thread = await run((), use_default)
        print(f'use_default={use_default}')
        print('  inline (non_async):', inline)
        print('  thread pool       :', thread, ' <- expected the same outcome as inline')
        if thread != inline:
            failed = 1

    print('DEFECT SHOWN' if failed else 'no defect')
    return failed


sys.exit(asyncio.run(main()))
