import asyncio, sys, random, time, logging
sys.path.insert(0, '.')
logging.disable(logging.CRITICAL)
from ml_pipeline_engine.chart import PipelineChart
from ml_pipeline_engine.dag_builders.annotation import build_dag
from ml_pipeline_engine.dag_builders.annotation.marks import Input, InputOneOf, SwitchCase
from ml_pipeline_engine.node import ProcessorBase
from ml_pipeline_engine.node.enums import NodeTag
from ml_pipeline_engine.parallelism import threads_pool_registry
threads_pool_registry.auto_init()

def make(seed, modes_seed):
    rnd = random.Random(seed)
    mrnd = random.Random(modes_seed)
    n = rnd.randint(3, 9)
    nodes = []
    for i in range(n):
        k = rnd.randint(1, min(3, i)) if i else 0
        deps = rnd.sample(range(i), k) if i else []
        fail = rnd.random() < 0.2 and i > 0
        use_default = rnd.random() < 0.7
        attempts = rnd.choice([1, 2])
        mode = mrnd.choice(['coro', 'inline', 'thread']) if modes_seed is not None else 'coro'
        delay = mrnd.choice([0, 0.001, 0.01]) if modes_seed is not None else 0
        ann = {f'd{j}': Input(nodes[j]) for j in deps}
        if i == 0:
            ann = {'x': int}
        def body(self, _i=i, _fail=fail, _delay=delay, **kw):
            if _delay: time.sleep(_delay)
            if _fail: raise ValueError(f'n{_i}')
            return _i + sum(kw.values())
        params = ', '.join(ann)
        src_args = ', '.join(f'{p}={p}' for p in ann)
        ns = {'body': body}
        if mode == 'coro':
            exec(f'async def process(self, {params}):\n    return body(self, {src_args})', ns)
        else:
            exec(f'def process(self, {params}):\n    return body(self, {src_args})', ns)
        ns['process'].__annotations__ = dict(ann)
        cls = type(f'N{i}', (ProcessorBase,), {
            'name': f'n{i}', 'process': ns['process'], 'use_default': use_default, 'attempts': attempts,
            'tags': (NodeTag.non_async,) if mode == 'inline' else (),
            'get_default': lambda self, _i=i, **kw: -_i,
        })
        nodes.append(cls)
    # output: depends on all leaves
    used = set()
    return nodes

async def run(nodes):
    # sink depending on everything
    ann = {f'd{j}': Input(c) for j, c in enumerate(nodes)}
    ns = {}
    params = ', '.join(ann)
    exec(f'async def process(self, {params}):\n    return ({", ".join(ann)},)', ns)
    ns['process'].__annotations__ = dict(ann)
    Out = type('Out', (ProcessorBase,), {'name': 'out', 'process': ns['process']})
    chart = PipelineChart('m', build_dag(nodes[0], Out))
    try:
        r = await asyncio.wait_for(chart.run(input_kwargs={'x': 1}), 5)
        return (r.value, type(r.error).__name__ if r.error else None)
    except asyncio.TimeoutError:
        return 'HANG'

async def main():
    bad = 0
    for seed in range(int(sys.argv[1]), int(sys.argv[2])):
        ref = await run(make(seed, None))
        for ms in range(3):
            got = await run(make(seed, ms))
            if got != ref:
                bad += 1
                print('DIFF', seed, ms, ref, got)
    print('done, bad =', bad)
asyncio.run(main())
