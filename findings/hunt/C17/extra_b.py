"""
extra_b (secondary, registry states):
 1. after threads_pool_registry.shutdown() (or after the process pool broke) a NEW live pool can be registered only
    in appearance: register_pool_executor() silently keeps the dead one, so every run is refused for ever although a
    live pool has been registered.  parallelism/basic.py PoolExecutorRegistry.register_pool_executor(): `if self._pool_executor: return`
 2. a registered, live process pool is refused when no multiprocessing.Manager is registered, although nothing in the
    engine uses the manager.  parallelism/processes.py PoolExecutorRegistry.is_ready()
"""
import asyncio
import logging
import sys
from concurrent.futures import ProcessPoolExecutor
from concurrent.futures import ThreadPoolExecutor

sys.path.insert(0, '.')
logging.disable(logging.CRITICAL)

from ml_pipeline_engine.chart import PipelineChart
from ml_pipeline_engine.dag_builders.annotation import build_dag
from ml_pipeline_engine.dag_builders.annotation.marks import Input
from ml_pipeline_engine.node import ProcessorBase
from ml_pipeline_engine.node.enums import NodeTag
from ml_pipeline_engine.parallelism import process_pool_registry
from ml_pipeline_engine.parallelism import threads_pool_registry


class Inp(ProcessorBase):
    name = 'inp'

    async def process(self, x: int) -> int:
        return x


class Work(ProcessorBase):
    name = 'work'

    def process(self, x: Input(Inp)) -> int:
        return x + 1


async def run(tags: tuple) -> str:
    Work.tags = tags
    result = await asyncio.wait_for(PipelineChart('m', build_dag(Inp, Work)).run(input_kwargs={'x': 1}), 30)
    return f'value={result.value!r} error={result.error!r}'


async def main() -> int:
    failed = 0

    threads_pool_registry.register_pool_executor(ThreadPoolExecutor())
    print('thread pool registered      :', await run(()))
    threads_pool_registry.shutdown()
    print('after shutdown              :', await run(()), ' (refusal is correct here)')
    threads_pool_registry.register_pool_executor(ThreadPoolExecutor())
    got = await run(())
    print('after registering a new pool:', got, ' <- expected value=2 error=None')
    failed |= int('value=2' not in got)

    process_pool_registry.register_pool_executor(ProcessPoolExecutor())
    got = await run((NodeTag.process,))
    print('live process pool, no Manager:', got, ' <- expected value=2 error=None')
    failed |= int('value=2' not in got)

    print('DEFECT SHOWN' if failed else 'no defect')
    return failed


sys.exit(asyncio.run(main()))
