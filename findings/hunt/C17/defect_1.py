"""
defect_1: a pipeline that uses only coroutine nodes and inline (non_async) nodes needs no pool, but the run is
refused with "thread pool is not registered". (Same for process+non_async tags: the process pool is demanded although
run_node executes the node inline.)  Root cause: AnnotationDAGBuilder._is_executor_needed ignores NodeTag.non_async.
"""
import asyncio
import logging
import sys

sys.path.insert(0, '.')
logging.disable(logging.CRITICAL)

from ml_pipeline_engine.chart import PipelineChart
from ml_pipeline_engine.dag_builders.annotation import build_dag
from ml_pipeline_engine.dag_builders.annotation.marks import Input
from ml_pipeline_engine.node import ProcessorBase
from ml_pipeline_engine.node.enums import NodeTag
from ml_pipeline_engine.parallelism import threads_pool_registry

calls = []


class Inp(ProcessorBase):
    name = 'inp'

    async def process(self, x: int) -> int:
        calls.append('inp')
        return x + 1


class Inline(ProcessorBase):
    name = 'inline'
    tags = (NodeTag.non_async,)

    def process(self, a: Input(Inp)) -> int:
        calls.append('inline')
        return a * 2


class InlineProcess(ProcessorBase):
    """run_node gives priority to non_async: the body is executed inline, no pool is touched"""
    name = 'inline_process'
    tags = (NodeTag.process, NodeTag.non_async)

    def process(self, a: Input(Inp)) -> int:
        calls.append('inline_process')
        return a * 3


class Out(ProcessorBase):
    name = 'out'

    async def process(self, a: Input(Inline)) -> int:
        return a + 100


class Out2(ProcessorBase):
    name = 'out2'

    async def process(self, a: Input(InlineProcess)) -> int:
        return a + 100


async def main() -> int:
    failed = 0

    # 1. no pool registered at all; only coroutine + inline nodes
    dag = build_dag(Inp, Out)
    print('case 1: coroutine + non_async nodes, no pool registered')
    print('  dag.is_thread_pool_needed =', dag.is_thread_pool_needed, '(expected False)')
    result = await asyncio.wait_for(PipelineChart('m', dag).run(input_kwargs={'x': 1}), 5)
    print('  expected: value=104 error=None')
    print(f'  observed: value={result.value!r} error={result.error!r} bodies invoked={calls}')
    if result.error is not None or result.value != 104:
        failed = 1

    # 2. thread pool registered, process pool not; node tagged (process, non_async) is executed inline by run_node
    threads_pool_registry.auto_init()
    calls.clear()
    dag = build_dag(Inp, Out2)
    print('case 2: node tagged (process, non_async); process pool not registered')
    print('  dag.is_process_pool_needed =', dag.is_process_pool_needed, '(expected False: run_node runs it inline)')
    result = await asyncio.wait_for(PipelineChart('m', dag).run(input_kwargs={'x': 1}), 5)
    print('  expected: value=106 error=None')
    print(f'  observed: value={result.value!r} error={result.error!r} bodies invoked={calls}')
    if result.error is not None or result.value != 106:
        failed = 1

    print('DEFECT SHOWN' if failed else 'no defect')
    return failed


sys.exit(asyncio.run(main()))
