"""
defect_4: context variables of the caller are visible to a node executed as a coroutine or inline, but not to the same
node executed in the thread pool: the node computes a different value depending only on the execution mode.
Root cause: node/node.py run_node(): loop.run_in_executor() does not run the callable in a copy of the current
contextvars.Context (asyncio.to_thread / contextvars.copy_context().run is what makes a worker thread transparent).
"""
import asyncio
import contextvars
import logging
import sys

sys.path.insert(0, '.')
logging.disable(logging.CRITICAL)

from ml_pipeline_engine.chart import PipelineChart
from ml_pipeline_engine.dag_builders.annotation import build_dag
from ml_pipeline_engine.dag_builders.annotation.marks import Input
from ml_pipeline_engine.node import ProcessorBase
from ml_pipeline_engine.node.enums import NodeTag
from ml_pipeline_engine.parallelism import threads_pool_registry

tenant = contextvars.ContextVar('tenant', default='<unset>')


class Inp(ProcessorBase):
    name = 'inp'

    async def process(self, x: int) -> str:
        return f'{tenant.get()}:{x}'          # coroutine mode: sees the caller's context


class Feature(ProcessorBase):
    name = 'feature'

    def process(self, x: Input(Inp)) -> str:
        return f'{x}|{tenant.get()}'


async def run(tags: tuple) -> str:
    Feature.tags = tags
    result = await asyncio.wait_for(PipelineChart('m', build_dag(Inp, Feature)).run(input_kwargs={'x': 1}), 5)
    return f'value={result.value!r} error={result.error!r}'


async def main() -> int:
    threads_pool_registry.auto_init()
    tenant.set('acme')      # set by the caller (e.g. a web request handler) before chart.run()

    inline = await run((NodeTag.non_async,))
    thread = await run(())
    print('inline (non_async):', inline)
    print('thread pool       :', thread, " <- expected value='acme:1|acme'")

    failed = int(inline != thread)
    print('DEFECT SHOWN' if failed else 'no defect')
    return failed


sys.exit(asyncio.run(main()))
