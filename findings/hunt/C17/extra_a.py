"""
extra_a (secondary): an application exception whose __init__ signature differs from its args (a very common pattern)
raised by a node in the process pool cannot be rebuilt in the parent: the pool's result reader crashes, the run gets
BrokenProcessPool instead of the node's error (so `exceptions = (ScoringError,)` retries never match), and the pool is
broken for every later run. Inline and in the thread pool the same node gives ScoringError and is retried.
Location: node/node.py _run_in_executor()/run_node(): the worker-side wrapper already rewrites StopIteration, but lets
exceptions that do not survive the pickle round trip reach the pool machinery.
"""
import asyncio
import logging
import sys

sys.path.insert(0, '.')
logging.disable(logging.CRITICAL)

from ml_pipeline_engine.chart import PipelineChart
from ml_pipeline_engine.dag_builders.annotation import build_dag
from ml_pipeline_engine.dag_builders.annotation.marks import Input
from ml_pipeline_engine.node import ProcessorBase
from ml_pipeline_engine.node.enums import NodeTag
from ml_pipeline_engine.parallelism import process_pool_registry
from ml_pipeline_engine.parallelism import threads_pool_registry


class ScoringError(Exception):
    def __init__(self, code: int, message: str) -> None:
        super().__init__(f'{code}: {message}')
        self.code = code


class Inp(ProcessorBase):
    name = 'inp'

    async def process(self, x: int) -> int:
        return x


class Score(ProcessorBase):
    name = 'score'

    def process(self, x: Input(Inp)) -> int:
        raise ScoringError(7, 'bad input')


class Healthy(ProcessorBase):
    name = 'healthy'
    tags = (NodeTag.process,)

    def process(self, x: Input(Inp)) -> int:
        return x + 1


async def run(node: type, tags: tuple) -> str:
    node.tags = tags
    result = await asyncio.wait_for(PipelineChart('m', build_dag(Inp, node)).run(input_kwargs={'x': 1}), 30)
    return f'value={result.value!r} error={result.error!r}'


async def main() -> int:
    threads_pool_registry.auto_init()
    process_pool_registry.auto_init()

    inline = await run(Score, (NodeTag.non_async,))
    thread = await run(Score, ())
    process = await run(Score, (NodeTag.process,))
    after = await run(Healthy, (NodeTag.process,))
    print('inline :', inline)
    print('thread :', thread)
    print('process:', process, ' <- expected the same error as inline')
    print('another chart with a process node afterwards:', after, ' <- expected value=2 error=None')

    failed = int(process != inline or 'value=2' not in after)
    print('DEFECT SHOWN' if failed else 'no defect')
    return failed


sys.exit(asyncio.run(main()))
