"""
Defect 3 (lower severity, see the note): a node body that ends with SystemExit in a POOL WORKER of one run
stops the event loop, so every overlapping run is torn down with CancelledError.

Chart: Inp -> Work (plain sync node, runs in the thread pool).  Work calls sys.exit(2) for x < 0
(what argparse and many CLI-style libraries do on bad input), otherwise returns x + 1 after 0.5 s.

Expected: the run with x=-1 fails on its own (in a thread sys.exit() only ends the calling thread; the engine
          already normalises worker exceptions that asyncio cannot carry, see _run_in_executor/StopIteration);
          the overlapping run with x=1 returns 2 as it does alone.
Actual:   the SystemExit instance is carried by the executor future into the awaiting task, asyncio re-raises
          SystemExit out of the event loop: chart.run() of the innocent run ends with CancelledError and
          asyncio.run() terminates with SystemExit(2).

Run: /venv/bin/python _hunt/defect_3.py   (from /tmp/hunt_C08); exit code 1 when the defect shows.
"""
import os
import sys

sys.path.insert(0, os.getcwd())

import asyncio
import logging
import time

from ml_pipeline_engine.chart import PipelineChart
from ml_pipeline_engine.dag_builders.annotation import build_dag
from ml_pipeline_engine.dag_builders.annotation.marks import Input
from ml_pipeline_engine.node import ProcessorBase
from ml_pipeline_engine.parallelism import threads_pool_registry

logging.disable(logging.CRITICAL)

outcome = {}


class Inp(ProcessorBase):
    name = 'inp'

    async def process(self, x: int) -> int:
        return x


class Work(ProcessorBase):
    name = 'work'

    def process(self, x: Input(Inp)) -> int:
        if x < 0:
            sys.exit(2)
        time.sleep(0.5)
        return x + 1


async def guarded(chart: PipelineChart, label: str, x: int) -> None:
    try:
        result = await chart.run(input_kwargs={'x': x})
        outcome[label] = f'value={result.value!r} error={result.error!r}'
    except BaseException as ex:
        outcome[label] = f'chart.run() raised {ex!r}'
        raise


async def main() -> None:
    chart = PipelineChart('model', build_dag(input_node=Inp, output_node=Work))

    solo = await chart.run(input_kwargs={'x': 1})
    outcome['solo'] = f'value={solo.value!r} error={solo.error!r}'

    good = asyncio.create_task(guarded(chart, 'good', 1))
    await asyncio.sleep(0.1)
    bad = asyncio.create_task(guarded(chart, 'bad', -1))
    await asyncio.gather(good, bad, return_exceptions=True)


if __name__ == '__main__':
    threads_pool_registry.auto_init()
    loop_end = 'asyncio.run() returned normally'
    try:
        asyncio.run(main())
    except BaseException as ex:
        loop_end = f'asyncio.run() raised {ex!r}'

    print('GOOD alone        expected value=2                 got', outcome.get('solo'))
    print('BAD  overlapping  expected an error of its own     got', outcome.get('bad'))
    print('GOOD overlapping  expected value=2                 got', outcome.get('good'))
    print('event loop        expected to keep running         got', loop_end)

    defect = outcome.get('solo') == 'value=2 error=None' and outcome.get('good') != 'value=2 error=None'
    print('DEFECT: the failure of one run killed the overlapping run' if defect else 'no defect')
    sys.stdout.flush()
    os._exit(1 if defect else 0)
