"""
Defect 2: the workers of the process pool are forked lazily, at the first submission of a process node,
from a process in which the thread pool of the engine is already running node bodies of OTHER runs.

Chart A: Inp -> ThreadWork (plain sync node, runs in the thread pool), holds a library lock for 1 s.
Chart B: Inp -> ProcWork   (NodeTag.process), takes the same library lock for an instant.

Expected: run B returns 2, alone or overlapping with run A (the lock is released by A after 1 s;
          with separate address spaces B should not even notice it).
Actual:   alone B returns 2.  When B's process node is the first one submitted while A's thread node holds
          the lock, process_pool_registry.auto_init()'s pool (mp_context 'fork') forks ALL workers at that
          moment: every worker inherits the lock in the locked state and nobody will ever release it there.
          Run B hangs, and every later run of B - long after A has finished - hangs too.

Run: /venv/bin/python _hunt/defect_2.py   (from /tmp/hunt_C08); exit code 1 when the defect shows.
(The scenario needs a fresh interpreter per mode, so the script re-executes itself.)
"""
import os
import sys

sys.path.insert(0, os.getcwd())

import asyncio
import logging
import subprocess
import threading
import time
import warnings

from ml_pipeline_engine.chart import PipelineChart
from ml_pipeline_engine.dag_builders.annotation import build_dag
from ml_pipeline_engine.dag_builders.annotation.marks import Input
from ml_pipeline_engine.node import ProcessorBase
from ml_pipeline_engine.node.enums import NodeTag
from ml_pipeline_engine.parallelism import process_pool_registry
from ml_pipeline_engine.parallelism import threads_pool_registry

logging.disable(logging.CRITICAL)
warnings.simplefilter('ignore')

LIB_LOCK = threading.Lock()  # stands for a lock inside any library used by both nodes


class Inp(ProcessorBase):
    name = 'inp'

    async def process(self, x: int) -> int:
        return x


class ThreadWork(ProcessorBase):
    name = 'thread_work'

    def process(self, x: Input(Inp)) -> int:
        with LIB_LOCK:
            time.sleep(1.0)
            return x + 1


class ProcWork(ProcessorBase):
    name = 'proc_work'
    tags = (NodeTag.process,)

    def process(self, x: Input(Inp)) -> int:
        with LIB_LOCK:
            return x * 2


def show(result) -> str:  # noqa: ANN001
    return f'value={result.value!r} error={result.error!r}'


async def run_b(chart_b: PipelineChart, label: str) -> bool:
    try:
        result = await asyncio.wait_for(chart_b.run(input_kwargs={'x': 1}), 5)
    except asyncio.TimeoutError:
        print(f'{label:<34} expected value=2   got HANG (no result within 5 s)')
        return False

    print(f'{label:<34} expected value=2   got {show(result)}')
    return result.value == 2


async def scenario(mode: str) -> int:
    chart_a = PipelineChart('a', build_dag(input_node=Inp, output_node=ThreadWork))
    chart_b = PipelineChart('b', build_dag(input_node=Inp, output_node=ProcWork))

    if mode == 'solo':
        return 0 if await run_b(chart_b, 'B alone') else 1

    a_task = asyncio.create_task(chart_a.run(input_kwargs={'x': 1}))
    await asyncio.sleep(0.2)  # A's thread node holds the lock now

    ok = await run_b(chart_b, 'B overlapping with A')
    print(f'{"A":<34} expected value=2   got {show(await a_task)}')
    ok_later = await run_b(chart_b, 'B again, alone, A has finished')

    return 0 if ok and ok_later else 1


def child(mode: str) -> None:
    threads_pool_registry.auto_init()
    process_pool_registry.auto_init()
    code = asyncio.run(scenario(mode))
    sys.stdout.flush()

    # the poisoned workers never finish, they have to be killed
    for proc in list((process_pool_registry._pool_executor._processes or {}).values()):
        proc.kill()
    try:
        process_pool_registry._process_manager.shutdown()
    finally:
        os._exit(code)


def main() -> int:
    codes = {}
    for mode in ('solo', 'overlap'):
        proc = subprocess.run([sys.executable, __file__, mode], timeout=120)  # noqa: S603
        codes[mode] = proc.returncode

    if codes['solo'] == 0 and codes['overlap'] != 0:
        print('DEFECT: run B returns 2 alone but hangs when it overlaps with run A, and keeps hanging afterwards')
        return 1

    print('no defect', codes)
    return 0


if __name__ == '__main__':
    if len(sys.argv) > 1:
        child(sys.argv[1])
    else:
        sys.exit(main())
