"""
Defect 1: a failure inside ONE run breaks the process pool that all runs share.

Two overlapping runs of one chart; the chart has a node tagged NodeTag.process.
Run BAD (x=-1): the node raises an ordinary application exception (constructor with two arguments).
Run GOOD (x=1): the same node just computes for 0.5 s; alone it returns 3.

Expected: GOOD returns 3 whatever happens to BAD; BAD reports its own error; a later run returns 3.
Actual:   the exception of BAD cannot be rebuilt in the parent, concurrent.futures marks the shared
          ProcessPoolExecutor as broken -> GOOD (in flight, innocent) fails with BrokenProcessPool,
          every later run fails with RuntimeError from process_pool_registry.is_ready(), and
          register_pool_executor()/auto_init() refuse to install a new pool.

Run: /venv/bin/python _hunt/defect_1.py   (from /tmp/hunt_C08); exit code 1 when the defect shows.
"""
import os
import sys

sys.path.insert(0, os.getcwd())

import asyncio
import logging
import time

from ml_pipeline_engine.chart import PipelineChart
from ml_pipeline_engine.dag_builders.annotation import build_dag
from ml_pipeline_engine.dag_builders.annotation.marks import Input
from ml_pipeline_engine.node import ProcessorBase
from ml_pipeline_engine.node.enums import NodeTag
from ml_pipeline_engine.parallelism import process_pool_registry
from ml_pipeline_engine.parallelism import threads_pool_registry

logging.disable(logging.CRITICAL)


class RichError(Exception):
    def __init__(self, code: int, detail: str) -> None:
        super().__init__(f'{code}: {detail}')
        self.code = code
        self.detail = detail


class Inp(ProcessorBase):
    name = 'inp'

    async def process(self, x: int) -> int:
        return x


class Work(ProcessorBase):
    name = 'work'
    tags = (NodeTag.process,)

    def process(self, x: Input(Inp)) -> int:
        if x < 0:
            raise RichError(x, 'negative input')
        time.sleep(0.5)
        return x * 2


class Out(ProcessorBase):
    name = 'out'

    async def process(self, w: Input(Work)) -> int:
        return w + 1


def show(result) -> str:  # noqa: ANN001
    return f'value={result.value!r} error={result.error!r}'


async def main() -> int:
    chart = PipelineChart('model', build_dag(input_node=Inp, output_node=Out))

    solo = await asyncio.wait_for(chart.run(input_kwargs={'x': 1}), 30)
    print('GOOD alone                 expected value=3             got', show(solo))

    good_task = asyncio.create_task(chart.run(input_kwargs={'x': 1}))
    await asyncio.sleep(0.1)  # GOOD's process node is running in a worker now
    bad = await asyncio.wait_for(chart.run(input_kwargs={'x': -1}), 30)
    good = await asyncio.wait_for(good_task, 30)

    print('BAD  (overlapping)         expected error=RichError     got', show(bad))
    print('GOOD (overlapping)         expected value=3             got', show(good))

    later = await asyncio.wait_for(chart.run(input_kwargs={'x': 1}), 30)
    print('GOOD later, alone          expected value=3             got', show(later))

    process_pool_registry.auto_init()  # the documented way of installing the pool
    reinit = await asyncio.wait_for(chart.run(input_kwargs={'x': 1}), 30)
    print('GOOD after auto_init()     expected value=3             got', show(reinit))

    if solo.value == 3 and (good.value != 3 or later.value != 3 or reinit.value != 3):
        print('DEFECT: the failure of one run changed the outcome of an overlapping run and of all later runs')
        return 1

    print('no defect')
    return 0


if __name__ == '__main__':
    threads_pool_registry.auto_init()
    process_pool_registry.auto_init()
    code = asyncio.run(main())
    sys.stdout.flush()
    try:
        process_pool_registry._process_manager.shutdown()
    finally:
        os._exit(code)
