"""
Defect 2: the same chart with the same input reports different errors in different runs.

Two independent nodes fail in the same event-loop tick.  DAGRunConcurrentManager keeps its tasks in a *set*
(`_coro_tasks`) and `_get_first_error_in_tasks` returns the error of the first failed task in set iteration order.
asyncio.Task hashes by address, so the order - and with it PipelineResult.error - depends on where the allocator put
the task objects, i.e. on everything that ran in the process before (earlier runs included).

Run: /venv/bin/python _hunt/defect_2.py   (from /tmp/hunt_C07)
"""
import os
import sys

sys.path.insert(0, os.getcwd())

import asyncio
import collections
import logging

from ml_pipeline_engine.chart import PipelineChart
from ml_pipeline_engine.dag_builders.annotation import build_dag
from ml_pipeline_engine.dag_builders.annotation.marks import Input
from ml_pipeline_engine.node import ProcessorBase

logging.disable(logging.CRITICAL)

N_RUNS = 400


class Inp(ProcessorBase):
    name = 'inp'

    async def process(self, x: int) -> int:
        return x


class FeatureA(ProcessorBase):
    name = 'feature_a'

    async def process(self, x: Input(Inp)) -> int:
        if x < 0:
            raise ValueError('feature_a does not accept negative values')
        return x


class FeatureB(ProcessorBase):
    name = 'feature_b'

    async def process(self, x: Input(Inp)) -> int:
        if x < 0:
            raise KeyError('feature_b does not accept negative values')
        return x


class Out(ProcessorBase):
    name = 'out'

    async def process(self, a: Input(FeatureA), b: Input(FeatureB)) -> int:
        return a + b


async def main() -> int:
    chart = PipelineChart('model', build_dag(Inp, Out))

    first = await chart.run(input_kwargs={'x': -1})
    print('first run of the chart, x=-1 :', repr(first.error))
    print(f'expected                     : the next {N_RUNS} runs with x=-1 report the same error')

    outcomes = collections.Counter()
    keep_alive = []  # ordinary allocations between the runs, as any application does
    for i in range(N_RUNS):
        result = await asyncio.wait_for(chart.run(input_kwargs={'x': -1}), 10)
        assert result.value is None
        outcomes[repr(result.error)] += 1
        keep_alive.append(bytearray(i * 7))

    print('observed                     :', dict(outcomes))

    if len(outcomes) > 1 or repr(first.error) not in outcomes:
        print('DEFECT: the outcome of a run for a fixed input is not a function of the chart and the input')
        return 1

    print('no defect shown in this process (the choice depends on object addresses)')
    return 0


if __name__ == '__main__':
    sys.exit(asyncio.run(main()))
