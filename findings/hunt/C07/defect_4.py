"""
Defect 4: a node made by build_node() and tagged NodeTag.process can never run, and running it once kills the
process pool for all later runs of the chart.

build_node() registers the wrapper function under the attribute `process`, but the function is called `class_method`
(`__name__`).  A bound method is pickled as getattr(instance, func.__name__), so the worker process looks for
`instance.class_method`, gets AttributeError while reading the call queue and dies -> BrokenProcessPool.
The same generic node with the default (thread) tag works, and the same class written by hand works in the process
pool.

Pipeline: a switch selects between a hand-written case and a generic (build_node) case, both tagged `process`.
Sequence of runs on one chart: plain, generic, plain.

Run: /venv/bin/python _hunt/defect_4.py   (from /tmp/hunt_C07)
"""
import os
import sys

sys.path.insert(0, os.getcwd())

import asyncio
import logging
import pickle

from ml_pipeline_engine.chart import PipelineChart
from ml_pipeline_engine.dag_builders.annotation import build_dag
from ml_pipeline_engine.dag_builders.annotation.marks import Input
from ml_pipeline_engine.dag_builders.annotation.marks import InputGeneric
from ml_pipeline_engine.dag_builders.annotation.marks import SwitchCase
from ml_pipeline_engine.node import ProcessorBase
from ml_pipeline_engine.node import build_node
from ml_pipeline_engine.node.enums import NodeTag
from ml_pipeline_engine.parallelism import process_pool_registry
from ml_pipeline_engine.parallelism import threads_pool_registry
from ml_pipeline_engine.types import NodeBase

logging.disable(logging.CRITICAL)


class Inp(ProcessorBase):
    name = 'inp'

    async def process(self, label: str, x: int) -> dict:
        return {'label': label, 'x': x}


class Label(ProcessorBase):
    name = 'label'

    async def process(self, inp: Input(Inp)) -> str:
        return inp['label']


class Number(ProcessorBase):
    name = 'number'

    async def process(self, inp: Input(Inp)) -> int:
        return inp['x']


class PlainDouble(ProcessorBase):
    name = 'plain_double'
    tags = (NodeTag.process,)

    def process(self, v: Input(Number)) -> int:
        return v * 2


class GenericDouble(ProcessorBase):
    name = 'generic_double'
    tags = (NodeTag.process,)

    def process(self, v: InputGeneric(NodeBase)) -> int:
        return v * 2


ParticularDouble = build_node(GenericDouble, node_name='particular_double', v=Input(Number))


class Out(ProcessorBase):
    name = 'out'

    async def process(
        self,
        v: SwitchCase(name='kind', switch=Label, cases=[('plain', PlainDouble), ('generic', ParticularDouble)]),
    ) -> int:
        return v


def show(result) -> str:  # noqa: ANN001
    return f'value={result.value!r} error={result.error!r}'


async def main() -> int:
    method = ParticularDouble().process
    print('name of the function stored as ParticularDouble.process:', method.__func__.__name__)
    try:
        pickle.loads(pickle.dumps(method))
        print('the bound method survives a pickle round trip')
    except AttributeError as ex:
        print('pickle round trip of the bound method fails on the receiving side:', repr(ex))

    chart = PipelineChart('model', build_dag(Inp, Out))

    r1 = await asyncio.wait_for(chart.run(input_kwargs={'label': 'plain', 'x': 4}), 30)
    print('run 1, plain    expected value=8               got', show(r1))

    r2 = await asyncio.wait_for(chart.run(input_kwargs={'label': 'generic', 'x': 4}), 30)
    print('run 2, generic  expected value=8               got', show(r2))

    r3 = await asyncio.wait_for(chart.run(input_kwargs={'label': 'plain', 'x': 4}), 30)
    print('run 3, plain    expected value=8 (as in run 1) got', show(r3))

    if r1.value == 8 and (r2.value != 8 or r3.value != 8):
        print('DEFECT: the build_node() node cannot run in the process pool, and its run broke the pool for run 3')
        return 1

    print('no defect')
    return 0


if __name__ == '__main__':
    threads_pool_registry.auto_init()
    process_pool_registry.auto_init()
    sys.exit(asyncio.run(main()))
