"""
Defect 1: every run rewrites the graph attribute `name` of the shared DAG.graph.

get_connected_subgraph() does `subgraph.name = ...` on a networkx view.  A view shares the graph-attribute dict
(`view.graph is root.graph`), so the assignment lands in DAG.graph.graph['name'] of the chart's DAG and stays there.
The value left behind depends on the input of the last run (the last reduced dag that was built), so the caller and
later runs can observe what the previous run did.

Run: /venv/bin/python _hunt/defect_1.py   (from /tmp/hunt_C07)
"""
import os
import sys

sys.path.insert(0, os.getcwd())

import asyncio
import logging

import networkx as nx

from ml_pipeline_engine.chart import PipelineChart
from ml_pipeline_engine.dag_builders.annotation import build_dag
from ml_pipeline_engine.dag_builders.annotation.marks import Input
from ml_pipeline_engine.dag_builders.annotation.marks import SwitchCase
from ml_pipeline_engine.node import ProcessorBase

logging.disable(logging.CRITICAL)


class Inp(ProcessorBase):
    name = 'inp'

    async def process(self, label: str) -> str:
        return label


class CaseA(ProcessorBase):
    name = 'case_a'

    async def process(self, x: Input(Inp)) -> str:
        return 'A'


class CaseB(ProcessorBase):
    name = 'case_b'

    async def process(self, x: Input(Inp)) -> str:
        return 'B'


class Out(ProcessorBase):
    name = 'out'

    async def process(self, v: SwitchCase(name='sw', switch=Inp, cases=[('a', CaseA), ('b', CaseB)])) -> str:
        return v


async def main() -> int:
    dag = build_dag(Inp, Out)
    chart = PipelineChart('model', dag)

    attrs_before = dict(dag.graph.graph)
    print('graph attributes of a freshly built chart :', attrs_before)
    print('expected after any number of runs          : the same dict')

    seen = []
    for label in ('a', 'b', 'a'):
        result = await asyncio.wait_for(chart.run(input_kwargs={'label': label}), 10)
        assert result.error is None and result.value == label.upper(), result
        seen.append(dict(dag.graph.graph))
        print(f'after run(label={label!r})                      :', seen[-1])

    fresh = build_dag(Inp, Out)
    equal_to_fresh = nx.utils.graphs_equal(dag.graph, fresh.graph)
    print('nx.utils.graphs_equal(used dag, fresh dag)  :', equal_to_fresh, '(expected True)')

    leaked = any(attrs != attrs_before for attrs in seen)
    depends_on_input = seen[0] != seen[1]

    if leaked:
        print('DEFECT: a run changed DAG.graph.graph[\'name\'] of the shared DAG')
        if depends_on_input:
            print('        and the value left behind tells which case the previous run selected')
        return 1

    print('no defect')
    return 0


if __name__ == '__main__':
    sys.exit(asyncio.run(main()))
