"""
Defect 3: one failing run leaves the shared process pool broken, every later run of the chart fails, for any input,
and the pool cannot be registered again.

A node tagged NodeTag.process raises an ordinary application exception whose constructor takes two arguments.  Such an
exception cannot be rebuilt from `exc.args` when it travels back from the worker, the result reader of
concurrent.futures fails and marks the whole ProcessPoolExecutor as broken.  `_run_in_executor` only guards
StopIteration.  After that run:
  * the failing run itself reports BrokenProcessPool instead of the node's error,
  * `process_pool_registry.is_ready()` raises for every later run ("pool is not specified"),
  * `register_pool_executor()` / `auto_init()` silently refuse to install a new pool because `_pool_executor` is set.

Run: /venv/bin/python _hunt/defect_3.py   (from /tmp/hunt_C07)
"""
import os
import sys

sys.path.insert(0, os.getcwd())

import asyncio
import logging

from ml_pipeline_engine.chart import PipelineChart
from ml_pipeline_engine.dag_builders.annotation import build_dag
from ml_pipeline_engine.dag_builders.annotation.marks import Input
from ml_pipeline_engine.node import ProcessorBase
from ml_pipeline_engine.node.enums import NodeTag
from ml_pipeline_engine.parallelism import process_pool_registry
from ml_pipeline_engine.parallelism import threads_pool_registry

logging.disable(logging.CRITICAL)


class BadValue(Exception):
    def __init__(self, field: str, value: int) -> None:
        super().__init__(f'bad value {field}={value}')
        self.field = field
        self.value = value


class Inp(ProcessorBase):
    name = 'inp'

    async def process(self, x: int) -> int:
        return x


class Heavy(ProcessorBase):
    name = 'heavy'
    tags = (NodeTag.process,)

    def process(self, x: Input(Inp)) -> int:
        if x < 0:
            raise BadValue('x', x)
        return x * 2


class Out(ProcessorBase):
    name = 'out'

    async def process(self, h: Input(Heavy)) -> int:
        return h


def show(result) -> str:  # noqa: ANN001
    return f'value={result.value!r} error={result.error!r}'


async def main() -> int:
    chart = PipelineChart('model', build_dag(Inp, Out))

    r1 = await asyncio.wait_for(chart.run(input_kwargs={'x': 1}), 30)
    print('run 1, x=1   expected value=2                 got', show(r1))

    r2 = await asyncio.wait_for(chart.run(input_kwargs={'x': -1}), 30)
    print('run 2, x=-1  expected error=BadValue          got', show(r2))

    r3 = await asyncio.wait_for(chart.run(input_kwargs={'x': 1}), 30)
    print('run 3, x=1   expected value=2 (as in run 1)   got', show(r3))

    process_pool_registry.auto_init()  # the documented way to install a pool
    r4 = await asyncio.wait_for(chart.run(input_kwargs={'x': 1}), 30)
    print('run 4, x=1   after auto_init(), expected 2    got', show(r4))

    defect = r1.value == 2 and (r3.value != 2 or r4.value != 2)

    if defect:
        print('DEFECT: run 2 left the process pool broken; runs 3 and 4 differ from run 1 for the same input')
        return 1

    print('no defect')
    return 0


if __name__ == '__main__':
    threads_pool_registry.auto_init()
    process_pool_registry.auto_init()
    sys.exit(asyncio.run(main()))
