r"""
Defect 4: a switch inside a one-of candidate whose decision node returns a label without a branch fails the whole run
with SwitchCaseDoesNotHaveBranchError; the failure is not contained in the (losing) candidate and the healthy fallback
candidate is never tried.

Shape:
    Out(o: InputOneOf([C1, C2]))
    C1(sw: SwitchCase(switch=Dec, cases=[('a', KA), ('b', KB)]))      Dec returns 'zzz'
    C2(Input(Inp))                                                    healthy fallback
"""
import os, sys; sys.path.insert(0, os.getcwd())
import asyncio, logging
from ml_pipeline_engine.chart import PipelineChart
from ml_pipeline_engine.dag.errors import SwitchCaseDoesNotHaveBranchError
from ml_pipeline_engine.dag_builders.annotation import build_dag
from ml_pipeline_engine.dag_builders.annotation.marks import Input, InputOneOf, SwitchCase
from ml_pipeline_engine.node import ProcessorBase

logging.disable(logging.CRITICAL)
calls = []


class Inp(ProcessorBase):
    name = 'inp'
    async def process(self, n: int) -> int:
        calls.append('inp'); return n

class Dec(ProcessorBase):
    name = 'dec'
    async def process(self, i: Input(Inp)) -> str:
        calls.append('dec'); return 'zzz'

class KA(ProcessorBase):
    name = 'ka'
    async def process(self, i: Input(Inp)) -> int:
        calls.append('ka'); return 1

class KB(ProcessorBase):
    name = 'kb'
    async def process(self, i: Input(Inp)) -> int:
        calls.append('kb'); return 2

class C1(ProcessorBase):
    name = 'c1'
    async def process(self, sw: SwitchCase(name='sw', switch=Dec, cases=[('a', KA), ('b', KB)])) -> int:
        calls.append('c1'); return 10

class C2(ProcessorBase):
    name = 'c2'
    async def process(self, i: Input(Inp)) -> int:
        calls.append('c2'); return 20

class Out(ProcessorBase):
    name = 'out'
    async def process(self, o: InputOneOf([C1, C2])) -> int:
        calls.append('out'); return o


async def main() -> int:
    chart = PipelineChart('m', build_dag(input_node=Inp, output_node=Out))
    try:
        res = await asyncio.wait_for(chart.run(input_kwargs=dict(n=1)), 5)
    except asyncio.TimeoutError:
        print('observed: hang'); return 1
    print('executed nodes :', calls)
    print('expected       : value=20 (C1 cannot be computed, so it loses; C2 is used)')
    print('observed       : value=%r error=%r' % (res.value, res.error))
    if isinstance(res.error, SwitchCaseDoesNotHaveBranchError) and 'c2' not in calls:
        print('DEFECT: a failure inside candidate C1 (switch without a branch for the label) failed the whole run; '
              'fallback C2 was never tried')
        return 1
    return 0 if (res.error is None and res.value == 20) else 1


sys.exit(asyncio.run(main()))
