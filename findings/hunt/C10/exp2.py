import os, sys; sys.path.insert(0, os.getcwd())
import asyncio, logging
import networkx as nx
from ml_pipeline_engine.chart import PipelineChart
from ml_pipeline_engine.dag_builders.annotation import build_dag
from ml_pipeline_engine.dag_builders.annotation.marks import Input, InputOneOf
from ml_pipeline_engine.node import ProcessorBase
logging.disable(logging.CRITICAL)
calls = []

class Inp(ProcessorBase):
    name = 'inp'
    async def process(self, n: int) -> int:
        calls.append('inp'); return n

class Slow(ProcessorBase):
    name = 'slow'
    async def process(self, i: Input(Inp)) -> int:
        calls.append('slow'); await asyncio.sleep(0.2); return 1

class Y(ProcessorBase):
    name = 'y'
    async def process(self, s: Input(Slow)) -> int:
        calls.append('y'); return s + 1

class P(ProcessorBase):
    name = 'p'
    async def process(self, i: Input(Inp)) -> int:
        calls.append('p'); return 1

class S(ProcessorBase):
    name = 's'
    async def process(self, i: Input(P)) -> int:
        calls.append('s-start')
        try:
            await asyncio.sleep(0.5)
        except asyncio.CancelledError:
            calls.append('s-CANCELLED'); raise
        calls.append('s-end'); return 's-value'

class F(ProcessorBase):
    name = 'f'
    async def process(self, i: Input(Inp)) -> int:
        calls.append('f'); await asyncio.sleep(0.05); raise ValueError('f failed')

class G(ProcessorBase):
    name = 'g'
    async def process(self, f: Input(F)) -> int:
        calls.append('g'); return 1

class C1(ProcessorBase):
    name = 'c1'
    async def process(self, s: Input(S), g: Input(G)) -> int:
        calls.append('c1'); return 10

class C2(ProcessorBase):
    name = 'c2'
    async def process(self, i: Input(Inp)) -> int:
        calls.append('c2'); return 20

class Out(ProcessorBase):
    name = 'out'
    async def process(self, o: InputOneOf([C1, C2]), y: Input(Y), s: Input(S)) -> tuple:
        calls.append('out'); return (y, s, o)

async def main():
    dag = build_dag(input_node=Inp, output_node=Out)
    print(list(nx.topological_sort(dag.graph)))
    chart = PipelineChart('m', dag)
    try:
        res = await asyncio.wait_for(chart.run(input_kwargs=dict(n=1)), 5)
        print('value', repr(res.value), 'error', repr(res.error))
    except asyncio.TimeoutError:
        print('HANG')
    print(calls)
asyncio.run(main())
