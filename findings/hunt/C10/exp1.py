import os, sys; sys.path.insert(0, os.getcwd())
import asyncio, sys, logging
from ml_pipeline_engine.chart import PipelineChart
from ml_pipeline_engine.dag_builders.annotation import build_dag
from ml_pipeline_engine.dag_builders.annotation.marks import Input, InputOneOf
from ml_pipeline_engine.node import ProcessorBase

calls = []

class Inp(ProcessorBase):
    name = 'inp'
    async def process(self, n: int) -> int:
        calls.append('inp'); return n

class Slow(ProcessorBase):
    name = 'slow'
    async def process(self, i: Input(Inp)) -> int:
        calls.append('slow'); await asyncio.sleep(0.2); return 1

class Y(ProcessorBase):
    name = 'y'
    async def process(self, s: Input(Slow)) -> int:
        calls.append('y'); return s + 1

class P(ProcessorBase):
    name = 'p'
    async def process(self, i: Input(Inp)) -> int:
        calls.append('p'); return 1

class Q(ProcessorBase):
    name = 'q'
    async def process(self, i: Input(P)) -> int:
        calls.append('q'); return 1

class X(ProcessorBase):
    name = 'x'
    async def process(self, i: Input(Q)) -> int:
        calls.append('x'); raise ValueError('x failed')

class C1(ProcessorBase):
    name = 'c1'
    async def process(self, x: Input(X)) -> int:
        calls.append('c1'); return 10

class C2(ProcessorBase):
    name = 'c2'
    async def process(self, i: Input(Inp)) -> int:
        calls.append('c2'); return 20

class Out(ProcessorBase):
    name = 'out'
    async def process(self, x: Input(X), o: InputOneOf([C1, C2]), y: Input(Y)) -> tuple:
        calls.append('out'); return (y, x, o)

logging.disable(logging.CRITICAL)
async def main():
    dag = build_dag(input_node=Inp, output_node=Out)
    import networkx as nx
    print(list(nx.topological_sort(dag.graph)))
    chart = PipelineChart('m', dag)
    res = await asyncio.wait_for(chart.run(input_kwargs=dict(n=1)), 5)
    print(calls)
    print('value', repr(res.value), 'error', repr(res.error))
asyncio.run(main())
