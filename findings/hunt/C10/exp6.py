import os, sys; sys.path.insert(0, os.getcwd())
import asyncio, logging
from ml_pipeline_engine.chart import PipelineChart
from ml_pipeline_engine.dag_builders.annotation import build_dag
from ml_pipeline_engine.dag_builders.annotation.marks import Input, InputOneOf, SwitchCase
from ml_pipeline_engine.node import ProcessorBase
logging.disable(logging.CRITICAL)

def mk(name, anns, fn):
    async def process(self, **kwargs):
        kw = kwargs
        CALLS.append(name)
        r = fn(**kw)
        if asyncio.iscoroutine(r): r = await r
        return r
    process.__annotations__ = anns
    return type('N_'+name, (ProcessorBase,), {'name': name, 'process': process})

CALLS = []
def run(title, build):
    CALLS.clear()
    class Inp(ProcessorBase):
        name = 'inp'
        async def process(self, n: int) -> int:
            CALLS.append('inp'); return n
    out = build(Inp)
    async def main():
        chart = PipelineChart('m', build_dag(input_node=Inp, output_node=out))
        try:
            res = await asyncio.wait_for(chart.run(input_kwargs=dict(n=1)), 3)
            print(title, '->', repr(res.value), repr(res.error), CALLS)
        except asyncio.TimeoutError:
            print(title, 'HANG', CALLS)
    asyncio.run(main())

def boom(msg):
    def f(**kw): raise ValueError(msg)
    return f

# S2: switch in candidate, success
def s2(Inp):
    dec = mk('dec', {'i': Input(Inp)}, lambda i: 'a')
    ka = mk('ka', {'i': Input(Inp)}, lambda i: 'KA')
    kb = mk('kb', {'i': Input(Inp)}, lambda i: 'KB')
    c1 = mk('c1', {'s': SwitchCase(name='sw', switch=dec, cases=[('a', ka), ('b', kb)])}, lambda s: ('c1', s))
    c2 = mk('c2', {'i': Input(Inp)}, lambda i: 'c2')
    return mk('out', {'o': InputOneOf([c1, c2])}, lambda o: o)
run('S2', s2)

# S3: decision node fails in candidate
def s3(Inp):
    dec = mk('dec', {'i': Input(Inp)}, boom('dec'))
    ka = mk('ka', {'i': Input(Inp)}, lambda i: 'KA')
    kb = mk('kb', {'i': Input(Inp)}, lambda i: 'KB')
    c1 = mk('c1', {'s': SwitchCase(name='sw', switch=dec, cases=[('a', ka), ('b', kb)])}, lambda s: ('c1', s))
    c2 = mk('c2', {'i': Input(Inp)}, lambda i: 'c2')
    return mk('out', {'o': InputOneOf([c1, c2])}, lambda o: o)
run('S3', s3)

# S3b: dependency of selected case fails in candidate
def s3b(Inp):
    dec = mk('dec', {'i': Input(Inp)}, lambda i: 'a')
    e = mk('e', {'i': Input(Inp)}, boom('e'))
    ka = mk('ka', {'i': Input(e)}, lambda i: 'KA')
    kb = mk('kb', {'i': Input(Inp)}, lambda i: 'KB')
    c1 = mk('c1', {'s': SwitchCase(name='sw', switch=dec, cases=[('a', ka), ('b', kb)])}, lambda s: ('c1', s))
    c2 = mk('c2', {'i': Input(Inp)}, lambda i: 'c2')
    return mk('out', {'o': InputOneOf([c1, c2])}, lambda o: o)
run('S3b', s3b)

# S4: switch shared between candidate and main
def s4(Inp):
    dec = mk('dec', {'i': Input(Inp)}, lambda i: 'a')
    ka = mk('ka', {'i': Input(Inp)}, lambda i: 'KA')
    kb = mk('kb', {'i': Input(Inp)}, lambda i: 'KB')
    sw = SwitchCase(name='sw', switch=dec, cases=[('a', ka), ('b', kb)])
    f = mk('f', {'i': Input(Inp)}, boom('f'))
    c1 = mk('c1', {'s': sw, 'f': Input(f)}, lambda s, f: ('c1', s))
    c2 = mk('c2', {'s': sw}, lambda s: ('c2', s))
    return mk('out', {'o': InputOneOf([c1, c2]), 's': sw}, lambda o, s: (o, s))
run('S4', s4)

# S5: one-of inside main switch case
def s5(Inp):
    dec = mk('dec', {'i': Input(Inp)}, lambda i: 'a')
    i1 = mk('i1', {'i': Input(Inp)}, boom('i1'))
    i2 = mk('i2', {'i': Input(Inp)}, lambda i: 'I2')
    ka = mk('ka', {'o': InputOneOf([i1, i2])}, lambda o: ('KA', o))
    j1 = mk('j1', {'i': Input(Inp)}, boom('j1'))
    j2 = mk('j2', {'i': Input(Inp)}, boom('j2'))
    kb = mk('kb', {'o': InputOneOf([j1, j2])}, lambda o: ('KB', o))
    return mk('out', {'s': SwitchCase(name='sw', switch=dec, cases=[('a', ka), ('b', kb)])}, lambda s: s)
run('S5', s5)

# S6: candidate sub-pipeline: switch whose selected case contains an inner one-of with first failing, second ok
def s6(Inp):
    dec = mk('dec', {'i': Input(Inp)}, lambda i: 'a')
    i1 = mk('i1', {'i': Input(Inp)}, boom('i1'))
    i2 = mk('i2', {'i': Input(Inp)}, lambda i: 'I2')
    ka = mk('ka', {'o': InputOneOf([i1, i2])}, lambda o: ('KA', o))
    kb = mk('kb', {'i': Input(Inp)}, lambda i: 'KB')
    c1 = mk('c1', {'s': SwitchCase(name='sw', switch=dec, cases=[('a', ka), ('b', kb)])}, lambda s: ('c1', s))
    c2 = mk('c2', {'i': Input(Inp)}, lambda i: 'c2')
    return mk('out', {'o': InputOneOf([c1, c2])}, lambda o: o)
run('S6', s6)
