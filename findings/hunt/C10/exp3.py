import os, sys; sys.path.insert(0, os.getcwd())
import asyncio, logging
import networkx as nx
from ml_pipeline_engine.chart import PipelineChart
from ml_pipeline_engine.dag_builders.annotation import build_dag
from ml_pipeline_engine.dag_builders.annotation.marks import Input, InputOneOf, SwitchCase
from ml_pipeline_engine.node import ProcessorBase
logging.disable(logging.CRITICAL)
calls = []

class Inp(ProcessorBase):
    name = 'inp'
    async def process(self, n: int) -> int:
        calls.append('inp'); return n

class Dec(ProcessorBase):
    name = 'dec'
    async def process(self, i: Input(Inp)) -> str:
        calls.append('dec'); return 'a'

class I1(ProcessorBase):
    name = 'i1'
    async def process(self, i: Input(Inp)) -> int:
        calls.append('i1'); raise ValueError('i1')

class I2(ProcessorBase):
    name = 'i2'
    async def process(self, i: Input(Inp)) -> int:
        calls.append('i2'); raise ValueError('i2')

class K(ProcessorBase):
    name = 'k'
    async def process(self, v: InputOneOf([I1, I2])) -> int:
        calls.append('k'); return v

class K2(ProcessorBase):
    name = 'k2'
    async def process(self, i: Input(Inp)) -> int:
        calls.append('k2'); return 2

class C1(ProcessorBase):
    name = 'c1'
    async def process(self, sw: SwitchCase(name='sw', switch=Dec, cases=[('a', K), ('b', K2)])) -> int:
        calls.append('c1'); return 10

class C2(ProcessorBase):
    name = 'c2'
    async def process(self, i: Input(Inp)) -> int:
        calls.append('c2'); return 20

class Out(ProcessorBase):
    name = 'out'
    async def process(self, o: InputOneOf([C1, C2])) -> tuple:
        calls.append('out'); return o

async def main():
    dag = build_dag(input_node=Inp, output_node=Out)
    chart = PipelineChart('m', dag)
    try:
        res = await asyncio.wait_for(chart.run(input_kwargs=dict(n=1)), 5)
        print('value', repr(res.value), 'error', repr(res.error))
    except asyncio.TimeoutError:
        print('HANG')
    print(calls)
asyncio.run(main())
