import os, sys; sys.path.insert(0, os.getcwd())
import asyncio, logging, random, json
from ml_pipeline_engine.chart import PipelineChart
from ml_pipeline_engine.dag_builders.annotation import build_dag
from ml_pipeline_engine.dag_builders.annotation.marks import Input, InputOneOf
from ml_pipeline_engine.node import ProcessorBase
from ml_pipeline_engine.dag.errors import OneOfDoesNotHaveResultError
logging.disable(logging.CRITICAL)
if os.environ.get("PATCH7"): import patch7

def gen(rng, n_nodes, p_fail, nesting, sharing, p_oneof=float(os.environ.get("POO", 0.35))):
    specs = {'inp': dict(name='inp', plain=[], oneofs=[], fail=False, delay=0, cand=False)}
    regular = ['inp']
    free_cands = []
    for i in range(n_nodes):
        name = f'n{i}'
        is_cand = rng.random() < 0.45
        plain = rng.sample(regular, k=min(len(regular), rng.choice([1, 1, 2])))
        oneofs = []
        if len(free_cands) >= 2 and rng.random() < p_oneof and (nesting or not is_cand):
            k = rng.choice([2, 2, 3]); k = min(k, len(free_cands))
            cs = rng.sample(free_cands, k=k)
            for c in cs:
                if not (os.environ.get('REUSE') and rng.random() < 0.5): free_cands.remove(c)
            oneofs.append(sorted(cs, key=lambda c: int(c[1:])) if rng.random() < .5 else cs)
        specs[name] = dict(name=name, plain=plain, oneofs=oneofs, fail=rng.random() < p_fail,
                           delay=rng.choice([0, 0, 0.001, 0.005, 0.02]), cand=is_cand, none=rng.random() < float(os.environ.get('PNONE', 0)))
        if is_cand:
            free_cands.append(name)
        else:
            regular.append(name)
    # out
    plain = rng.sample(regular, k=min(len(regular), rng.choice([1, 2, 3])))
    oneofs = []
    while len(free_cands) >= 2 and len(oneofs) < 3:
        k = min(rng.choice([2, 3]), len(free_cands))
        cs = rng.sample(free_cands, k=k)
        for c in cs:
            if not (os.environ.get('REUSE') and rng.random() < 0.3): free_cands.remove(c)
        oneofs.append(cs)
    specs['out'] = dict(name='out', plain=plain, oneofs=oneofs, fail=False, delay=0, cand=False)
    return specs

def reference(specs):
    memo = {}
    def ev(name):
        if name in memo: return memo[name]
        s = specs[name]
        vals = []
        res = None
        for p in s['plain']:
            r = ev(p)
            if r[0] == 'err':
                res = r; break
            vals.append(r[1])
        if res is None:
            for cs in s['oneofs']:
                got = None
                for c in cs:
                    r = ev(c)
                    if r[0] == 'ok':
                        got = r; break
                if got is None:
                    res = ('err', 'oneof'); break
                vals.append(got[1])
        if res is None:
            if s['fail']:
                res = ('err', 'value:' + name)
            else:
                res = ('ok', None if s.get('none') else (name, tuple(vals)))
        memo[name] = res
        return res
    return ev('out')

def build(specs, calls):
    classes = {}
    def mk(name):
        if name in classes: return classes[name]
        s = specs[name]
        ann = {}
        order = []
        for i, p in enumerate(s['plain']):
            ann[f'p{i}'] = Input(mk(p)); order.append(f'p{i}')
        for i, cs in enumerate(s['oneofs']):
            ann[f'o{i}'] = InputOneOf([mk(c) for c in cs]); order.append(f'o{i}')
        if name == 'inp':
            async def process(self, n: int):
                calls.append('inp'); return ('inp', ())
        else:
            async def process(self, **kwargs):
                calls.append(name)
                if s['delay']:
                    await asyncio.sleep(s['delay'])
                else:
                    await asyncio.sleep(0)
                if s['fail']:
                    raise ValueError(name)
                if s.get('none'): return None
                return (name, tuple(kwargs[k] for k in order))
            process.__annotations__ = ann
        cls = type('N_' + name, (ProcessorBase,), {'name': name, 'process': process})
        classes[name] = cls
        return cls
    return mk('inp'), mk('out')

async def run_one(specs):
    calls = []
    inp, out = build(specs, calls)
    chart = PipelineChart('m', build_dag(input_node=inp, output_node=out))
    try:
        res = await asyncio.wait_for(chart.run(input_kwargs=dict(n=1)), 3)
    except asyncio.TimeoutError:
        return ('hang', None), calls
    if res.error is not None:
        kind = 'oneof' if isinstance(res.error, OneOfDoesNotHaveResultError) else 'value:' + str(res.error)
        return ('err', kind), calls
    return ('ok', res.value), calls

def main():
    seed0 = int(sys.argv[1]); n = int(sys.argv[2]); nesting = sys.argv[3] == '1'; sharing = True
    p_fail = float(sys.argv[4]) if len(sys.argv) > 4 else 0.25
    bad = 0
    for seed in range(seed0, seed0 + n):
        rng = random.Random(seed)
        specs = gen(rng, rng.randint(int(os.environ.get("NMIN", 5)), int(os.environ.get("NMAX", 12))), p_fail, nesting, sharing)
        exp = reference(specs)
        got, calls = asyncio.run(run_one(specs))
        ok = (exp[0] == got[0]) and (exp[0] == 'err' or exp[1] == got[1])
        if not ok:
            bad += 1
            print('MISMATCH seed', seed, 'expected', exp, 'got', got)
            print('  calls', calls)
            for s in specs.values():
                print('  ', s['name'], 'plain', s['plain'], 'oneofs', s['oneofs'], 'FAIL' if s['fail'] else '', s['delay'])
    print('bad', bad, 'of', n)
main()
