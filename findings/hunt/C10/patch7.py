# exploration only: runtime monkeypatch emulating a fix of known defect (7), so that the fuzzer can look past it
import networkx as nx
from ml_pipeline_engine.dag import manager as M
from ml_pipeline_engine.dag.enums import EdgeField, NodeField
from ml_pipeline_engine.dag.graph import get_connected_subgraph

def _get_reduced_dag(self, source, dest, is_recurrent=False, is_oneof=False, is_nested_oneof=False):
    def _filter(u, v):
        return not self.dag.graph.edges[u, v].get(EdgeField.case_branch)
    def _filter_node(u):
        return u == dest or not self.dag.graph.nodes[u].get(NodeField.is_oneof_child)
    if is_oneof:
        self._started_oneof_children.add(dest)
    return get_connected_subgraph(
        dag=nx.subgraph_view(self.dag.graph, filter_edge=_filter, filter_node=_filter_node),
        source=source, dest=dest, is_recurrent=is_recurrent, is_oneof=is_oneof, is_nested_oneof=is_nested_oneof,
    )
M.DAGRunConcurrentManager._get_reduced_dag = _get_reduced_dag
