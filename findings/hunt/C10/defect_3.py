r"""
Defect 3: an inner one-of whose candidates all fail is NOT contained when its consumer is reached through a switch
case inside an outer candidate - the whole run fails with OneOfDoesNotHaveResultError although the outer one-of still
has an untried (healthy) fallback candidate.

Shape:
    Out(o: InputOneOf([C1, C2]))
    C1(sw: SwitchCase(switch=Dec, cases=[('a', K), ('b', K2)]))      Dec returns 'a'
    K(v: InputOneOf([I1, I2]))                                       I1 and I2 raise
    C2(Input(Inp))                                                   healthy fallback
Control: the same inner one-of consumed by C1 through a plain Input instead of a switch is contained correctly.
"""
import os, sys; sys.path.insert(0, os.getcwd())
import asyncio, logging
from ml_pipeline_engine.chart import PipelineChart
from ml_pipeline_engine.dag.errors import OneOfDoesNotHaveResultError
from ml_pipeline_engine.dag_builders.annotation import build_dag
from ml_pipeline_engine.dag_builders.annotation.marks import Input, InputOneOf, SwitchCase
from ml_pipeline_engine.node import ProcessorBase

logging.disable(logging.CRITICAL)
calls = []


class Inp(ProcessorBase):
    name = 'inp'
    async def process(self, n: int) -> int:
        calls.append('inp'); return n

class Dec(ProcessorBase):
    name = 'dec'
    async def process(self, i: Input(Inp)) -> str:
        calls.append('dec'); return 'a'

class I1(ProcessorBase):
    name = 'i1'
    async def process(self, i: Input(Inp)) -> int:
        calls.append('i1'); raise ValueError('i1 failed')

class I2(ProcessorBase):
    name = 'i2'
    async def process(self, i: Input(Inp)) -> int:
        calls.append('i2'); raise ValueError('i2 failed')

class K(ProcessorBase):
    name = 'k'
    async def process(self, v: InputOneOf([I1, I2])) -> int:
        calls.append('k'); return v

class K2(ProcessorBase):
    name = 'k2'
    async def process(self, i: Input(Inp)) -> int:
        calls.append('k2'); return 2

class C1(ProcessorBase):
    name = 'c1'
    async def process(self, sw: SwitchCase(name='sw', switch=Dec, cases=[('a', K), ('b', K2)])) -> int:
        calls.append('c1'); return 10

class C1Plain(ProcessorBase):
    name = 'c1_plain'
    async def process(self, k: Input(K)) -> int:
        calls.append('c1_plain'); return 10

class C2(ProcessorBase):
    name = 'c2'
    async def process(self, i: Input(Inp)) -> int:
        calls.append('c2'); return 20

class Out(ProcessorBase):
    name = 'out'
    async def process(self, o: InputOneOf([C1, C2])) -> int:
        calls.append('out'); return o

class OutControl(ProcessorBase):
    name = 'out_control'
    async def process(self, o: InputOneOf([C1Plain, C2])) -> int:
        calls.append('out'); return o


async def run(out):
    calls.clear()
    chart = PipelineChart('m', build_dag(input_node=Inp, output_node=out))
    try:
        return await asyncio.wait_for(chart.run(input_kwargs=dict(n=1)), 5)
    except asyncio.TimeoutError:
        return None


async def main() -> int:
    res = await run(OutControl)
    print('control (inner one-of behind a plain Input): value=%r error=%r nodes=%s' % (res.value, res.error, calls))

    res = await run(Out)
    print('executed nodes :', calls)
    print('expected       : value=20 (C1 loses with OneOfDoesNotHaveResultError of the inner one-of, C2 is used)')
    if res is None:
        print('observed       : hang'); return 1
    print('observed       : value=%r error=%r' % (res.value, res.error))
    if isinstance(res.error, OneOfDoesNotHaveResultError) and 'c2' not in calls:
        print('DEFECT: the failure of the inner one-of (inside losing candidate C1) failed the whole run; '
              'fallback C2 was never tried')
        return 1
    return 0 if (res.error is None and res.value == 20) else 1


sys.exit(asyncio.run(main()))
