r"""
Defect 5 (additional): "the node failed" is encoded in-band as "the stored result is an exception instance", so a node
that *returns* (does not raise) an exception object is treated as failed by every one-of whose candidate sub-pipeline
contains it.

Part A: candidate C1 successfully returns ValueError('as value') (e.g. a validation node returning the problem it
        found).  Expected: consumer receives that object from C1, C2 is never executed.  Observed: C1 is rejected, the
        later candidate C2 is executed and its value delivered.
Part B: an ordinary upstream node U (consumed through plain Inputs, outside of any one-of, it is also consumed by the
        output node itself) returns KeyError('k') as its value.  Every candidate depends on U.  Expected: C1's value.
        Observed: no candidate body is even executed and the run fails with OneOfDoesNotHaveResultError.
"""
import os, sys; sys.path.insert(0, os.getcwd())
import asyncio, logging
from ml_pipeline_engine.chart import PipelineChart
from ml_pipeline_engine.dag.errors import OneOfDoesNotHaveResultError
from ml_pipeline_engine.dag_builders.annotation import build_dag
from ml_pipeline_engine.dag_builders.annotation.marks import Input, InputOneOf
from ml_pipeline_engine.node import ProcessorBase

logging.disable(logging.CRITICAL)
calls = []
VALUE = ValueError('as value')


class Inp(ProcessorBase):
    name = 'inp'
    async def process(self, n: int) -> int:
        calls.append('inp'); return n

class C1(ProcessorBase):
    name = 'c1'
    async def process(self, i: Input(Inp)) -> Exception:
        calls.append('c1'); return VALUE                 # returned, not raised

class C2(ProcessorBase):
    name = 'c2'
    async def process(self, i: Input(Inp)) -> str:
        calls.append('c2'); return 'fallback'

class OutA(ProcessorBase):
    name = 'out_a'
    async def process(self, o: InputOneOf([C1, C2])) -> object:
        calls.append('out'); return o

class U(ProcessorBase):
    name = 'u'
    async def process(self, i: Input(Inp)) -> Exception:
        calls.append('u'); return KeyError('k')          # returned, not raised

class D1(ProcessorBase):
    name = 'd1'
    async def process(self, u: Input(U)) -> str:
        calls.append('d1'); return 'd1 saw %r' % (u,)

class D2(ProcessorBase):
    name = 'd2'
    async def process(self, u: Input(U)) -> str:
        calls.append('d2'); return 'd2 saw %r' % (u,)

class OutB(ProcessorBase):
    name = 'out_b'
    async def process(self, u: Input(U), o: InputOneOf([D1, D2])) -> object:
        calls.append('out'); return o


async def run(out):
    calls.clear()
    chart = PipelineChart('m', build_dag(input_node=Inp, output_node=out))
    return await asyncio.wait_for(chart.run(input_kwargs=dict(n=1)), 5)


async def main() -> int:
    bad = 0
    res = await run(OutA)
    print('--- part A: candidate returns an exception instance as its value')
    print('executed nodes :', calls)
    print('expected       : value=%r, C2 not executed' % (VALUE,))
    print('observed       : value=%r error=%r' % (res.value, res.error))
    if res.value is not VALUE or 'c2' in calls:
        print('DEFECT: successful candidate C1 was treated as failed, later candidate C2 was executed and delivered')
        bad = 1

    res = await run(OutB)
    print('--- part B: plain upstream node returns an exception instance as its value')
    print('executed nodes :', calls)
    print("expected       : value=\"d1 saw KeyError('k')\"")
    print('observed       : value=%r error=%r' % (res.value, res.error))
    if isinstance(res.error, OneOfDoesNotHaveResultError):
        print('DEFECT: no candidate was executed, all were rejected, the run failed with OneOfDoesNotHaveResultError')
        bad = 1
    return bad


sys.exit(asyncio.run(main()))
