r"""
Defect 2: a losing one-of candidate cancels a still running node that other consumers need.

Shape (part A, wrong value):
    Inp -> Slow -> Y ----------------------------\
    Inp -> P -> S (slow, succeeds) ---------------> Out(o: InputOneOf([C1, C2]), y: Input(Y), s: Input(S))
    Inp -> F (raises) -> G --\                    /
                    S --------> C1 --\           /
    Inp -> C2 ------------------------> one-of -/
The C1 sub-dag starts F and S.  F fails while S is still running; when the sub-dag loop reaches G it sees the error and
cancels *all* tasks it created - including S, which Out also needs through a plain Input.  S stays "processed" without
a result, the main dag's request for S republishes None, and Out is called with s=None.

Part B (hang): S's other consumer is candidate B1 of a sibling one-of InputOneOf([B0, B1, B2]) that is tried after the
cancellation (B0 fails late).  B1's sub-dag skips S as "already processed" and waits for its result forever; the
whole run hangs.
"""
import os, sys; sys.path.insert(0, os.getcwd())
import asyncio, logging
from ml_pipeline_engine.chart import PipelineChart
from ml_pipeline_engine.dag_builders.annotation import build_dag
from ml_pipeline_engine.dag_builders.annotation.marks import Input, InputOneOf
from ml_pipeline_engine.node import ProcessorBase

logging.disable(logging.CRITICAL)
EV = {}
calls = []


class Inp(ProcessorBase):
    name = 'inp'
    async def process(self, n: int) -> int:
        calls.append('inp'); return n

class Slow(ProcessorBase):
    name = 'slow'
    async def process(self, i: Input(Inp)) -> int:
        calls.append('slow')
        await asyncio.wait_for(EV['c2_done'].wait(), 2)    # keeps the main loop parked on Y until the one-of is resolved
        return 1

class Y(ProcessorBase):
    name = 'y'
    async def process(self, s: Input(Slow)) -> int:
        calls.append('y'); return s + 1

class P(ProcessorBase):
    name = 'p'
    async def process(self, i: Input(Inp)) -> int:
        calls.append('p'); return 1

class S(ProcessorBase):
    name = 's'
    async def process(self, i: Input(P)) -> str:
        calls.append('s:start')
        EV['s_started'].set()
        try:
            await asyncio.sleep(0.3)                        # long running, healthy node
        except asyncio.CancelledError:
            calls.append('s:CANCELLED'); raise
        calls.append('s:end')
        return 's-value'

class F(ProcessorBase):
    name = 'f'
    async def process(self, i: Input(Inp)) -> int:
        calls.append('f')
        await asyncio.wait_for(EV['s_started'].wait(), 2)  # fails while S is running
        raise ValueError('f failed')

class G(ProcessorBase):
    name = 'g'
    async def process(self, f: Input(F)) -> int:
        calls.append('g'); return 1

class C1(ProcessorBase):
    name = 'c1'
    async def process(self, s: Input(S), g: Input(G)) -> int:
        calls.append('c1'); return 10

class C2(ProcessorBase):
    name = 'c2'
    async def process(self, i: Input(Inp)) -> int:
        calls.append('c2'); EV['c2_done'].set(); return 20

class OutA(ProcessorBase):
    name = 'out_a'
    async def process(self, o: InputOneOf([C1, C2]), y: Input(Y), s: Input(S)) -> dict:
        calls.append('out'); return dict(o=o, y=y, s=s)

# ---- part B
class B0(ProcessorBase):
    name = 'b0'
    async def process(self, i: Input(Inp)) -> str:
        calls.append('b0')
        await asyncio.wait_for(EV['c2_done'].wait(), 2)    # fails after C1 has lost (i.e. after S was cancelled)
        raise ValueError('b0 failed')

class B1(ProcessorBase):
    name = 'b1'
    async def process(self, s: Input(S)) -> str:
        calls.append('b1'); return 'b1:' + str(s)

class B2(ProcessorBase):
    name = 'b2'
    async def process(self, i: Input(Inp)) -> str:
        calls.append('b2'); return 'b2'

class Mid(ProcessorBase):
    name = 'mid'
    async def process(self, b: InputOneOf([B0, B1, B2])) -> str:
        calls.append('mid'); return b

class OutB(ProcessorBase):
    name = 'out_b'
    async def process(self, o: InputOneOf([C1, C2]), m: Input(Mid)) -> dict:
        calls.append('out'); return dict(o=o, m=m)


async def run(out) -> tuple:
    calls.clear()
    EV['s_started'] = asyncio.Event()
    EV['c2_done'] = asyncio.Event()
    chart = PipelineChart('m', build_dag(input_node=Inp, output_node=out))
    try:
        res = await asyncio.wait_for(chart.run(input_kwargs=dict(n=1)), 5)
        return 'done', res
    except asyncio.TimeoutError:
        return 'hang', None


async def main() -> int:
    bad = 0

    state, res = await run(OutA)
    print('--- part A: S shared by losing candidate C1 and by a plain Input of the output node')
    print('executed nodes :', calls)
    print("expected       : value={'o': 20, 'y': 2, 's': 's-value'} (C1 loses because of F, S is healthy)")
    print('observed       :', state, res and 'value=%r error=%r' % (res.value, res.error))
    if state == 'hang' or res.error is not None or res.value != {'o': 20, 'y': 2, 's': 's-value'}:
        print('DEFECT: S was cancelled by the losing candidate; its other consumer did not get its value')
        bad = 1

    state, res = await run(OutB)
    print('--- part B: S shared by losing candidate C1 and by candidate B1 of a sibling one-of that is tried later')
    print('executed nodes :', calls)
    print("expected       : value={'o': 20, 'm': 'b1:s-value'}")
    print('observed       :', state, res and 'value=%r error=%r' % (res.value, res.error))
    if state == 'hang' or res.error is not None or res.value != {'o': 20, 'm': 'b1:s-value'}:
        print('DEFECT: sibling one-of was affected by the cancellation done for the losing candidate')
        bad = 1

    return bad


sys.exit(asyncio.run(main()))
