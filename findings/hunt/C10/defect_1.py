r"""
Defect 1: a node shared by a one-of candidate and a plain Input consumer.  When the candidate's sub-dag happens to
execute the shared node first and the node fails, the failure is stored as the node's *result*; the plain consumer
later receives the exception object as an ordinary argument value and the run "succeeds".

Shape:
    Inp -> Slow -> Y ------------------\
    Inp -> P -> Q -> X (raises) --------> Out(y: Input(Y), x: Input(X), o: InputOneOf([C1, C2]))
                     X -> C1 ----\       /
    Inp -> C2 --------------------> one-of
Interleaving (forced with an asyncio.Event): the main loop is parked on Y (waiting for Slow) while the C1 sub-dag runs
P, Q, X.  Slow only finishes after X has been executed.
"""
import os, sys; sys.path.insert(0, os.getcwd())
import asyncio, logging
from ml_pipeline_engine.chart import PipelineChart
from ml_pipeline_engine.dag_builders.annotation import build_dag
from ml_pipeline_engine.dag_builders.annotation.marks import Input, InputOneOf
from ml_pipeline_engine.node import ProcessorBase

logging.disable(logging.CRITICAL)
EV = {}
calls = []


class Inp(ProcessorBase):
    name = 'inp'
    async def process(self, n: int) -> int:
        calls.append('inp'); return n

class Slow(ProcessorBase):
    name = 'slow'
    async def process(self, i: Input(Inp)) -> int:
        calls.append('slow')
        await asyncio.wait_for(EV['x_executed'].wait(), 2)   # finishes only after X was executed
        return 1

class Y(ProcessorBase):
    name = 'y'
    async def process(self, s: Input(Slow)) -> int:
        calls.append('y'); return s + 1

class P(ProcessorBase):
    name = 'p'
    async def process(self, i: Input(Inp)) -> int:
        calls.append('p'); return 1

class Q(ProcessorBase):
    name = 'q'
    async def process(self, i: Input(P)) -> int:
        calls.append('q'); return 1

class X(ProcessorBase):
    name = 'x'
    async def process(self, i: Input(Q)) -> int:
        calls.append('x')
        EV['x_executed'].set()
        raise ValueError('x failed')

class C1(ProcessorBase):
    name = 'c1'
    async def process(self, x: Input(X)) -> int:
        calls.append('c1'); return 10

class C2(ProcessorBase):
    name = 'c2'
    async def process(self, i: Input(Inp)) -> int:
        calls.append('c2'); return 20

class Out(ProcessorBase):
    name = 'out'
    async def process(self, x: Input(X), o: InputOneOf([C1, C2]), y: Input(Y)) -> tuple:
        calls.append('out'); return dict(x=x, o=o, y=y)


async def main() -> int:
    EV['x_executed'] = asyncio.Event()
    chart = PipelineChart('m', build_dag(input_node=Inp, output_node=Out))
    try:
        res = await asyncio.wait_for(chart.run(input_kwargs=dict(n=1)), 10)
    except asyncio.TimeoutError:
        print('UNEXPECTED: run hangs'); return 1

    print('executed nodes :', calls)
    print('expected       : the run fails with ValueError("x failed") - Out needs X through a plain Input and X raised')
    print('observed       : value=%r error=%r' % (res.value, res.error))

    if res.error is None and isinstance(res.value, dict) and isinstance(res.value.get('x'), BaseException):
        print('DEFECT: Out.process() was called with the exception object %r as the value of its plain Input(X)'
              % (res.value['x'],))
        return 1
    if isinstance(res.error, ValueError):
        print('ok: failure of X surfaced as the run error')
        return 0
    print('UNEXPECTED outcome'); return 1


sys.exit(asyncio.run(main()))
