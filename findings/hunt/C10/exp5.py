import os, sys; sys.path.insert(0, os.getcwd())
import asyncio, logging
from ml_pipeline_engine.chart import PipelineChart
from ml_pipeline_engine.dag_builders.annotation import build_dag
from ml_pipeline_engine.dag_builders.annotation.marks import Input, InputOneOf
from ml_pipeline_engine.node import ProcessorBase
logging.disable(logging.CRITICAL)

def run_case(val_c1, inp_val=1):
    calls = []
    class Inp(ProcessorBase):
        name = 'inp'
        async def process(self, n: int) -> int:
            calls.append('inp'); return inp_val
    class C1(ProcessorBase):
        name = 'c1'
        async def process(self, i: Input(Inp)) -> int:
            calls.append('c1'); return val_c1
    class C2(ProcessorBase):
        name = 'c2'
        async def process(self, i: Input(Inp)) -> int:
            calls.append('c2'); return 'fallback'
    class Out(ProcessorBase):
        name = 'out'
        async def process(self, o: InputOneOf([C1, C2])) -> tuple:
            calls.append('out'); return ('out', o)
    async def main():
        chart = PipelineChart('m', build_dag(input_node=Inp, output_node=Out))
        try:
            res = await asyncio.wait_for(chart.run(input_kwargs=dict(n=1)), 5)
            print(repr(val_c1), repr(inp_val), '->', repr(res.value), repr(res.error), calls)
        except asyncio.TimeoutError:
            print(repr(val_c1), 'HANG', calls)
    asyncio.run(main())

for v in [None, 0, [], {}, '', False, {'a': [1]}, ValueError('as value'), ValueError, StopIteration()]:
    run_case(v)
run_case(5, inp_val=KeyError('looked-up key missing'))
