import asyncio, sys, random, logging, inspect
sys.path.insert(0, '.')
from ml_pipeline_engine.chart import PipelineChart
from ml_pipeline_engine.dag_builders.annotation import build_dag
from ml_pipeline_engine.dag_builders.annotation.marks import Input, SwitchCase, InputOneOf
from ml_pipeline_engine.node import ProcessorBase
import networkx as nx
logging.disable(logging.CRITICAL)
import os
if os.environ.get('MASK'): import patch_known

class Missing(Exception): pass

def gen(seed):
    rnd = random.Random(seed)
    ran = []
    spec, classes, labels_of, failing = {}, {}, {}, set()
    def value(name, args):
        return labels_of[name] if name in labels_of else (name, tuple(args))
    def mk(name, params, fails=False):
        ann = {}
        for i, p in enumerate(params):
            if p[0] == 'in':
                ann[f'p{i}'] = Input(classes[p[1]])
            elif p[0] == 'sw':
                ann[f'p{i}'] = SwitchCase(switch=classes[p[1]], cases=[(l, classes[c]) for l, c in p[2]], name=p[3])
            else:
                ann[f'p{i}'] = InputOneOf([classes[c] for c in p[1]])
        delay = rnd.randint(0, 3)
        async def process(self, **kw):
            for _ in range(delay):
                await asyncio.sleep(0)
            ran.append(name)
            if fails: raise ValueError(name)
            return value(name, [kw[f'p{i}'] for i in range(len(params))])
        process.__annotations__ = dict(ann)
        process.__signature__ = inspect.Signature(
            [inspect.Parameter('self', inspect.Parameter.POSITIONAL_OR_KEYWORD)] +
            [inspect.Parameter(k, inspect.Parameter.KEYWORD_ONLY, annotation=v) for k, v in ann.items()])
        classes[name] = type(name, (ProcessorBase,), {'process': process, 'name': name, '__module__': 'fz'})
        spec[name] = params
        if fails: failing.add(name)
    async def inp_process(self, x: int):
        ran.append('n0'); return ('n0', ())
    classes['n0'] = type('n0', (ProcessorBase,), {'process': inp_process, 'name': 'n0', '__module__': 'fz'})
    spec['n0'] = []
    names = ['n0']
    swc = [0]
    def rand_params(pool, kmax=2):
        params, used = [], set()
        for _ in range(rnd.randint(1, kmax)):
            if rnd.random() < 0.5 and len(pool) >= 3:
                dec = rnd.choice([p for p in pool if p != 'n0'])
                cands = [c for c in pool if c != dec]
                cs = rnd.sample(cands, min(rnd.randint(1, 3), len(cands)))
                swc[0] += 1
                params.append(('sw', dec, [(f'l{j}', c) for j, c in enumerate(cs)], f's{swc[0]}'))
            else:
                src = rnd.choice(pool)
                if src in used: continue
                used.add(src); params.append(('in', src))
        if not params: params.append(('in', rnd.choice(pool)))
        return params
    npub = rnd.randint(2, 6)
    for i in range(1, npub + 1):
        name = f'n{i}'
        mk(name, rand_params(names)); names.append(name)
    # one-of layer
    out_params = []
    cid = 0
    for _ in range(rnd.randint(1, 2)):
        cands = []
        for _ in range(rnd.randint(1, 3)):
            cid += 1
            cname = f'c{cid}'
            mk(cname, rand_params(names), fails=rnd.random() < 0.4)
            cands.append(cname)
        out_params.append(('oo', cands))
    if rnd.random() < 0.5:
        out_params += rand_params(names, 1)
    mk('out', out_params)
    # labels
    deciders = sorted({p[1] for ps in spec.values() for p in ps if p[0] == 'sw'})
    for d in deciders:
        labs = [l for ps in spec.values() for p in ps if p[0] == 'sw' and p[1] == d for l, _ in p[2]]
        pub_labs = [l for n_, ps in spec.items() if n_.startswith('n') for p in ps if p[0] == 'sw' and p[1] == d for l, _ in p[2]]
        # choose a label valid for every public switch of this decider
        common = None
        for n_, ps in spec.items():
            if not n_.startswith('n'): continue
            for p in ps:
                if p[0] == 'sw' and p[1] == d:
                    s_ = {l for l, _ in p[2]}
                    common = s_ if common is None else common & s_
        if common is None:
            labels_of[d] = rnd.choice(labs)
        elif common:
            labels_of[d] = rnd.choice(sorted(common))
        else:
            return None
    return classes, spec, labels_of, ran, failing

def reference(spec, labels_of, failing):
    executed, memo = [], {}
    def ev(name):
        if name in memo:
            if isinstance(memo[name], Missing): raise memo[name]
            return memo[name]
        try:
            args = []
            for p in spec[name]:
                if p[0] == 'in':
                    args.append(ev(p[1]))
                elif p[0] == 'sw':
                    lab = ev(p[1]); m = dict(p[2])
                    if lab not in m: raise Missing('label ' + p[3])
                    args.append(ev(m[lab]))
                else:
                    for c in p[1]:
                        try:
                            args.append(ev(c)); break
                        except Missing:
                            continue
                    else:
                        raise Missing('oneof')
            executed.append(name)
            if name in failing: raise Missing('fail ' + name)
            v = labels_of[name] if name in labels_of else (name, tuple(args))
        except Missing as e:
            memo[name] = e
            raise
        memo[name] = v
        return v
    return ev('out'), executed

def known_deadlock(dag):
    from ml_pipeline_engine.dag.manager import DAGRunConcurrentManager
    m = DAGRunConcurrentManager(ctx=None, dag=dag)
    g = dag.graph
    m._started_oneof_children = {n for n in g.nodes if g.nodes[n].get('is_oneof_child')}
    dests = [dag.output_node] + [u for u, v, d in g.edges(data=True) if 'case_branch' in d] + list(m._started_oneof_children)
    for dest in dests:
        try:
            sub = m._get_reduced_dag(dag.input_node, dest)
        except Exception:
            continue
        order = list(nx.topological_sort(sub))
        nodes = set(order)
        for s_ in nodes:
            if g.nodes[s_].get('is_switch'):
                for p in g.predecessors(s_):
                    if 'case_branch' in g.edges[p, s_] and p in nodes and order.index(p) > order.index(s_):
                        return True
    return False

async def one(seed):
    g_ = gen(seed)
    if g_ is None: return None
    classes, spec, labels_of, ran, failing = g_
    try:
        exp, exp_exec = reference(spec, labels_of, failing); exp_err = None
    except Missing as e:
        exp, exp_exec, exp_err = None, None, e
    dag = build_dag(input_node=classes['n0'], output_node=classes['out'])
    known = known_deadlock(dag)
    chart = PipelineChart('m', dag)
    info = (seed, spec, labels_of, sorted(failing))
    try:
        r = await asyncio.wait_for(chart.run(input_kwargs={'x': 1}), 3)
    except asyncio.TimeoutError:
        return ('HANG-known' if known else 'HANG', *info, list(ran), 'exp', exp, exp_err)
    if exp_err is not None:
        if r.error is None:
            return ('NOERR', *info, r.value)
        return None
    if r.error is not None:
        return ('ERR', *info, repr(r.error), 'exp', exp)
    if r.value != exp:
        return ('VALUE', *info, r.value, exp)
    if set(ran) - set(exp_exec):
        return ('EXEC', *info, sorted(ran), sorted(exp_exec))
    return None

async def main():
    lo, hi = int(sys.argv[1]), int(sys.argv[2])
    lim = int(sys.argv[3])
    from collections import Counter
    cnt = Counter()
    for seed in range(lo, hi):
        try:
            res = await one(seed)
        except Exception as e:
            import traceback; traceback.print_exc()
            res = ('BUILD', seed, repr(e))
        if res:
            cnt[res[0]] += 1
            if cnt[res[0]] <= lim and res[0] != 'HANG-known':
                print(res)
    print(cnt)
asyncio.run(main())
