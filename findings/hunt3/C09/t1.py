import asyncio, sys
sys.path.insert(0, '.')
from ml_pipeline_engine.chart import PipelineChart
from ml_pipeline_engine.dag_builders.annotation import build_dag
from ml_pipeline_engine.dag_builders.annotation.marks import Input, SwitchCase, InputOneOf, RecurrentSubGraph
from ml_pipeline_engine.node import ProcessorBase

ran = []

class Inp(ProcessorBase):
    async def process(self, x: str) -> str:
        ran.append('Inp'); return x

class D(ProcessorBase):
    async def process(self, x: Input(Inp)) -> str:
        ran.append('D'); return x

class A(ProcessorBase):
    async def process(self, x: Input(Inp)) -> str:
        ran.append('A'); return 'A'

class B(ProcessorBase):
    async def process(self, x: Input(Inp)) -> str:
        ran.append('B'); return 'B'

# same node for two labels
class C1(ProcessorBase):
    async def process(self, v: SwitchCase(switch=D, cases=[('a', A), ('b', A), ('c', B)], name='s1')) -> str:
        ran.append('C1'); return v

async def run(out, **kw):
    ran.clear()
    chart = PipelineChart('m', build_dag(input_node=Inp, output_node=out))
    try:
        r = await asyncio.wait_for(chart.run(input_kwargs=kw), 5)
        print(out.__name__, kw, '->', r.value, repr(r.error), ran)
    except asyncio.TimeoutError:
        print(out.__name__, kw, 'HANG', ran)

# case = input node
class C2(ProcessorBase):
    async def process(self, v: SwitchCase(switch=D, cases=[('a', Inp), ('b', B)], name='s2')) -> str:
        ran.append('C2'); return v

# duplicate label
class C3(ProcessorBase):
    async def process(self, v: SwitchCase(switch=D, cases=[('a', A), ('a', B)], name='s3')) -> str:
        ran.append('C3'); return v

# decider is also a case
class C4(ProcessorBase):
    async def process(self, v: SwitchCase(switch=D, cases=[('a', D), ('b', B)], name='s4')) -> str:
        ran.append('C4'); return v

async def main():
    for lab in 'abc':
        await run(C1, x=lab)
    for lab in 'ab':
        await run(C2, x=lab)
    for lab in 'ab':
        await run(C3, x=lab)
    for lab in 'ab':
        await run(C4, x=lab)
asyncio.run(main())
