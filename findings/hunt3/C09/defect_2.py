"""
Defect 2: a case that is selected for the first time in a repeated iteration of a recurrent subgraph is executed
before its own inputs: every input that lies outside the subgraph and has not been computed yet is delivered as None.

Shape
    Inp -> Start -> Decider -> switch -> Dest           RecurrentSubGraph(Start, Dest)
                 cases: 'p' -> P(Inp)                  (outside the subgraph)
                        'q' -> Q(Start, K)  K(Inp)     (Q inside the subgraph, K outside, K needed only by Q)

    iteration 1: Decider -> 'p'  (Q, K correctly not executed); Dest asks for the next iteration
    iteration 2: Decider -> 'q'  -> expected: K is executed, Q receives k='K', Dest receives 'Q(1,K)'
                                 -> observed: Q is executed with k=None, K is executed AFTER Q

Run: /venv/bin/python _hunt/defect_2.py   (from /tmp/hunt_C09); exits 1 when the defect shows.
"""
import asyncio
import logging
import sys
import typing as t

sys.path.insert(0, '.')

from ml_pipeline_engine.chart import PipelineChart
from ml_pipeline_engine.dag_builders.annotation import build_dag
from ml_pipeline_engine.dag_builders.annotation.marks import Input
from ml_pipeline_engine.dag_builders.annotation.marks import RecurrentSubGraph
from ml_pipeline_engine.dag_builders.annotation.marks import SwitchCase
from ml_pipeline_engine.node import ProcessorBase
from ml_pipeline_engine.node import RecurrentProcessor

logging.disable(logging.CRITICAL)

ran: t.List[str] = []


class Inp(ProcessorBase):
    async def process(self, x: int) -> int:
        ran.append('Inp')
        return x


class Start(RecurrentProcessor):
    async def process(self, x: Input(Inp), additional_data: t.Optional[t.Any] = None) -> int:
        iteration = additional_data or 0
        ran.append(f'Start(iteration={iteration})')
        return iteration


class Decider(RecurrentProcessor):
    async def process(self, iteration: Input(Start)) -> str:
        label = 'p' if iteration == 0 else 'q'
        ran.append(f'Decider->{label}')
        return label


class P(ProcessorBase):
    async def process(self, x: Input(Inp)) -> str:
        ran.append('P')
        return 'P'


class K(ProcessorBase):
    async def process(self, x: Input(Inp)) -> str:
        ran.append('K')
        return 'K'


class Q(ProcessorBase):
    async def process(self, iteration: Input(Start), k: Input(K)) -> str:
        ran.append(f'Q(iteration={iteration}, k={k!r})')
        return f'Q({iteration},{k})'


class Dest(RecurrentProcessor):
    async def process(
        self,
        v: SwitchCase(switch=Decider, cases=[('p', P), ('q', Q)], name='sw'),
        iteration: Input(Start),
    ) -> t.Any:
        ran.append(f'Dest(v={v!r})')
        if iteration == 0:
            return self.next_iteration(1)
        return v


class Out(ProcessorBase):
    async def process(self, v: RecurrentSubGraph(start_node=Start, dest_node=Dest, max_iterations=3)) -> t.Any:
        ran.append('Out')
        return v


async def main() -> int:
    chart = PipelineChart('m', build_dag(input_node=Inp, output_node=Out))
    try:
        result = await asyncio.wait_for(chart.run(input_kwargs={'x': 1}), 5)
    except asyncio.TimeoutError:
        print('HANG, executed:', ran)
        return 1

    print('expected: value "Q(1,K)", error None, K executed before Q, Q executed with k="K"')
    print(f'observed: value {result.value!r}, error {result.error!r}')
    print('executed:', ran)

    bad = result.error is not None or result.value != 'Q(1,K)'
    q_calls = [x for x in ran if x.startswith('Q(')]
    if q_calls and 'K' in ran and ran.index('K') > ran.index(q_calls[0]):
        print('K (an input of the selected case Q) was executed only after Q')
        bad = True

    print('DEFECT SHOWN' if bad else 'no defect')
    return 1 if bad else 0


sys.exit(asyncio.run(main()))
