from h import *
import typing as t
# never-selected inside case with an outside dependency: crashes on None in the re-iteration
class Inp(ProcessorBase):
    async def process(self, x: t.Any) -> t.Any:
        ran.append('Inp'); return x
class Start(RecurrentProcessor):
    async def process(self, x: Input(Inp), additional_data: t.Optional[t.Any] = None) -> t.Any:
        ran.append(f'Start({additional_data})'); return additional_data or 0
class D2(ProcessorBase):
    async def process(self, s: Input(Inp)) -> t.Any:
        ran.append('D2'); return 'p'
class P(ProcessorBase):
    async def process(self, x: Input(Inp)) -> t.Any:
        ran.append('P'); return 'P'
class K(ProcessorBase):
    async def process(self, x: Input(Inp)) -> t.Any:
        ran.append('K'); return 'k'
class Q(ProcessorBase):
    async def process(self, s: Input(Start), k: Input(K)) -> t.Any:
        ran.append(f'Q({s},{k})'); return k.upper()
class Dest(RecurrentProcessor):
    async def process(self, v: SwitchCase(switch=D2, cases=[('p', P), ('q', Q)], name='inner'), s: Input(Start)) -> t.Any:
        ran.append(f'Dest({v},{s})')
        if s < 1:
            return self.next_iteration(s + 1)
        return (v, s)
class Out(ProcessorBase):
    async def process(self, v: RecurrentSubGraph(start_node=Start, dest_node=Dest, max_iterations=3)) -> t.Any:
        ran.append('Out'); return v
asyncio.run(run(Inp, Out, x='a'))
