from h import *
import typing as t

class Inp(ProcessorBase):
    async def process(self, x: int) -> int:
        ran.append('Inp'); return x

class Start(RecurrentProcessor):
    async def process(self, x: Input(Inp), additional_data: t.Optional[t.Any] = None) -> t.Any:
        ran.append(f'Start({additional_data})'); return additional_data

class D(RecurrentProcessor):
    async def process(self, s: Input(Start)) -> str:
        r = 'a' if s is None else s
        ran.append(f'D->{r}'); return r

class A0(ProcessorBase):
    async def process(self, x: Input(Inp)) -> str:
        ran.append('A0'); return 'A0'
class A(ProcessorBase):
    async def process(self, x: Input(A0)) -> str:
        ran.append('A'); return 'A'
class B0(ProcessorBase):
    async def process(self, x: Input(Inp)) -> str:
        ran.append('B0'); return 'B0'
class B(ProcessorBase):
    async def process(self, x: Input(B0)) -> str:
        ran.append('B'); return 'B'

class Dest(RecurrentProcessor):
    async def process(self, v: SwitchCase(switch=D, cases=[('a', A), ('b', B)], name='s'), s: Input(Start)) -> t.Any:
        ran.append(f'Dest({v})')
        if s is None:
            return self.next_iteration(NEXT)
        return v

class Out(ProcessorBase):
    async def process(self, v: RecurrentSubGraph(start_node=Start, dest_node=Dest, max_iterations=3)) -> t.Any:
        ran.append('Out'); return v

import sys
NEXT = sys.argv[1]
asyncio.run(run(Inp, Out, x=1))
