from h import *
import typing as t

class Inp(ProcessorBase):
    async def process(self, x: t.Any) -> t.Any:
        ran.append('Inp'); return x

class D(ProcessorBase):
    async def process(self, x: Input(Inp)) -> t.Any:
        ran.append('D'); return x

class A(ProcessorBase):
    async def process(self, x: Input(Inp)) -> t.Any:
        ran.append('A'); return None
class B(ProcessorBase):
    async def process(self, x: Input(Inp)) -> t.Any:
        ran.append('B'); return 0
class C(ProcessorBase):
    async def process(self, x: Input(Inp)) -> t.Any:
        ran.append('C'); return ValueError
class E(ProcessorBase):
    async def process(self, x: Input(Inp)) -> t.Any:
        ran.append('E'); return 'E'

class Out(ProcessorBase):
    async def process(self, v: SwitchCase(switch=D, cases=[(None, A), (0, B), ('', C), (False, E), ((1,2), E)], name='s')) -> t.Any:
        ran.append('Out'); return ('out', v)

async def main():
    for lab in [None, 0, '', False, 0.0, (1,2), [1,2], 'zz', float('nan'), 1]:
        await run(Inp, Out, x=lab)
asyncio.run(main())
