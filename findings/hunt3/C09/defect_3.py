"""
Defect 3: a failure BELOW the selected case of a switch that sits inside a one-of candidate hangs the run.

Shape
    Out(w: InputOneOf([P, Q]))
    P(v: SwitchCase(switch=Decider, cases=[('a', A), ('b', B)]))        first candidate
    A(x: Input(M))    M raises                                           the selected case needs M, M fails
    Q(x: Input(Inp))                                                     second candidate, always succeeds

    label 'a': expected: candidate P fails (its selected case cannot be computed), candidate Q is used -> 'Q'
               observed: PipelineChart.run() never returns; neither Q is started nor an error is reported.

    (If A itself raises - depth 1 - the exception object is handed to P as a value: that one is the recorded defect.
     Here nothing is handed over at all: the owner of the one-of is never woken up.)

Run: /venv/bin/python _hunt/defect_3.py   (from /tmp/hunt_C09); exits 1 when the defect shows.
"""
import asyncio
import logging
import sys
import typing as t

sys.path.insert(0, '.')

from ml_pipeline_engine.chart import PipelineChart
from ml_pipeline_engine.dag_builders.annotation import build_dag
from ml_pipeline_engine.dag_builders.annotation.marks import Input
from ml_pipeline_engine.dag_builders.annotation.marks import InputOneOf
from ml_pipeline_engine.dag_builders.annotation.marks import SwitchCase
from ml_pipeline_engine.node import ProcessorBase

logging.disable(logging.CRITICAL)

ran: t.List[str] = []


class Inp(ProcessorBase):
    async def process(self, x: str) -> str:
        ran.append('Inp')
        return x


class Decider(ProcessorBase):
    async def process(self, x: Input(Inp)) -> str:
        ran.append('Decider')
        return x


class M(ProcessorBase):
    async def process(self, x: Input(Inp)) -> str:
        ran.append('M')
        raise ValueError('M failed')


class A(ProcessorBase):
    async def process(self, x: Input(M)) -> str:
        ran.append('A')
        return 'A'


class B(ProcessorBase):
    async def process(self, x: Input(Inp)) -> str:
        ran.append('B')
        return 'B'


class P(ProcessorBase):
    async def process(self, v: SwitchCase(switch=Decider, cases=[('a', A), ('b', B)], name='sw')) -> t.Any:
        ran.append(f'P(v={v!r})')
        return ('P', v)


class Q(ProcessorBase):
    async def process(self, x: Input(Inp)) -> str:
        ran.append('Q')
        return 'Q'


class Out(ProcessorBase):
    async def process(self, w: InputOneOf([P, Q])) -> t.Any:
        ran.append('Out')
        return w


async def run(label: str) -> t.Any:
    ran.clear()
    chart = PipelineChart('m', build_dag(input_node=Inp, output_node=Out))
    try:
        return await asyncio.wait_for(chart.run(input_kwargs={'x': label}), 3)
    except asyncio.TimeoutError:
        return 'HANG'


async def main() -> int:
    bad = 0

    result = await run('b')
    print(f"label 'b' (control): expected ('P', 'B'); got {result.value!r}, error={result.error!r}, executed={ran}")
    if result == 'HANG' or result.value != ('P', 'B'):
        bad = 1

    result = await run('a')
    if result == 'HANG':
        print(f"label 'a': expected 'Q' (candidate P fails, Q is used); got HANG - run() did not return in 3s, "
              f'executed={ran}')
        bad = 1
    else:
        print(f"label 'a': expected 'Q'; got {result.value!r}, error={result.error!r}, executed={ran}")
        if result.value != 'Q':
            bad = 1

    print('DEFECT SHOWN' if bad else 'no defect')
    return bad


sys.exit(asyncio.run(main()))
