import asyncio, sys, random, logging
sys.path.insert(0, '.')
from ml_pipeline_engine.chart import PipelineChart
from ml_pipeline_engine.dag_builders.annotation import build_dag
from ml_pipeline_engine.dag_builders.annotation.marks import Input, SwitchCase
from ml_pipeline_engine.node import ProcessorBase
logging.disable(logging.CRITICAL)
import os
if os.environ.get('MASK'): import patch_known

def gen(seed):
    rnd = random.Random(seed)
    n = rnd.randint(3, 9)
    ran = []
    failing = {}
    spec = {}   # name -> list of params: ('in', name) | ('sw', decider, [(label, name)])
    classes = {}
    def mk(name, params, is_decider_labels=None):
        ann = {}
        for i, p in enumerate(params):
            if p[0] == 'in':
                ann[f'p{i}'] = Input(classes[p[1]])
            else:
                ann[f'p{i}'] = SwitchCase(switch=classes[p[1]], cases=[(l, classes[c]) for l, c in p[2]], name=p[3])
        delay = rnd.randint(0, 3)
        fails = rnd.random() < 0.15
        has_default = rnd.random() < 0.5
        is_sync = rnd.random() < 0.3
        if fails:
            failing[name] = has_default
        if is_sync:
            def process(self, **kw):
                import time
                time.sleep(delay * 0.002)
                ran.append(name)
                if fails: raise ValueError(name)
                return spec_eval_value(name, [kw[f'p{i}'] for i in range(len(params))])
        else:
            async def process(self, **kw):
                for _ in range(delay):
                    await asyncio.sleep(0)
                ran.append(name)
                if fails: raise ValueError(name)
                return spec_eval_value(name, [kw[f'p{i}'] for i in range(len(params))])
        def get_default(self, **kw):
            return spec_eval_value(name, ['default'])
        process.__annotations__ = dict(ann)
        # need explicit signature
        import inspect
        process.__signature__ = inspect.Signature(
            [inspect.Parameter('self', inspect.Parameter.POSITIONAL_OR_KEYWORD)] +
            [inspect.Parameter(k, inspect.Parameter.KEYWORD_ONLY, annotation=v) for k, v in ann.items()])
        cls = type(name, (ProcessorBase,), {'process': process, 'name': name, '__module__': 'fz', 'get_default': get_default, 'use_default': fails and has_default})
        classes[name] = cls
        spec[name] = params
    labels_of = {}  # decider name -> label it returns
    def spec_eval_value(name, args):
        if name in labels_of:
            return labels_of[name]
        return (name, tuple(args))
    # input
    async def inp_process(self, x: int):
        ran.append('n0'); return ('n0', ())
    classes['n0'] = type('n0', (ProcessorBase,), {'process': inp_process, 'name': 'n0', '__module__': 'fz'})
    spec['n0'] = []
    names = ['n0']
    swc = 0
    for i in range(1, n):
        name = f'n{i}'
        params = []
        k = rnd.randint(1, 3) if i < n - 1 else rnd.randint(1, 3)
        used_sources = set()
        for _ in range(k):
            if rnd.random() < 0.5 and len(names) >= 2:
                # switch
                dec = rnd.choice(names)
                ncase = rnd.randint(1, 3)
                cands = [c for c in names if c != dec]
                if not cands: continue
                cs = rnd.sample(cands, min(ncase, len(cands)))
                cases = [(f'l{j}', c) for j, c in enumerate(cs)]
                swc += 1
                params.append(('sw', dec, cases, f's{swc}'))
            else:
                src = rnd.choice(names)
                if src in used_sources: continue
                used_sources.add(src)
                params.append(('in', src))
        if not params:
            params.append(('in', rnd.choice(names)))
        mk(name, params)
        names.append(name)
    # choose labels for deciders
    deciders = {p[1] for ps in spec.values() for p in ps if p[0] == 'sw'}
    for d in sorted(deciders):
        if d == 'n0': continue
        # collect labels across switches using d
        labs = [l for ps in spec.values() for p in ps if p[0] == 'sw' and p[1] == d for l, _ in p[2]]
        labels_of[d] = rnd.choice(labs + (['zz'] if rnd.random() < 0.1 else []))
    return classes, spec, labels_of, ran, names[-1], failing

class Missing(Exception): pass

def reference(spec, labels_of, out, failing):
    executed = []
    memo = {}
    def ev(name):
        if name in memo: return memo[name]
        args = []
        for p in spec[name]:
            if p[0] == 'in':
                args.append(ev(p[1]))
            else:
                lab = ev(p[1])
                m = dict()
                for l, c in p[2]: m[l] = c
                if lab not in m: raise Missing(p[3])
                args.append(ev(m[lab]))
        executed.append(name)
        if name in failing:
            if not failing[name]: raise Missing('fail ' + name)
            v = labels_of[name] if name in labels_of else (name, ('default',))
        else:
            v = labels_of[name] if name in labels_of else (name, tuple(args))
        memo[name] = v
        return v
    return ev(out), executed

def known_deadlock(dag):
    import networkx as nx
    from ml_pipeline_engine.dag.manager import DAGRunConcurrentManager
    m = DAGRunConcurrentManager(ctx=None, dag=dag)
    g = dag.graph
    dests = [dag.output_node] + [u for u, v, d in g.edges(data=True) if 'case_branch' in d]
    for dest in dests:
        try:
            sub = m._get_reduced_dag(dag.input_node, dest)
        except Exception:
            continue
        order = list(nx.topological_sort(sub))
        nodes = set(order)
        for s_ in nodes:
            if g.nodes[s_].get('is_switch'):
                for p in g.predecessors(s_):
                    if 'case_branch' in g.edges[p, s_] and p in nodes and order.index(p) > order.index(s_):
                        return True
    return False

async def one(seed):
    classes, spec, labels_of, ran, out, failing = gen(seed)
    if 'n0' in {p[1] for ps in spec.values() for p in ps if p[0] == 'sw'}:
        return None  # decider = input returns tuple; skip
    try:
        exp, exp_exec = reference(spec, labels_of, out, failing)
        exp_err = None
    except Missing as e:
        exp, exp_exec, exp_err = None, None, e
    dag = build_dag(input_node=classes['n0'], output_node=classes[out])
    chart = PipelineChart('m', dag)
    known = known_deadlock(dag)
    try:
        r = await asyncio.wait_for(chart.run(input_kwargs={'x': 1}), 3)
    except asyncio.TimeoutError:
        return ('HANG-known' if known else 'HANG', seed, spec, labels_of, list(ran))
    if exp_err is not None:
        if r.error is None:
            return ('NOERR', seed, spec, labels_of, r.value)
        return None
    if r.error is not None:
        return ('ERR', seed, spec, labels_of, repr(r.error))
    if r.value != exp:
        return ('VALUE', seed, spec, labels_of, r.value, exp)
    if sorted(ran) != sorted(exp_exec):
        return ('EXEC', seed, spec, labels_of, sorted(ran), sorted(exp_exec))
    return None

async def main():
    from ml_pipeline_engine.parallelism import threads_pool_registry
    threads_pool_registry.auto_init()
    lo, hi = int(sys.argv[1]), int(sys.argv[2])
    from collections import Counter
    cnt = Counter()
    for seed in range(lo, hi):
        try:
            res = await one(seed)
        except Exception as e:
            res = ('BUILD', seed, repr(e))
        if res:
            cnt[res[0]] += 1
            if cnt[res[0]] <= int(sys.argv[3]) if len(sys.argv) > 3 else 3:
                print(res)
    print(cnt)
asyncio.run(main())
