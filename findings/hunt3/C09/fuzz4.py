import asyncio, sys, random, logging, inspect, typing as t
sys.path.insert(0, '.'); sys.path.insert(0, '_hunt')
from ml_pipeline_engine.chart import PipelineChart
from ml_pipeline_engine.dag_builders.annotation import build_dag
from ml_pipeline_engine.dag_builders.annotation.marks import Input, SwitchCase, RecurrentSubGraph
from ml_pipeline_engine.node import ProcessorBase, RecurrentProcessor
logging.disable(logging.CRITICAL)
import os
if os.environ.get('MASK'): import patch_known

class Missing(Exception): pass

def gen(seed):
    rnd = random.Random(seed)
    ran = []
    spec, classes = {}, {}
    state = {'iter': 0}
    label_fn = {}   # decider -> list of labels per iteration (inside) or single
    n_iter = rnd.randint(0, 2)   # number of re-iterations
    def cur_label(name):
        labs = label_fn[name]
        return labs[min(state['iter'], len(labs) - 1)]
    def mk(name, params, base=ProcessorBase, kind='plain'):
        ann = {}
        for i, p in enumerate(params):
            if p[0] == 'in':
                ann[f'p{i}'] = Input(classes[p[1]])
            elif p[0] == 'sw':
                ann[f'p{i}'] = SwitchCase(switch=classes[p[1]], cases=[(l, classes[c]) for l, c in p[2]], name=p[3])
            elif p[0] == 'rec':
                ann[f'p{i}'] = RecurrentSubGraph(start_node=classes[p[1]], dest_node=classes[p[2]], max_iterations=5)
        delay = rnd.randint(0, 3)
        extra = []
        if kind == 'start':
            extra = [inspect.Parameter('additional_data', inspect.Parameter.KEYWORD_ONLY, annotation=t.Optional[t.Any], default=None)]
        async def process(self, **kw):
            for _ in range(delay):
                await asyncio.sleep(0)
            if kind == 'start':
                state['iter'] = kw.get('additional_data') or 0
            args = [kw[f'p{i}'] for i in range(len(params))]
            ran.append((name, state['iter'], tuple(args)))
            if kind == 'dest' and state['iter'] < n_iter:
                return self.next_iteration(state['iter'] + 1)
            if name in label_fn:
                return cur_label(name)
            if kind == 'start':
                return (name, state['iter'])
            return (name, tuple(args))
        a2 = dict(ann)
        if kind == 'start': a2['additional_data'] = t.Optional[t.Any]
        process.__annotations__ = a2
        process.__signature__ = inspect.Signature(
            [inspect.Parameter('self', inspect.Parameter.POSITIONAL_OR_KEYWORD)] +
            [inspect.Parameter(k, inspect.Parameter.KEYWORD_ONLY, annotation=v) for k, v in ann.items()] + extra)
        classes[name] = type(name, (base,), {'process': process, 'name': name, '__module__': 'fz'})
        spec[name] = (kind, params)
    async def inp_process(self, x: int):
        ran.append(('n0', 0, ())); return ('n0', ())
    classes['n0'] = type('n0', (ProcessorBase,), {'process': inp_process, 'name': 'n0', '__module__': 'fz'})
    spec['n0'] = ('plain', [])
    pub = ['n0']
    swc = [0]
    def sw_param(decs, cases_pool):
        dec = rnd.choice(decs)
        cands = [c for c in cases_pool if c != dec]
        cs = rnd.sample(cands, min(rnd.randint(1, 3), len(cands)))
        swc[0] += 1
        return ('sw', dec, [(f'l{j}', c) for j, c in enumerate(cs)], f's{swc[0]}')
    def rand_params(in_pool, dec_pool, case_pool, kmax=2):
        params, used = [], set()
        for _ in range(rnd.randint(1, kmax)):
            if rnd.random() < 0.5 and dec_pool and len(case_pool) >= 2:
                params.append(sw_param(dec_pool, case_pool))
            else:
                src = rnd.choice(in_pool)
                if src in used: continue
                used.add(src); params.append(('in', src))
        if not params: params.append(('in', rnd.choice(in_pool)))
        return params
    for i in range(1, rnd.randint(2, 5) + 1):
        name = f'n{i}'
        mk(name, rand_params(pub, [p for p in pub if p != 'n0'], pub)); pub.append(name)
    # subgraph
    mk('start', [('in', rnd.choice(pub))], base=RecurrentProcessor, kind='start')
    inside = ['start']
    for i in range(rnd.randint(0, 3)):
        name = f'i{i}'
        params = [('in', rnd.choice(inside))]
        params += rand_params(inside + pub, [x for x in inside + pub if x != 'n0'], pub, 2)
        # dedupe plain inputs
        seen, pp = set(), []
        for p in params:
            if p[0] == 'in':
                if p[1] in seen: continue
                seen.add(p[1])
            pp.append(p)
        mk(name, pp, base=RecurrentProcessor); inside.append(name)
    params = [('in', rnd.choice(inside))] + rand_params(inside + pub, [x for x in inside + pub if x != 'n0'], pub, 2)
    seen, pp = set(), []
    for p in params:
        if p[0] == 'in':
            if p[1] in seen: continue
            seen.add(p[1])
        pp.append(p)
    mk('dest', pp, base=RecurrentProcessor, kind='dest')
    mk('out', [('rec', 'start', 'dest')])
    # labels
    deciders = sorted({p[1] for k, ps in spec.values() for p in ps if p[0] == 'sw'})
    for d in deciders:
        sets = [ {l for l, _ in p[2]} for k, ps in spec.values() for p in ps if p[0] == 'sw' and p[1] == d]
        common = set.intersection(*sets)
        if not common: return None
        common = sorted(common)
        if d in pub:
            label_fn[d] = [rnd.choice(common)]
        else:
            label_fn[d] = [rnd.choice(common) for _ in range(n_iter + 1)]
    if 'dest' in label_fn or 'start' in label_fn: return None
    return classes, spec, label_fn, ran, n_iter, inside

def reference(spec, label_fn, n_iter, inside):
    executed = set()
    pub_memo = {}
    result = None
    for it in range(n_iter + 1):
        memo = dict(pub_memo)
        def ev(name):
            if name in memo: return memo[name]
            kind, params = spec[name]
            args = []
            for p in params:
                if p[0] == 'in': args.append(ev(p[1]))
                elif p[0] == 'sw':
                    lab = ev(p[1]); args.append(ev(dict(p[2])[lab]))
                else:
                    args.append(ev(p[2]))
            executed.add((name, it if (name in inside or name == 'dest') else 0, tuple(args)) if name != 'n0' else ('n0', 0, ()))
            if name in label_fn:
                labs = label_fn[name]; v = labs[min(it, len(labs) - 1)]
            elif kind == 'start': v = (name, it)
            elif name == 'n0': v = ('n0', ())
            else: v = (name, tuple(args))
            memo[name] = v
            return v
        result = ev('dest')
        for k_, v_ in memo.items():
            if k_ not in inside and k_ != 'dest': pub_memo[k_] = v_
    return ('out', (result,)), executed

async def one(seed):
    g_ = gen(seed)
    if g_ is None: return None
    classes, spec, label_fn, ran, n_iter, inside = g_
    exp, exp_exec = reference(spec, label_fn, n_iter, inside)
    dag = build_dag(input_node=classes['n0'], output_node=classes['out'])
    chart = PipelineChart('m', dag)
    info = (seed, {k: v[1] for k, v in spec.items()}, label_fn, n_iter)
    try:
        r = await asyncio.wait_for(chart.run(input_kwargs={'x': 1}), 3)
    except asyncio.TimeoutError:
        return ('HANG', *info, list(ran))
    if r.error is not None:
        return ('ERR', *info, repr(r.error), list(ran))
    if r.value != exp:
        return ('VALUE', *info, r.value, exp, list(ran))
    got = {(n, (i if (n in inside or n == 'dest') else 0), a) for n, i, a in ran if n != 'out'}
    extra = {(n, i) for n, i, a in got} - {(n, i) for n, i, a in exp_exec}
    if extra:
        return ('EXEC', *info, sorted(extra), list(ran))
    bad_args = got - exp_exec
    if bad_args:
        return ('ARGS', *info, sorted(bad_args, key=str))
    return None

async def main():
    lo, hi, lim = int(sys.argv[1]), int(sys.argv[2]), int(sys.argv[3])
    from collections import Counter
    cnt = Counter()
    for seed in range(lo, hi):
        try:
            res = await one(seed)
        except Exception as e:
            import traceback; traceback.print_exc()
            res = ('BUILD', seed, repr(e))
        if res:
            cnt[res[0]] += 1
            if cnt[res[0]] <= lim:
                print(res); print()
    print(cnt)
asyncio.run(main())
