from h import *
import typing as t

class Inp(ProcessorBase):
    async def process(self, x: t.Any) -> t.Any:
        return x
class D(ProcessorBase):
    def process(self, x: Input(Inp)) -> t.Any:
        return x[0]
class A(ProcessorBase):
    async def process(self, x: Input(Inp)) -> t.Any:
        await asyncio.sleep(0.05)
        ran.append(('A', x)); return ('A', x)
class B(ProcessorBase):
    def process(self, x: Input(Inp)) -> t.Any:
        ran.append(('B', x)); return ('B', x)
class N(ProcessorBase):
    async def process(self, v: SwitchCase(switch=D, cases=[('a', A), ('b', B)])) -> t.Any:
        return ('N', v)
class Out(ProcessorBase):
    async def process(self, v: SwitchCase(switch=D, cases=[('a', N), ('b', B)]), w: SwitchCase(switch=D, cases=[('a', A), ('b', N)])) -> t.Any:
        return (v, w)

async def main():
    from ml_pipeline_engine.parallelism import threads_pool_registry
    threads_pool_registry.auto_init()
    chart = PipelineChart('m', build_dag(input_node=Inp, output_node=Out))
    rs = await asyncio.wait_for(asyncio.gather(*[chart.run(input_kwargs={'x': (l, i)}) for i, l in enumerate('abab')]), 10)
    for r in rs: print(r.value, r.error)
    print(sorted(ran, key=str))
    r = await chart.run(input_kwargs={'x': ('b', 9)}); print(r.value, r.error)
asyncio.run(main())
