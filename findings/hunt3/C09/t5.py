from h import *
import typing as t

class Inp(ProcessorBase):
    async def process(self, x: t.Any) -> t.Any:
        ran.append('Inp'); return x
class D(ProcessorBase):
    async def process(self, x: Input(Inp)) -> t.Any:
        ran.append('D'); return x
class A(ProcessorBase):
    async def process(self, x: Input(Inp)) -> t.Any:
        ran.append('A'); return 'A'
class B(ProcessorBase):
    async def process(self, x: Input(Inp)) -> t.Any:
        ran.append('B'); return 'B'
class Z(ProcessorBase):
    async def process(self, x: Input(Inp)) -> t.Any:
        ran.append('Z'); return 'Z'
class Out(ProcessorBase):
    async def process(self, v: SwitchCase(switch=D, cases=[('a', A), ('b', B)]), w: InputOneOf([Z, A])) -> t.Any:
        ran.append('Out'); return (v, w)
async def main():
    await run(Inp, Out, x='a')
    await run(Inp, Out, x='b')
asyncio.run(main())
