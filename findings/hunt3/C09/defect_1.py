"""
Defect 1: the labels of a SwitchCase are stored on the edge (case node -> switch node); one edge per pair of nodes.

 (a) cases=[('small', Small), ('medium', Small), ('large', Large)]  - one node serves two labels: only the last label
     survives, the declared label 'small' is rejected with SwitchCaseDoesNotHaveBranchError.
 (b) cases=[('same', Decider), ('other', Other)] - the switch node itself is a case ("pass the label through"):
     the decider edge becomes a case edge, is filtered out of every reduced dag, the consumer is unreachable,
     the main dag is empty and PipelineChart.run() never returns (no node is executed at all).

Run: /venv/bin/python _hunt/defect_1.py   (from /tmp/hunt_C09); exits 1 when the defect shows.
"""
import asyncio
import logging
import sys
import typing as t

sys.path.insert(0, '.')

from ml_pipeline_engine.chart import PipelineChart
from ml_pipeline_engine.dag_builders.annotation import build_dag
from ml_pipeline_engine.dag_builders.annotation.marks import Input
from ml_pipeline_engine.dag_builders.annotation.marks import SwitchCase
from ml_pipeline_engine.node import ProcessorBase

logging.disable(logging.CRITICAL)

ran: t.List[str] = []


class Inp(ProcessorBase):
    async def process(self, x: str) -> str:
        ran.append('Inp')
        return x


class Decider(ProcessorBase):
    async def process(self, x: Input(Inp)) -> str:
        ran.append('Decider')
        return x


class Small(ProcessorBase):
    async def process(self, x: Input(Inp)) -> str:
        ran.append('Small')
        return 'small-model'


class Large(ProcessorBase):
    async def process(self, x: Input(Inp)) -> str:
        ran.append('Large')
        return 'large-model'


class ConsumerA(ProcessorBase):
    async def process(
        self,
        v: SwitchCase(switch=Decider, cases=[('small', Small), ('medium', Small), ('large', Large)], name='size'),
    ) -> str:
        ran.append('ConsumerA')
        return v


class ConsumerB(ProcessorBase):
    async def process(
        self,
        v: SwitchCase(switch=Decider, cases=[('same', Decider), ('large', Large)], name='passthrough'),
    ) -> str:
        ran.append('ConsumerB')
        return v


async def run(out: t.Any, label: str) -> t.Any:
    ran.clear()
    dag = build_dag(input_node=Inp, output_node=out)
    chart = PipelineChart('m', dag)
    try:
        result = await asyncio.wait_for(chart.run(input_kwargs={'x': label}), 3)
    except asyncio.TimeoutError:
        return 'HANG', dag
    return result, dag


async def main() -> int:
    bad = 0

    print('(a) one node for two labels: cases small->Small, medium->Small, large->Large')
    for label, expected in (('small', 'small-model'), ('medium', 'small-model'), ('large', 'large-model')):
        result, dag = await run(ConsumerA, label)
        got = 'HANG' if result == 'HANG' else (result.value, repr(result.error))
        print(f'    label={label!r}: expected value {expected!r}, got {got}, executed={ran}')
        if result == 'HANG' or result.value != expected:
            bad = 1
    print('    case edges of the built graph:',
          [(u, d['case_branch']) for u, v, d in dag.graph.edges(data=True) if 'case_branch' in d])

    print('(b) the switch node is also a case: cases same->Decider, large->Large')
    for label, expected in (('same', 'same'), ('large', 'large-model')):
        result, dag = await run(ConsumerB, label)
        got = 'HANG (run() did not return in 3s)' if result == 'HANG' else (result.value, repr(result.error))
        print(f'    label={label!r}: expected value {expected!r}, got {got}, executed={ran}')
        if result == 'HANG' or result.value != expected:
            bad = 1
    print('    edge Decider->switch:',
          dict(dag.graph.edges['processor____main___Decider', 'switch__passthrough']))

    print('DEFECT SHOWN' if bad else 'no defect')
    return bad


sys.exit(asyncio.run(main()))
