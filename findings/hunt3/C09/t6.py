from h import *
import typing as t
from ml_pipeline_engine.node import build_node

class Inp(ProcessorBase):
    async def process(self, x: t.Any) -> t.Any:
        ran.append('Inp'); return x
class A(ProcessorBase):
    async def process(self, x: Input(Inp)) -> t.Any:
        ran.append('A'); return 'A'
class B(ProcessorBase):
    async def process(self) -> t.Any:
        ran.append('B'); return 'B'
class Out(ProcessorBase):
    async def process(self, v: SwitchCase(switch=Inp, cases=[('a', A), ('b', B)])) -> t.Any:
        ran.append('Out'); return v

class GenBase(ProcessorBase):
    async def process(self, v: t.Any, w: t.Any) -> t.Any:
        ran.append('Gen'); return (v, w)
sc = SwitchCase(switch=Inp, cases=[('a', A), ('b', B)])
Gen = build_node(GenBase, node_name='gen', v=sc, w=sc)
async def main():
    await run(Inp, Out, x='a')
    await run(Inp, Out, x='b')
    await run(Inp, Out, x='c')
    await run(Inp, Gen, x='a')
    await run(Inp, Gen, x='b')
asyncio.run(main())
