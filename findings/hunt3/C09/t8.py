from h import *
import typing as t

class Inp(ProcessorBase):
    async def process(self, x: t.Any) -> t.Any:
        ran.append('Inp'); return x
class D(ProcessorBase):
    async def process(self, x: Input(Inp)) -> t.Any:
        ran.append('D'); return x
class Start(RecurrentProcessor):
    async def process(self, x: Input(Inp), additional_data: t.Optional[t.Any] = None) -> t.Any:
        ran.append(f'Start({additional_data})'); return additional_data or 0
class D2(RecurrentProcessor):
    async def process(self, s: Input(Start)) -> t.Any:
        ran.append(f'D2({s})'); return 'p' if s < 1 else 'q'
class P(ProcessorBase):
    async def process(self, x: Input(Inp)) -> t.Any:
        ran.append('P'); return 'P'
class Q(ProcessorBase):
    async def process(self, x: Input(Start)) -> t.Any:
        ran.append(f'Q({x})'); return f'Q{x}'
class Dest(RecurrentProcessor):
    use_default = True
    def get_default(self, **kw): return ('default', kw)
    async def process(self, v: SwitchCase(switch=D2, cases=[('p', P), ('q', Q)], name='inner'), s: Input(Start)) -> t.Any:
        ran.append(f'Dest({v},{s})')
        if s < LIMIT:
            return self.next_iteration(s + 1)
        return (v, s)
class Wrap(ProcessorBase):
    async def process(self, v: RecurrentSubGraph(start_node=Start, dest_node=Dest, max_iterations=3)) -> t.Any:
        ran.append('Wrap'); return ('Wrap', v)
class B(ProcessorBase):
    async def process(self, x: Input(Inp)) -> t.Any:
        ran.append('B'); return 'B'
class Out(ProcessorBase):
    async def process(self, v: SwitchCase(switch=D, cases=[('a', Wrap), ('b', B)], name='outer')) -> t.Any:
        ran.append('Out'); return v
import sys
async def main():
    global LIMIT
    for LIMIT in (0, 1, 2, 3, 9):
        await run(Inp, Out, x='a')
    await run(Inp, Out, x='b')
asyncio.run(main())
