from h import *
import typing as t
class Inp(ProcessorBase):
    async def process(self, x: t.Any) -> t.Any:
        ran.append('Inp'); return x
class Start(RecurrentProcessor):
    async def process(self, x: Input(Inp), additional_data: t.Optional[t.Any] = None) -> t.Any:
        ran.append(f'Start({additional_data})'); return additional_data or 0
class Dest(RecurrentProcessor):
    use_default = True
    def get_default(self, **kw): return 'b'
    async def process(self, s: Input(Start)) -> t.Any:
        ran.append(f'Dest({s})')
        if s < LIMIT: return self.next_iteration(s + 1)
        return 'a'
class A(ProcessorBase):
    async def process(self, x: Input(Inp)) -> t.Any:
        ran.append('A'); return 'A'
class B(ProcessorBase):
    async def process(self, x: Input(Inp)) -> t.Any:
        ran.append('B'); return 'B'
class Out(ProcessorBase):
    async def process(self, v: SwitchCase(switch=Dest, cases=[('a', A), ('b', B)]), w: RecurrentSubGraph(start_node=Start, dest_node=Dest, max_iterations=2)) -> t.Any:
        ran.append('Out'); return (v, w)
async def main():
    global LIMIT
    for LIMIT in (0, 1, 2, 5):
        await run(Inp, Out, x=1)
asyncio.run(main())
