# triage helper: masks the KNOWN launch-order deadlock (case node in the same reduced dag after its switch)
import networkx as nx
from ml_pipeline_engine.dag.manager import DAGRunConcurrentManager as M
def _get_node_order(self, dag):
    full = self.dag.graph.subgraph(list(dag.nodes))
    return [n for n in nx.topological_sort(full)
            if (not self._node_storage.exists_processed_node(n) if not dag.is_recurrent else True)]
M._get_node_order = _get_node_order
