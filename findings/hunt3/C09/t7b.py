from h import *
import typing as t

class Inp(ProcessorBase):
    async def process(self, x: t.Any) -> t.Any:
        ran.append('Inp'); return x
class D(ProcessorBase):
    async def process(self, x: Input(Inp)) -> t.Any:
        ran.append('D'); return x
class M(ProcessorBase):
    async def process(self, x: Input(Inp)) -> t.Any:
        ran.append('M'); return 'M'
class A(ProcessorBase):
    async def process(self, x: Input(M)) -> t.Any:
        ran.append('A'); raise ValueError('A')
class B(ProcessorBase):
    async def process(self, x: Input(Inp)) -> t.Any:
        ran.append('B'); return 'B'
class P(ProcessorBase):
    async def process(self, v: SwitchCase(switch=D, cases=[('a', A), ('b', B)])) -> t.Any:
        ran.append(f'P({v!r})'); return ('P', v)
class Q(ProcessorBase):
    async def process(self, x: Input(Inp)) -> t.Any:
        ran.append('Q'); return 'Q'
class Out(ProcessorBase):
    async def process(self, w: InputOneOf([P, Q])) -> t.Any:
        ran.append('Out'); return w
async def main():
    await run(Inp, Out, x='a')
    await run(Inp, Out, x='b')
asyncio.run(main())
