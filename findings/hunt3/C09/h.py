import asyncio, sys, logging
sys.path.insert(0, '.')
from ml_pipeline_engine.chart import PipelineChart
from ml_pipeline_engine.dag_builders.annotation import build_dag
from ml_pipeline_engine.dag_builders.annotation.marks import Input, SwitchCase, InputOneOf, RecurrentSubGraph
from ml_pipeline_engine.node import ProcessorBase, RecurrentProcessor
from ml_pipeline_engine.types import Recurrent
logging.getLogger('ml_pipeline_engine').setLevel(logging.CRITICAL)
logging.disable(logging.CRITICAL)
ran = []

async def run(inp, out, timeout=5, **kw):
    ran.clear()
    chart = PipelineChart('m', build_dag(input_node=inp, output_node=out))
    try:
        r = await asyncio.wait_for(chart.run(input_kwargs=kw), timeout)
        print(out.__name__, kw, '->', repr(r.value), repr(r.error), ran)
        return r
    except asyncio.TimeoutError:
        print(out.__name__, kw, 'HANG', ran)
        return 'HANG'
