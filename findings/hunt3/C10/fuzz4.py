"""fuzz2 + shared never-failing plain nodes (zero or nonzero delay)."""
import asyncio, random, sys, os
from _hunt.h import *
from _hunt import fuzz2

SH_DELAYS = [0] if not os.environ.get('SHD') else [0, 1, 2, 5, 0.002]

def gen(rng, n_nodes):
    specs, order = fuzz2.gen(rng, n_nodes)
    shared = []
    for k in range(3):
        name = f'S{k}'
        plain = ['I'] if not shared or rng.random() < 0.5 else [rng.choice(shared)]
        specs[name] = dict(plain=plain, oneofs=[], sw=[], fail=False, delay=rng.choice(SH_DELAYS), ret=None)
        shared.append(name)
    for n in order:
        if n in ('I',): continue
        if rng.random() < 0.45:
            x = rng.choice(shared)
            if x not in specs[n]['plain']:
                if specs[n]['plain'] == ['I']: specs[n]['plain'] = []
                specs[n]['plain'].append(x)
    order = ['I'] + shared + order[1:]
    return specs, order

async def one(seed, n_nodes):
    rng = random.Random(seed)
    specs, order = gen(rng, n_nodes)
    if fuzz2.known_pattern(specs): return None
    exp = fuzz2.reference(specs)
    reset()
    classes = fuzz2.build(specs, order)
    try:
        r = await run(classes['I'], classes['OUT'], timeout=2.0)
    except Exception as e:
        return ('BUILD/RUN EXC', repr(e), specs)
    if r == 'HANG': return ('HANG', exp, specs)
    if exp is None:
        if r.error is None: return ('EXPECTED FAIL got value', r.value, specs)
    else:
        if r.error is not None: return ('UNEXPECTED ERR', repr(r.error), specs, exp)
        if r.value != exp: return ('WRONG VALUE', r.value, exp, specs)
    st = started()
    dup = [x for x in set(st) if st.count(x) > 1]
    if dup: return ('DUP EXEC', dup, specs)
    return None

async def main():
    if len(sys.argv) == 4:
        seed = int(sys.argv[1]); nn = int(sys.argv[2])
        r = await one(seed, nn)
        print(r[0], str(r[1])[:300])
        specs = [x for x in r if isinstance(x, dict)][0]
        for n, s in specs.items():
            print('  ', n, {k: v for k, v in s.items() if v not in (None, [], False, 0)})
        print(started())
        return
    n = int(sys.argv[1]); nn = int(sys.argv[2])
    kinds = {}
    for seed in range(n):
        res = await one(seed, nn)
        if res: kinds.setdefault(res[0], []).append(seed)
    for k, v in kinds.items(): print(k, len(v), v[:20])
asyncio.run(main())
