import asyncio
from _hunt.h import *

async def t1():
    # switch in candidate; case's ancestor fails
    reset()
    I = mk('I')
    SW = mk('SW', {'i': Input(I)}, ret='a')
    G = mk('G', {'i': Input(I)}, fail=True)
    C1 = mk('C1', {'g': Input(G)})
    C2 = mk('C2', {'i': Input(I)})
    A = mk('A', {'v': SwitchCase(switch=SW, cases=[('a', C1), ('b', C2)], name='sw')})
    B = mk('B', {'i': Input(I)})
    X = mk('X', {'v': InputOneOf([A, B])})
    r = await run(I, X)
    print('t1', r, started())

async def t2():
    # switch in candidate; case itself fails (known)
    reset()
    I = mk('I')
    SW = mk('SW', {'i': Input(I)}, ret='a')
    C1 = mk('C1', {'g': Input(I)}, fail=True)
    C2 = mk('C2', {'i': Input(I)})
    A = mk('A', {'v': SwitchCase(switch=SW, cases=[('a', C1), ('b', C2)], name='sw')})
    B = mk('B', {'i': Input(I)})
    X = mk('X', {'v': InputOneOf([A, B])})
    r = await run(I, X)
    print('t2', r, started(), [l for l in LOG if l[1]=='A'])

async def main():
    for f in (t1, t2):
        await f()
asyncio.run(main())
