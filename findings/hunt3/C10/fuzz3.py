"""fuzz2 + node kinds (async/thread/non_async), use_default, None results, retries."""
import asyncio, random, sys, time
from _hunt.h import *
from _hunt import fuzz2
from ml_pipeline_engine.parallelism import threads_pool_registry
from ml_pipeline_engine.node.enums import NodeTag

def decorate(rng, specs):
    for n, s in specs.items():
        s['kind'] = rng.choice(['async', 'async', 'thread', 'non_async'])
        s['use_default'] = rng.random() < 0.2
        s['none'] = rng.random() < 0.15 and s['ret'] is None
        s['attempts'] = rng.choice([None, None, 2])
        s['flaky'] = s['attempts'] == 2 and rng.random() < 0.5   # fails first attempt only

def reference(specs):
    memo = {}
    def ev_(n):
        if n in memo: return memo[n]
        s = specs[n]
        vals = {}; ok = True
        for i, p in enumerate(s['plain']):
            r = ev_(p)
            if r is FAIL: ok = False
            vals[f'p{i}'] = r
        for j, cands in enumerate(s['oneofs']):
            got = FAIL
            for c in cands:
                r = ev_(c)
                if r is not FAIL: got = r; break
            if got is FAIL: ok = False
            vals[f'o{j}'] = got
        for j, (d, cs, sel) in enumerate(s['sw']):
            r = ev_(d)
            if r is FAIL or sel >= len(cs): ok = False; continue
            r2 = ev_(cs[sel])
            if r2 is FAIL: ok = False
            vals[f's{j}'] = r2
        if not ok:
            memo[n] = FAIL; return FAIL
        if s['fail']:
            memo[n] = ('default', n) if s['use_default'] else FAIL
            return memo[n]
        if s['ret'] is not None: memo[n] = s['ret']
        elif s['none']: memo[n] = None
        else: memo[n] = (n, tuple(sorted(vals.items())))
        return memo[n]
    return ev_('OUT')
FAIL = object()

COUNT = {}
def build(specs, order):
    classes = {}
    for n in order:
        s = specs[n]
        deps = {}
        if n != 'I':
            for i, p in enumerate(s['plain']): deps[f'p{i}'] = Input(classes[p])
        for j, cands in enumerate(s['oneofs']): deps[f'o{j}'] = InputOneOf([classes[c] for c in cands])
        for j, (d, cs, sel) in enumerate(s['sw']):
            deps[f's{j}'] = SwitchCase(switch=classes[d], cases=[(f'L{i}', classes[c]) for i, c in enumerate(cs)], name=f'sw_{n}_{j}')
        def body(_n, _s, kw):
            COUNT[_n] = COUNT.get(_n, 0) + 1
            LOG.append(('start', _n, None))
            if _s['fail']: raise RuntimeError(_n)
            if _s['flaky'] and COUNT[_n] == 1: raise RuntimeError('flaky ' + _n)
            if _s['ret'] is not None: return _s['ret']
            if _s['none']: return None
            if _n == 'I': return ('I', ())
            return (_n, tuple(sorted(kw.items())))
        def make(_n, _s):
            if _s['kind'] == 'async':
                async def process(self, **kw):
                    if _s['delay']: await asyncio.sleep(_s['delay'])
                    return body(_n, _s, kw)
            else:
                def process(self, **kw):
                    if _s['delay'] and _s['kind'] == 'thread': time.sleep(_s['delay'])
                    return body(_n, _s, kw)
            return process
        process = make(n, s)
        process.__annotations__ = dict(deps)
        attrs = {'name': n, 'process': process, 'use_default': s['use_default'], 'attempts': s['attempts'],
                 'get_default': (lambda _n: (lambda self, **kw: ('default', _n)))(n)}
        if s['kind'] == 'non_async': attrs['tags'] = (NodeTag.non_async,)
        classes[n] = type(n, (ProcessorBase,), attrs)
    return classes

async def one(seed, n_nodes):
    rng = random.Random(seed)
    specs, order = fuzz2.gen(rng, n_nodes)
    if fuzz2.known_pattern(specs): return None
    decorate(rng, specs)
    specs['I']['kind'] = 'async'; specs['I']['none'] = False
    exp = reference(specs)
    reset(); COUNT.clear()
    classes = build(specs, order)
    try:
        r = await run(classes['I'], classes['OUT'], timeout=3.0)
    except Exception as e:
        return ('BUILD/RUN EXC', repr(e), specs)
    if r == 'HANG': return ('HANG', exp, specs)
    if exp is FAIL:
        if r.error is None: return ('EXPECTED FAIL got value', r.value, specs)
    else:
        if r.error is not None: return ('UNEXPECTED ERR', repr(r.error), specs, exp)
        if r.value != exp: return ('WRONG VALUE', r.value, exp, specs)
    return None

async def main():
    threads_pool_registry.auto_init()
    if len(sys.argv) == 4:
        seed = int(sys.argv[1]); nn = int(sys.argv[2])
        r = await one(seed, nn)
        print(r[0], r[1])
        if r[0] == 'WRONG VALUE': print('EXP', r[2])
        specs = r[-1] if isinstance(r[-1], dict) else r[2] if isinstance(r[2], dict) else r[3]
        for n, s in specs.items():
            print('  ', n, {k: v for k, v in s.items() if v not in (None, [], False, 0)})
        print(started())
        return
    n = int(sys.argv[1]); nn = int(sys.argv[2])
    kinds = {}
    for seed in range(n):
        res = await one(seed, nn)
        if res: kinds.setdefault(res[0], []).append(seed)
    for k, v in kinds.items(): print(k, len(v), v[:20])
asyncio.run(main())
