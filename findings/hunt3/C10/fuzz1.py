"""Random tree-shaped / lightly shared pipelines with one-ofs vs a reference interpreter."""
import asyncio, random, sys, logging
logging.disable(logging.CRITICAL)
from _hunt.h import *

def gen(rng, n_nodes, share):
    specs = {'I': dict(plain=[], oneofs=[], fail=False, delay=0)}
    order = ['I']
    role = {}
    consumed = set()
    for k in range(n_nodes):
        name = f'N{k}'
        plain, oneofs = [], []
        used = set()
        def take(want):
            fresh = [x for x in order[1:] if x not in consumed and x not in used]
            reuse = [x for x in order[1:] if x in consumed and role.get(x) == want and x not in used]
            if fresh and (not share or not reuse or rng.random() < 0.6):
                x = rng.choice(fresh)
            elif share and reuse:
                x = rng.choice(reuse)
            else:
                return None
            used.add(x); consumed.add(x); role[x] = want
            return x
        for _ in range(rng.choice([0, 1, 1, 2])):
            x = take('plain')
            if x: plain.append(x)
        for _ in range(rng.choice([0, 0, 1, 1, 2])):
            c = []
            for _ in range(rng.choice([2, 2, 3])):
                x = take('cand')
                if x: c.append(x)
            if c: oneofs.append(c)
        if not plain and not oneofs:
            plain = ['I']
        specs[name] = dict(plain=plain, oneofs=oneofs, fail=rng.random() < FAILP, delay=rng.choice(DELAYS))
        order.append(name)
    specs['OUT'] = dict(plain=[x for x in order[1:] if x not in consumed], oneofs=[], fail=False, delay=0)
    order.append('OUT')
    return specs, order

DELAYS = [0, 0, 0.001, 0.003, 0.006]
import os
if os.environ.get('TICKS'): DELAYS = [0, 1, 2, 3, 5, 8, 13]
FAILP = 0.35

class Fail(Exception): pass

def reference(specs):
    memo = {}
    executed = set()
    def ev_(n):
        if n in memo: return memo[n]
        s = specs[n]
        vals = {}
        ok = True
        for i, p in enumerate(s['plain']):
            r = ev_(p)
            if r is None: ok = False
            vals[f'p{i}'] = r
        for j, cands in enumerate(s['oneofs']):
            if not ok: break  # concurrency: engine may still try; executed-set is then fuzzy
            got = None
            for c in cands:
                r = ev_(c)
                if r is not None:
                    got = r; break
            if got is None: ok = False
            vals[f'o{j}'] = got
        if not ok:
            memo[n] = None; return None
        executed.add(n)
        if s['fail']:
            memo[n] = None; return None
        memo[n] = (n, tuple(sorted(vals.items())))
        return memo[n]
    return ev_('OUT'), executed

def build(specs, order):
    classes = {}
    for n in order:
        s = specs[n]
        deps = {}
        for i, p in enumerate(s['plain']):
            if n == 'I': continue
            deps[f'p{i}'] = Input(classes[p])
        for j, cands in enumerate(s['oneofs']):
            deps[f'o{j}'] = InputOneOf([classes[c] for c in cands])
        def fn(self, _n=n, _s=s, **kw):
            if _s['fail']: raise RuntimeError(_n)
            if _n == 'I': return ('I', ())
            return (_n, tuple(sorted(kw.items())))
        classes[n] = mk(n, deps, fn=fn, sleep=s['delay'])
    return classes

async def one(seed, n_nodes, share):
    rng = random.Random(seed)
    specs, order = gen(rng, n_nodes, share)
    exp, exp_exec = reference(specs)
    reset()
    classes = build(specs, order)
    try:
        r = await run(classes['I'], classes['OUT'], timeout=2.0)
    except Exception as e:
        return ('BUILD/RUN EXC', repr(e), specs)
    st = started()
    if r == 'HANG':
        return ('HANG', exp, specs)
    if exp is None:
        if r.error is None:
            return ('EXPECTED FAIL got value', r.value, specs)
        if type(r.error).__name__ != 'OneOfDoesNotHaveResultError' and not isinstance(r.error, RuntimeError):
            return ('WRONG ERR', repr(r.error), specs)
    else:
        if r.error is not None:
            return ('UNEXPECTED ERR', repr(r.error), specs, exp)
        if r.value != exp:
            return ('WRONG VALUE', r.value, exp, specs)
        extra = set(st) - exp_exec - {n for n in specs if specs[n]['fail']} 
        # executed nodes that reference never needed (ignoring failing bodies which are in tried set)
        tried = set()
        # recompute tried set = all nodes ev_ visited whose inputs ok
        if extra:
            return ('EXTRA EXEC', sorted(extra), specs, exp)
    dup = [x for x in set(st) if st.count(x) > 1]
    if dup:
        return ('DUP EXEC', dup, specs)
    return None

async def main():
    share = sys.argv[1] == '1'
    n = int(sys.argv[2]); nn = int(sys.argv[3])
    kinds = {}
    for seed in range(n):
        res = await one(seed, nn, share)
        if res:
            kinds.setdefault(res[0], []).append(seed)
    for k, v in kinds.items():
        print(k, len(v), v[:15])
if __name__ == "__main__":
    asyncio.run(main())
