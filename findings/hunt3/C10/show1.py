import asyncio, sys, random
from _hunt.fuzz1 import *
async def m():
    share = sys.argv[1] == '1'; nn = int(sys.argv[2])
    for seed in map(int, sys.argv[3:]):
        specs, order = gen(random.Random(seed), nn, share)
        r = await one(seed, nn, share)
        print('SEED', seed, r[0], r[1] if r[0] not in ('HANG',) else '')
        if r[0] in ('WRONG VALUE',): print('   EXP', r[2])
        for n in order:
            s = specs[n]
            if n=='I': continue
            print('   ', n, 'plain', s['plain'], 'oo', s['oneofs'], 'FAIL' if s['fail'] else '', s['delay'])
        print('   started', started())
asyncio.run(m())
