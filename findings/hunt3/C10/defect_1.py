"""
Defect 1: a switch inside the sub-pipeline of a one-of candidate whose SELECTED CASE has a failing
ANCESTOR (failure one or more hops above the case node) hangs the run instead of failing the candidate.

Pipeline (all nodes are plain coroutine nodes, no timing is involved):

    I --> SW (returns 'a') ----------------.
    I --> G (raises) --> C1 --case 'a'--> switch --> A  --.
    I --> C2 ------------case 'b'-------->'               +--> InputOneOf([A, B]) --> X (output)
    I --> B  ---------------------------------------------'

Expected: candidate A fails (its sub-pipeline contains the failure of G), candidate B is tried, X receives 'B'.
Observed: chart.run() never returns.

Run from /tmp/hunt_C10:  /venv/bin/python _hunt/defect_1.py     (exit code 1 == defect shows)
"""
import asyncio
import logging
import sys

sys.path.insert(0, '.')
logging.disable(logging.CRITICAL)

from ml_pipeline_engine.chart import PipelineChart  # noqa: E402
from ml_pipeline_engine.dag_builders.annotation import build_dag  # noqa: E402
from ml_pipeline_engine.dag_builders.annotation.marks import Input  # noqa: E402
from ml_pipeline_engine.dag_builders.annotation.marks import InputOneOf  # noqa: E402
from ml_pipeline_engine.dag_builders.annotation.marks import SwitchCase  # noqa: E402
from ml_pipeline_engine.node import ProcessorBase  # noqa: E402

EXECUTED = []


class I(ProcessorBase):  # noqa: E742
    name = 'I'

    async def process(self, x: int) -> int:
        EXECUTED.append('I')
        return x


class SW(ProcessorBase):
    name = 'SW'

    async def process(self, i: Input(I)) -> str:
        EXECUTED.append('SW')
        return 'a'


class G(ProcessorBase):
    name = 'G'

    async def process(self, i: Input(I)) -> int:
        EXECUTED.append('G')
        raise RuntimeError('G failed')


class C1(ProcessorBase):
    name = 'C1'

    async def process(self, g: Input(G)) -> str:
        EXECUTED.append('C1')
        return 'C1'


class C2(ProcessorBase):
    name = 'C2'

    async def process(self, i: Input(I)) -> str:
        EXECUTED.append('C2')
        return 'C2'


class A(ProcessorBase):
    name = 'A'

    async def process(self, v: SwitchCase(name='sw', switch=SW, cases=[('a', C1), ('b', C2)])) -> str:
        EXECUTED.append(('A', v))
        return 'A'


class B(ProcessorBase):
    name = 'B'

    async def process(self, i: Input(I)) -> str:
        EXECUTED.append('B')
        return 'B'


class X(ProcessorBase):
    name = 'X'

    async def process(self, v: InputOneOf([A, B])) -> str:
        EXECUTED.append(('X', v))
        return v


class XOnlyA(ProcessorBase):
    name = 'XOnlyA'

    async def process(self, v: InputOneOf([A])) -> str:
        EXECUTED.append(('XOnlyA', v))
        return v


async def scenario(title: str, output: type, expected: str) -> bool:
    EXECUTED.clear()
    chart = PipelineChart('defect_1', build_dag(input_node=I, output_node=output))
    print(f'--- {title}')
    print(f'expected: {expected}')
    try:
        result = await asyncio.wait_for(chart.run(input_kwargs={'x': 1}), timeout=3)
    except asyncio.TimeoutError:
        print(f'observed: HANG - chart.run() did not return within 3 s; executed bodies: {EXECUTED}')
        return True
    print(f'observed: value={result.value!r} error={result.error!r}; executed bodies: {EXECUTED}')
    return False


async def main() -> int:
    bad = False
    bad |= await scenario(
        'one-of [A, B]; A = switch consumer whose selected case C1 depends on the failing node G',
        X, "value 'B' (candidate A fails because of G, candidate B is tried)",
    )
    bad |= await scenario(
        'one-of [A] only',
        XOnlyA, 'the run fails with OneOfDoesNotHaveResultError',
    )
    print('DEFECT SHOWS' if bad else 'no defect')
    return 1 if bad else 0


if __name__ == '__main__':
    sys.exit(asyncio.run(main()))
