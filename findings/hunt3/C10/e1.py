import asyncio
from _hunt.h import *

async def t1():
    # basic: A fails, B ok
    reset()
    I = mk('I')
    A = mk('A', {'i': Input(I)}, fail=True)
    B = mk('B', {'i': Input(I)})
    C = mk('C', {'i': Input(I)})
    X = mk('X', {'v': InputOneOf([A, B, C])})
    r = await run(I, X)
    print('t1', r, started())

async def t2():
    # Two siblings one-of with shared candidates in reverse order
    reset()
    I = mk('I')
    A = mk('A', {'i': Input(I)}, fail=True)
    B = mk('B', {'i': Input(I)})
    X = mk('X', {'v': InputOneOf([A, B]), 'w': InputOneOf([B, A])})
    r = await run(I, X)
    print('t2', r, started(), LOG[-1])

async def t3():
    # candidate returning None / 0 / '' 
    for val in (None, 0, '', [], {}):
        reset()
        I = mk('I')
        A = mk('A', {'i': Input(I)}, ret=val)
        B = mk('B', {'i': Input(I)})
        X = mk('X', {'v': InputOneOf([A, B])})
        r = await run(I, X)
        print('t3', repr(val), r, started(), LOG[-2])

async def t4():
    # nested: outer [A, B]; A: one-of [P, Q] both fail -> B
    reset()
    I = mk('I')
    P = mk('P', {'i': Input(I)}, fail=True)
    Q = mk('Q', {'i': Input(I)}, fail=True)
    A = mk('A', {'v': InputOneOf([P, Q])})
    B = mk('B', {'i': Input(I)})
    X = mk('X', {'v': InputOneOf([A, B])})
    r = await run(I, X)
    print('t4', r, started())

async def t5():
    # input node returns None; candidates depend
    reset()
    I = mk('I', ret=None)
    A = mk('A', {'i': Input(I)}, fail=True)
    B = mk('B', {'i': Input(I)}, ret=None)
    X = mk('X', {'v': InputOneOf([A, B])}, ret=None)
    O = mk('O', {'x': Input(X)})
    r = await run(I, O)
    print('t5', r, started())

async def main():
    for f in (t1, t2, t3, t4, t5):
        await f()
asyncio.run(main())
