import asyncio, sys, random, logging, pprint
from _hunt.fuzz1 import *
async def m():
    share = sys.argv[1] == '1'; seed = int(sys.argv[2]); nn = int(sys.argv[3])
    r = await one(seed, nn, share)
    pprint.pprint(r, width=150)
    print(started())
asyncio.run(m())
