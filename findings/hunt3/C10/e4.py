import asyncio, typing as t
from _hunt.h import *

async def t1(use_default):
    # candidate A depends on recurrent dest D that always asks for another iteration
    reset()
    I = mk('I')
    S = mk('S', {'i': Input(I)}, first_params={'additional_data': t.Any}, fn=lambda self, i, additional_data=None: ('S', additional_data))
    def dfn(self, s):
        return self.next_iteration(1)
    D = mk('D', {'s': Input(S)}, fn=dfn, base=RecurrentProcessor,
           attrs={'use_default': use_default, 'get_default': lambda self, **kw: 'D-default'})
    A = mk('A', {'d': RecurrentSubGraph(start_node=S, dest_node=D, max_iterations=2)})
    B = mk('B', {'i': Input(I)})
    X = mk('X', {'v': InputOneOf([A, B])})
    r = await run(I, X)
    print('t1', use_default, r, started(), [l for l in LOG if l[1] in ('A','X') and l[0]=='start'])

async def t2():
    # one-of inside recurrent subgraph: S -> P,Q -> M -> D ; D asks one re-iteration; Q fails always
    reset()
    I = mk('I')
    S = mk('S', {'i': Input(I)}, first_params={'additional_data': t.Any}, fn=lambda self, i, additional_data=None: additional_data)
    P = mk('P', {'s': Input(S)}, fn=lambda self, s: ('P', s))
    Q = mk('Q', {'s': Input(S)}, fail=True)
    M = mk('M', {'v': InputOneOf([P, Q])}, fn=lambda self, v: v)
    def dfn(self, m):
        if m[1] is None:
            return self.next_iteration(1)
        return ('D', m)
    D = mk('D', {'m': Input(M)}, fn=dfn, base=RecurrentProcessor)
    O = mk('O', {'d': RecurrentSubGraph(start_node=S, dest_node=D, max_iterations=3)})
    r = await run(I, O)
    print('t2', r, started())

async def main():
    await t1(False); await t1(True); await t2()
asyncio.run(main())
