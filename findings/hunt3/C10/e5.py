import asyncio
from _hunt.h import *

async def t1():
    reset()
    I = mk('I')
    X = mk('X', {'v': InputOneOf([])})
    try:
        r = await run(I, X); print('t1', r)
    except Exception as e:
        print('t1 exc', repr(e))

async def t2():
    reset()
    I = mk('I')
    A = mk('A', {'v': InputOneOf([])})
    B = mk('B', {'i': Input(I)})
    X = mk('X', {'v': InputOneOf([A, B])})
    try:
        r = await run(I, X); print('t2', r, started())
    except Exception as e:
        print('t2 exc', repr(e))

async def t3():
    # tuple of candidates
    reset()
    I = mk('I')
    A = mk('A', {'i': Input(I)}, fail=True)
    B = mk('B', {'i': Input(I)})
    X = mk('X', {'v': InputOneOf((A, B))})
    try:
        r = await run(I, X); print('t3', r, started())
    except Exception as e:
        print('t3 exc', repr(e))

async def t4():
    # output node itself is the consumer and candidate has no deps at all; candidate = no-annotation node
    reset()
    I = mk('I')
    A = mk('A', fail=True)
    B = mk('B', ret=None)
    X = mk('X', {'v': InputOneOf([A, B]), 'w': InputOneOf([A, B])})
    r = await run(I, X); print('t4', r, started(), LOG[-2])

asyncio.run(t1()); asyncio.run(t2()); asyncio.run(t3()); asyncio.run(t4())
