"""Concurrent + sequential runs of one chart (tree pipelines with one-of + switch)."""
import asyncio, random, sys
from _hunt.h import *
from _hunt import fuzz2

async def one(seed, n_nodes):
    rng = random.Random(seed)
    specs, order = fuzz2.gen(rng, n_nodes)
    if fuzz2.known_pattern(specs): return None
    exp = fuzz2.reference(specs)
    reset()
    classes = fuzz2.build(specs, order)
    chart = PipelineChart('m', build_dag(input_node=classes['I'], output_node=classes['OUT']))
    try:
        rs = await asyncio.wait_for(asyncio.gather(*[chart.run(input_kwargs={}) for _ in range(4)]), 4)
        rs.append(await asyncio.wait_for(chart.run(input_kwargs={}), 2))
    except asyncio.TimeoutError:
        return ('HANG',)
    for r in rs:
        if exp is None:
            if r.error is None: return ('EXPECTED FAIL got value', r.value)
        else:
            if r.error is not None: return ('UNEXPECTED ERR', repr(r.error))
            if r.value != exp: return ('WRONG VALUE',)
    return None

async def main():
    n = int(sys.argv[1]); nn = int(sys.argv[2])
    kinds = {}
    for seed in range(n):
        res = await one(seed, nn)
        if res: kinds.setdefault(res[0], []).append(seed)
    for k, v in kinds.items(): print(k, len(v), v[:20])
asyncio.run(main())
