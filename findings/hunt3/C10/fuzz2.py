"""Tree-shaped pipelines with one-ofs AND switches (no sharing) vs reference."""
import asyncio, random, sys
from _hunt.h import *

DELAYS = [0, 0, 0.001, 0.003, 0.006]
import os
if os.environ.get('TICKS'): DELAYS = [0, 1, 2, 3, 5, 8, 13]
FAILP = 0.3

def gen(rng, n_nodes):
    specs = {'I': dict(plain=[], oneofs=[], sw=[], fail=False, delay=0, ret=None)}
    order = ['I']
    consumed = set()
    for k in range(n_nodes):
        name = f'N{k}'
        plain, oneofs, sw = [], [], []
        def take():
            fresh = [x for x in order[1:] if x not in consumed]
            if not fresh: return None
            x = rng.choice(fresh); consumed.add(x); return x
        leaf = rng.random() < 0.45
        for _ in range(0 if leaf else rng.choice([0, 1, 1, 2])):
            x = take()
            if x: plain.append(x)
        for _ in range(0 if leaf else rng.choice([0, 0, 1, 1])):
            c = [x for x in (take() for _ in range(rng.choice([2, 2, 3]))) if x]
            if c: oneofs.append(c)
        if not leaf and rng.random() < 0.5:
            d = take()
            cs = [x for x in (take() for _ in range(2)) if x]
            if d and cs:
                sw.append((d, cs, rng.randrange(len(cs) + (1 if rng.random() < 0.15 else 0))))
            else:
                for x in [d] + cs:
                    if x: consumed.discard(x)
        if not plain and not oneofs and not sw:
            plain = ['I']
        specs[name] = dict(plain=plain, oneofs=oneofs, sw=sw, fail=rng.random() < FAILP,
                           delay=rng.choice(DELAYS), ret=None)
        order.append(name)
    specs['OUT'] = dict(plain=[x for x in order[1:] if x not in consumed], oneofs=[], sw=[], fail=False, delay=0, ret=None)
    order.append('OUT')
    # decider nodes return a label index
    for n in order:
        for (d, cs, sel) in specs[n]['sw']:
            specs[d]['ret'] = f'L{sel}'
    return specs, order

def reference(specs):
    memo = {}
    def ev_(n):
        if n in memo: return memo[n]
        s = specs[n]
        vals = {}; ok = True
        for i, p in enumerate(s['plain']):
            r = ev_(p)
            if r is None: ok = False
            vals[f'p{i}'] = r
        for j, cands in enumerate(s['oneofs']):
            got = None
            for c in cands:
                r = ev_(c)
                if r is not None: got = r; break
            if got is None: ok = False
            vals[f'o{j}'] = got
        for j, (d, cs, sel) in enumerate(s['sw']):
            r = ev_(d)
            if r is None or sel >= len(cs): ok = False; continue
            r2 = ev_(cs[sel])
            if r2 is None: ok = False
            vals[f's{j}'] = r2
        if not ok or s['fail']:
            memo[n] = None; return None
        memo[n] = s['ret'] if s['ret'] is not None else (n, tuple(sorted(vals.items())))
        return memo[n]
    return ev_('OUT')

def build(specs, order):
    classes = {}
    for n in order:
        s = specs[n]
        deps = {}
        if n != 'I':
            for i, p in enumerate(s['plain']): deps[f'p{i}'] = Input(classes[p])
        for j, cands in enumerate(s['oneofs']): deps[f'o{j}'] = InputOneOf([classes[c] for c in cands])
        for j, (d, cs, sel) in enumerate(s['sw']):
            deps[f's{j}'] = SwitchCase(switch=classes[d], cases=[(f'L{i}', classes[c]) for i, c in enumerate(cs)], name=f'sw_{n}_{j}')
        def fn(self, _n=n, _s=s, **kw):
            if _s['fail']: raise RuntimeError(_n)
            if _s['ret'] is not None: return _s['ret']
            if _n == 'I': return ('I', ())
            return (_n, tuple(sorted(kw.items())))
        classes[n] = mk(n, deps, fn=fn, sleep=s['delay'])
    return classes

def known_pattern(specs):
    # a switch inside a one-of candidate's sub-pipeline whose selected case sub-pipeline fails
    def subtree(n, acc):
        if n in acc: return acc
        acc.add(n)
        s = specs[n]
        for p in s['plain']: subtree(p, acc)
        for c in s['oneofs']:
            for x in c: subtree(x, acc)
        for (d, cs, sel) in s['sw']:
            subtree(d, acc)
            for x in cs: subtree(x, acc)
        return acc
    in_cand = set()
    for n, s in specs.items():
        for c in s['oneofs']:
            for x in c: subtree(x, in_cand)
    def fails(n):
        s = specs[n]
        if s['fail']: return True
        if any(fails(p) for p in s['plain']): return True
        if any(all(fails(x) for x in c) for c in s['oneofs']): return True
        for (d, cs, sel) in s['sw']:
            if fails(d) or sel >= len(cs) or fails(cs[sel]): return True
        return False
    for n in in_cand:
        for (d, cs, sel) in specs[n]['sw']:
            if sel < len(cs) and fails(cs[sel]) and not fails(d): return True
    return False

async def one(seed, n_nodes):
    rng = random.Random(seed)
    specs, order = gen(rng, n_nodes)
    if known_pattern(specs): return None
    exp = reference(specs)
    reset()
    classes = build(specs, order)
    try:
        r = await run(classes['I'], classes['OUT'], timeout=2.0)
    except Exception as e:
        return ('BUILD/RUN EXC', repr(e), specs)
    if r == 'HANG': return ('HANG', exp, specs)
    if exp is None:
        if r.error is None: return ('EXPECTED FAIL got value', r.value, specs)
    else:
        if r.error is not None: return ('UNEXPECTED ERR', repr(r.error), specs, exp)
        if r.value != exp: return ('WRONG VALUE', r.value, exp, specs)
    st = started()
    dup = [x for x in set(st) if st.count(x) > 1]
    if dup: return ('DUP EXEC', dup, specs)
    return None

async def main():
    n = int(sys.argv[1]); nn = int(sys.argv[2])
    kinds = {}
    for seed in range(n):
        res = await one(seed, nn)
        if res: kinds.setdefault(res[0], []).append(seed)
    for k, v in kinds.items(): print(k, len(v), v[:20])

if __name__ == '__main__':
    if len(sys.argv) == 4:
        import pprint
        async def m():
            r = await one(int(sys.argv[1]), int(sys.argv[2])); pprint.pprint(r, width=160); print(started())
        asyncio.run(m())
    else:
        asyncio.run(main())
