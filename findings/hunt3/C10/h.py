"""Tiny harness for building pipelines programmatically (exploration only)."""
import asyncio
import sys
import typing as t

sys.path.insert(0, '.')

from ml_pipeline_engine.chart import PipelineChart
from ml_pipeline_engine.dag_builders.annotation import build_dag
from ml_pipeline_engine.dag_builders.annotation.marks import Input, InputOneOf, SwitchCase, RecurrentSubGraph  # noqa
from ml_pipeline_engine.node import ProcessorBase, RecurrentProcessor  # noqa

import logging; logging.disable(logging.CRITICAL)
LOG: t.List[t.Tuple[str, t.Any]] = []
EVENTS: t.Dict[str, asyncio.Event] = {}


def ev(name: str) -> asyncio.Event:
    if name not in EVENTS:
        EVENTS[name] = asyncio.Event()
    return EVENTS[name]


def reset() -> None:
    LOG.clear()
    EVENTS.clear()


def mk(name: str, deps: t.Optional[dict] = None, *, ret: t.Any = '__name__', fail: bool = False,
       wait: t.Optional[str] = None, sets: t.Optional[str] = None, sleep: float = 0, fn=None,
       base=ProcessorBase, attrs: t.Optional[dict] = None, first_params: t.Optional[dict] = None):
    """Create an async node. deps: kwarg -> mark."""
    deps = deps or {}

    async def process(self, **kwargs):
        LOG.append(('start', name, dict(kwargs)))
        if sets:
            ev(sets).set()
        if wait:
            await ev(wait).wait()
        if isinstance(sleep, int) and sleep > 0:
            for _ in range(sleep):
                await asyncio.sleep(0)
        elif sleep:
            await asyncio.sleep(sleep)
        if fn is not None:
            r = fn(self, **kwargs)
            if asyncio.iscoroutine(r):
                r = await r
            LOG.append(('end', name, r))
            return r
        if fail:
            LOG.append(('fail', name, None))
            raise RuntimeError(f'{name} failed')
        r = name if ret == '__name__' else ret
        LOG.append(('end', name, r))
        return r

    process.__annotations__ = {**(first_params or {}), **deps}
    cls = type(name, (base,), {'name': name, 'process': process, **(attrs or {})})
    return cls


async def run(inp, out, input_kwargs=None, timeout=3.0, **chart_kw):
    chart = PipelineChart('m', build_dag(input_node=inp, output_node=out), **chart_kw)
    try:
        res = await asyncio.wait_for(chart.run(input_kwargs=input_kwargs or {}), timeout)
    except asyncio.TimeoutError:
        return 'HANG'
    return res


def started() -> t.List[str]:
    return [n for k, n, _ in LOG if k == 'start']
