import asyncio
from _hunt.h import *
from ml_pipeline_engine.parallelism import threads_pool_registry, process_pool_registry
from ml_pipeline_engine.node.enums import NodeTag

CALLS = []
class I(ProcessorBase):
    name = 'I'
    def process(self, x: int) -> int:
        return x

class A(ProcessorBase):
    name = 'A'
    attempts = 3
    delay = 0.01
    n = 0
    def process(self, i: Input(I)) -> int:
        CALLS.append('A')
        if len([c for c in CALLS if c == 'A']) < 2:
            raise ValueError('first')
        return 10

class B(ProcessorBase):
    name = 'B'
    def process(self, i: Input(I)) -> int:
        CALLS.append('B')
        return 20

class X(ProcessorBase):
    name = 'X'
    def process(self, v: InputOneOf([A, B])) -> int:
        CALLS.append(('X', v))
        return v

class A2(ProcessorBase):
    name = 'A2'
    tags = (NodeTag.non_async,)
    def process(self, i: Input(I)) -> int:
        CALLS.append('A2')
        raise ValueError('a2')

class X2(ProcessorBase):
    name = 'X2'
    tags = (NodeTag.non_async,)
    def process(self, v: InputOneOf([A2, B])) -> int:
        return v

class A3(ProcessorBase):
    name = 'A3'
    tags = (NodeTag.process,)
    def process(self, i: Input(I)) -> int:
        raise ValueError('a3')

class X3(ProcessorBase):
    name = 'X3'
    tags = (NodeTag.process,)
    def process(self, v: InputOneOf([A3, B])) -> int:
        return v

async def main():
    threads_pool_registry.auto_init(); process_pool_registry.auto_init()
    for out in (X, X2, X3):
        CALLS.clear()
        r = await run(I, out, {'x': 1})
        print(out.name, r, CALLS)
asyncio.run(main())
