import asyncio, sys, random, typing as t, logging
sys.path.insert(0, '.')
from ml_pipeline_engine.chart import PipelineChart
from ml_pipeline_engine.dag_builders.annotation import build_dag
from ml_pipeline_engine.dag_builders.annotation.marks import Input, InputOneOf, SwitchCase, RecurrentSubGraph
from ml_pipeline_engine.node import ProcessorBase, RecurrentProcessor
from ml_pipeline_engine.types import Recurrent
import networkx as nx
logging.disable(logging.CRITICAL)
import os
from ml_pipeline_engine.dag.manager import DAGRunConcurrentManager
from dataclasses import dataclass
@dataclass
class Patched(DAGRunConcurrentManager):
    """triage only: second requester of a node waits for the real result instead of publishing"""
    async def _run_node(self, dag, node_id, force_default=False):
        if self._node_storage.exists_processed_node(node_id):
            while not self._node_storage.exists_node_result(node_id):
                await asyncio.sleep(0.0005)
            if node_id == dag.dest:
                await self._DAGRunConcurrentManager__unlock_itself(node_id)
            return
        return await super()._run_node(dag=dag, node_id=node_id, force_default=force_default)

def gen(seed):
    rnd = random.Random(seed)
    target = rnd.randint(4, 9)
    preds = {0: []}
    kind = {0: 'plain'}
    pool = [0]
    i = 1
    while i < target:
        k = rnd.choice(['plain', 'plain', 'plain', 'switch', 'oneof']) if len(pool) >= 2 and not os.environ.get('NOSW') else 'plain'
        if k == 'plain':
            kind[i] = 'plain'
            preds[i] = sorted(rnd.sample(pool, min(len(pool), rnd.randint(1, 2))))
            pool.append(i); i += 1
        else:
            c1, c2, me = i, i + 1, i + 2
            for c in (c1, c2):
                kind[c] = 'plain'
                preds[c] = sorted(rnd.sample(pool, min(len(pool), rnd.randint(1, 2))))
            kind[me] = k
            preds[me] = [c1, c2]
            pool.append(me); i += 3
    n = i
    # output: a final plain node consuming last pool nodes
    kind[n] = 'plain'; preds[n] = sorted(set(pool[-2:])); n += 1
    g = nx.DiGraph()
    for j, ps in preds.items():
        g.add_node(j)
        for p in ps: g.add_edge(p, j)
    recs = {}
    for _ in range(rnd.randint(1, int(os.environ.get('MAXREC', 2)))):
        live = nx.ancestors(g, n - 1) | {n - 1}
        cands = [(c, d) for d in range(1, n - 1) if kind[d] == 'plain' for c in g.successors(d) if kind[c] == 'plain' and d not in recs and c in live]
        if not cands: break
        c, d = rnd.choice(cands)
        anc = [a for a in sorted(nx.ancestors(g, d)) if kind[a] == 'plain' and a in pool] + [d]
        s = rnd.choice(anc)
        recs[d] = dict(consumer=c, start=s, maxit=rnd.randint(1, 3), want=rnd.randint(0, 3), use_default=rnd.random() < 0.5)
    fails = {j for j in range(1, n) if rnd.random() < 0.1}
    delays = {j: rnd.choice([0, 0, 0.001, 0.003] if not os.environ.get('SLOW') else [0, 0.002, 0.005, 0.01, 0.02]) for j in range(n)}
    return dict(n=n, preds=preds, kind=kind, recs=recs, fails=fails, delays=delays, seed=seed)

def build(spec, LOG, VIOL):
    n = spec['n']; classes = {}
    starts = {r['start'] for r in spec['recs'].values()}
    counts = {i: 0 for i in range(n)}
    def mk(i):
        ps = spec['preds'][i]; kind = spec['kind'][i]
        rec = spec['recs'].get(i)
        is_dest = rec is not None
        base = RecurrentProcessor
        ann = {}
        if i == 0:
            ann['x'] = int
        elif kind == 'plain':
            for p in ps:
                r = spec['recs'].get(p)
                if r and r['consumer'] == i:
                    ann[f'p{p}'] = RecurrentSubGraph(classes[r['start']], classes[p], r['maxit'])
                else:
                    ann[f'p{p}'] = Input(classes[p])
        elif kind == 'oneof':
            ann['v'] = InputOneOf([classes[p] for p in ps])
        elif kind == 'switch':
            # decider = node 0-derived: use first pred as decider?? use a dedicated decider: pred[0]'s class value parity
            ann['v'] = SwitchCase(switch=classes['dec%d' % i], cases=[(0, classes[ps[0]]), (1, classes[ps[1]])], name=f'sw{i}')
        if i in starts:
            ann['additional_data'] = t.Any
        async def process(self, **kw):
            ad = kw.pop('additional_data', None)
            counts[i] += 1
            LOG.append((i, ad, dict(kw)))
            for k, v in kw.items():
                if v is None or isinstance(v, (Recurrent, BaseException)):
                    VIOL.append(('bad-input', i, k, repr(v)))
            if spec['delays'][i]:
                await asyncio.sleep(spec['delays'][i])
            if i in spec['fails'] and not is_dest:
                raise ValueError(f'fail{i}')
            if is_dest:
                if counts[i] <= rec['want']:
                    return self.next_iteration(('it', i, counts[i]))
            return (i, counts[i])
        # need explicit signature for annotations: build via exec
        params = ', '.join(f'{k}=None' if k == 'additional_data' else k for k in ann)
        src = f"async def process(self, {params}):\n    return await _impl(self, " + ', '.join(f'{k}={k}' for k in ann) + ")\n"
        ns = {'_impl': process}
        exec(src, ns)
        fn = ns['process']; fn.__annotations__ = dict(ann)
        attrs = {'process': fn, 'name': f'n{i}'}
        if is_dest:
            attrs['use_default'] = rec['use_default']
            attrs['get_default'] = lambda self, **kw: ('default', i)
        return type(f'N{i}', (base,), attrs)
    for i in range(n):
        if spec['kind'][i] == 'switch':
            ps = spec['preds'][i]
            # decider depends on node ps[0]'s ... keep simple: depends on input, returns (seed+i)%2
            def mkd(_i):
                async def dproc(self, x: Input(classes[0])):
                    LOG.append((f'dec{_i}',))
                    return (spec['seed'] + _i) % 2
                return dproc
            dproc = mkd(i)
            classes['dec%d' % i] = type(f'Dec{i}', (ProcessorBase,), {'process': dproc, 'name': f'dec{i}'})
        classes[i] = mk(i)
    return classes, counts

async def run(spec):
    LOG, VIOL = [], []
    try:
        classes, counts = build(spec, LOG, VIOL)
        dag = build_dag(input_node=classes[0], output_node=classes[spec['n'] - 1])
    except Exception as e:
        return ('build-error', repr(e)), LOG, VIOL, None
    if os.environ.get('PATCH'): dag.run_manager = Patched
    chart = PipelineChart('m', dag)
    try:
        r = await asyncio.wait_for(chart.run(input_kwargs={'x': 1}), 3)
        res = ('ok', r.value, repr(r.error))
    except asyncio.TimeoutError:
        res = ('HANG',)
    return res, LOG, VIOL, (dag, counts)

def classify(spec, res, LOG, VIOL, extra):
    out = []
    if res[0] == 'HANG': out.append('HANG')
    if VIOL: out.append('BADINPUT')
    if extra:
        dag, counts = extra
        g = dag.graph
        insub = set()
        for d, r in spec['recs'].items():
            try:
                for p in nx.all_simple_paths(g, f'processor__n{r["start"]}', f'processor__n{d}'):
                    insub.update(p)
            except Exception: pass
            insub.add(f'processor__n{d}')
        for i, c in counts.items():
            if f'processor__n{i}' not in insub and c > 1:
                out.append(f'OUTSIDE-REEXEC n{i} x{c}')
        if len(spec['recs']) == 1 and res[0] == 'ok':
            (d, r), = spec['recs'].items()
            cd = counts[d]
            if cd:
                exp = min(r['want'], r['maxit']) + 1
                failed = 'fail' in res[2]
                if cd > r['maxit'] + 1: out.append(f'TOO-MANY dest x{cd}')
                if not failed and cd != exp: out.append(f'DEST-COUNT {cd} != {exp}')
                ads = [e[1] for e in LOG if e[0] == r['start']]
                if not failed and ads[1:] != [('it', d, k) for k in range(1, exp)]: out.append(f'ADS {ads}')
                if not failed and r['want'] > r['maxit'] and not r['use_default'] and 'RecurrentSubgraphDoesNotHaveResultError' not in res[2]:
                    out.append('NO-EXHAUST-ERROR ' + res[2][:60])
                # consumers of d
                for e in LOG:
                    if isinstance(e[0], int) and f'p{d}' in e[2]:
                        v = e[2][f'p{d}']
                        okv = ('default', d) if r['want'] > r['maxit'] else (d, exp)
                        if v != okv and not isinstance(v, BaseException): out.append(f'CONSUMER {e[0]} got {v} expected {okv}')
    return out

if __name__ == '__main__':
    a, b = int(sys.argv[1]), int(sys.argv[2])
    for seed in range(a, b):
        spec = gen(seed)
        res, LOG, VIOL, extra = asyncio.run(run(spec))
        cl = classify(spec, res, LOG, VIOL, extra)
        if res[0] == 'build-error':
            print(seed, 'BUILD', res[1][:150]); continue
        if cl:
            print(seed, cl, res[:1], 'recs', spec['recs'], 'kind', {k: v for k, v in spec['kind'].items() if v != 'plain'}, 'preds', spec['preds'], 'fails', spec['fails'], VIOL[:2])
