"""
Two recurrent subgraphs that share their start node (S -> D1 and S -> D2, both consumed by Out).

Scenario A (no interleaving control at all): D2 asks for next_iteration('b') and D1 for next_iteration('a') in the
same pass.
Expected: S is re-executed with additional_data='b' for D2 and with additional_data='a' for D1.
Observed: S never receives 'b': the data is kept per start node, the second request replaces the first before S
          reads it; D2 is re-executed with the value S computed for 'a'.

Scenario B (events force the order): D1 asks for next_iteration('a'); while S is being re-executed for it, D2 asks
for next_iteration('b').

Expected: D2 is re-executed with the result S produced for additional_data='b' (its own request); S is not
          executed twice at the same time.
Observed: the re-iteration of D2 is released by the result of S('a') - the execution that belongs to the
          other subgraph - and that value becomes the final result of D2. S runs twice concurrently.
"""
import sys
sys.path.insert(0, '_hunt')
from _common import *  # noqa: F403,E402

LOG = []
EV = {}


def ev(name: str) -> asyncio.Event:
    return EV.setdefault(name, asyncio.Event())


class Inp(ProcessorBase):
    async def process(self, x: int) -> int:
        return x


class S(RecurrentProcessor):
    async def process(self, x: Input(Inp), additional_data: t.Any = None) -> t.Any:
        LOG.append(('S start', additional_data))
        if additional_data == 'a':
            ev('d2_may_finish').set()      # D2 ends its first execution while S('a') is in flight
            await ev('sa_may_finish').wait()
        if additional_data == 'b':
            ev('sa_may_finish').set()      # S('b') is in flight now: S('a') finishes first
            await ev('sb_may_finish').wait()
        LOG.append(('S end', additional_data))
        return ('S', additional_data)


class D1(RecurrentProcessor):
    async def process(self, s: Input(S)) -> t.Any:
        LOG.append(('D1 called with', s))
        if s[1] != 'a':
            return self.next_iteration('a')
        return ('D1', s)


class D2(RecurrentProcessor):
    async def process(self, s: Input(S)) -> t.Any:
        LOG.append(('D2 called with', s))
        if s[1] is None:
            await ev('d2_may_finish').wait()
            return self.next_iteration('b')
        ev('sb_may_finish').set()
        return ('D2', s)


class Out(ProcessorBase):
    async def process(
        self,
        d1: RecurrentSubGraph(start_node=S, dest_node=D1, max_iterations=2),
        d2: RecurrentSubGraph(start_node=S, dest_node=D2, max_iterations=2),
    ) -> t.Any:
        return d1, d2


class SA(RecurrentProcessor):
    async def process(self, x: Input(Inp), additional_data: t.Any = None) -> t.Any:
        LOG.append(('S called with additional_data', additional_data))
        return ('S', additional_data)


class D1A(RecurrentProcessor):
    async def process(self, s: Input(SA)) -> t.Any:
        LOG.append(('D1 called with', s))
        return self.next_iteration('a') if s[1] is None else ('D1', s)


class D2A(RecurrentProcessor):
    async def process(self, s: Input(SA)) -> t.Any:
        LOG.append(('D2 called with', s))
        return self.next_iteration('b') if s[1] is None else ('D2', s)


class OutA(ProcessorBase):
    async def process(
        self,
        d1: RecurrentSubGraph(start_node=SA, dest_node=D1A, max_iterations=2),
        d2: RecurrentSubGraph(start_node=SA, dest_node=D2A, max_iterations=2),
    ) -> t.Any:
        return d1, d2


def scenario_a() -> bool:
    print('--- scenario A')
    LOG.clear()
    result = asyncio.run(run_chart(Inp, OutA, {'x': 1}))
    for entry in LOG:
        print('   ', entry)
    if result is HANG:
        print('DEFECT: the run hangs')
        return True
    print('result.value =', result.value, ' error =', repr(result.error))
    delivered = [e[1] for e in LOG if e[0] == 'S called with additional_data']
    print("expected: S is called with additional_data 'a' and with additional_data 'b'")
    print('observed: S was called with', delivered)
    if 'a' not in delivered or 'b' not in delivered:
        print('DEFECT: the data of one next_iteration() request never reaches the start node')
        return True
    return False


def main() -> int:
    bad_a = scenario_a()
    print('--- scenario B')
    LOG.clear()
    return 1 if (scenario_b() or bad_a) else 0


def scenario_b() -> int:
    result = asyncio.run(run_chart(Inp, Out, {'x': 1}))
    for entry in LOG:
        print('   ', entry)
    if result is HANG:
        print('DEFECT: the run hangs')
        return 1
    print('result.value =', result.value, ' error =', repr(result.error))

    d2_inputs = [e[1] for e in LOG if e[0] == 'D2 called with']
    print("expected: D2 asked for next_iteration('b'), so its re-execution receives ('S', 'b')")
    print('observed: D2 was called with', d2_inputs)

    bad = False
    if len(d2_inputs) < 2 or d2_inputs[1] != ('S', 'b'):
        print("DEFECT: the re-iteration of D2 consumed the result of S that was computed for the OTHER subgraph")
        bad = True
    if LOG.index(('S start', 'b')) < LOG.index(('S end', 'a')):
        print("DEFECT: S was started for 'b' while its execution for 'a' was still running (two concurrent executions)")
        bad = True
    return 1 if bad else 0


if __name__ == '__main__':
    sys.exit(main())
