"""
A one-of lies on the path of a recurrent subgraph:  S -> Primary / Fallback -> one-of -> X -> D,
Out: RecurrentSubGraph(start_node=S, dest_node=D, max_iterations=2).
Primary always fails, Fallback works. D asks for one more iteration.

Expected: the one-of rule applies in every iteration: Primary fails, the failure is contained, Fallback is used;
          the run ends with the value D computes in the second iteration.
Observed: first pass as expected. In the re-iteration the candidates are launched as ordinary nodes of the
          recurrent sub-dag (both at once, outside of the one-of scope), the failure of Primary is not contained
          and the whole run fails with the error of Primary.
"""
import sys
sys.path.insert(0, '_hunt')
from _common import *  # noqa: F403,E402

LOG = []


class Inp(ProcessorBase):
    async def process(self, x: int) -> int:
        return x


class S(RecurrentProcessor):
    async def process(self, x: Input(Inp), additional_data: t.Any = None) -> t.Any:
        LOG.append(('S', additional_data))
        return x, additional_data


class Primary(ProcessorBase):
    async def process(self, s: Input(S)) -> t.Any:
        LOG.append(('Primary fails',))
        raise ValueError('primary source is down')


class Fallback(ProcessorBase):
    async def process(self, s: Input(S)) -> t.Any:
        LOG.append(('Fallback',))
        return 'fallback', s


class X(ProcessorBase):
    async def process(self, v: InputOneOf([Primary, Fallback])) -> t.Any:
        LOG.append(('X', v))
        return v


class D(RecurrentProcessor):
    async def process(self, v: Input(X)) -> t.Any:
        LOG.append(('D', v))
        if v[1][1] is None:
            return self.next_iteration('again')
        return v


class Out(ProcessorBase):
    async def process(self, d: RecurrentSubGraph(start_node=S, dest_node=D, max_iterations=2)) -> t.Any:
        return d


def main() -> int:
    result = asyncio.run(run_chart(Inp, Out, {'x': 1}))
    for entry in LOG:
        print('   ', entry)
    expected = ('fallback', (1, 'again'))
    print('expected: value', expected, 'error None')
    if result is HANG:
        print('observed: hang')
        return 1
    print('observed: value', result.value, 'error', repr(result.error))
    if result.error is not None or result.value != expected:
        print('DEFECT: the failure of the first candidate is not contained in the re-iteration')
        return 1
    return 0


if __name__ == '__main__':
    sys.exit(main())
