"""
Two consumers declare DIFFERENT recurrent subgraphs for the same destination node D:
    C1: RecurrentSubGraph(start_node=S,   dest_node=D, max_iterations=1)
    C2: RecurrentSubGraph(start_node=Inp, dest_node=D, max_iterations=3)
The builder accepts both and keeps a single (start_node, max_iterations) pair on the node D: the one of the
declaration it happens to traverse last. Which one that is depends on the order of the parameters of an unrelated
node (the output node).

Expected: the conflicting declarations are rejected at build time, or every declaration is honoured (D is never
          re-executed more than the 1 time C1 allows / the behaviour does not depend on parameter order).
Observed: with Out(a: C1, b: C2) the subgraph is S -> D with 1 iteration, with Out(b: C2, a: C1) it is
          Inp -> S -> D with 3 iterations - D is re-executed 3 times although C1 declared max_iterations=1,
          and Inp receives the additional_data that C1 addressed to S.
"""
import sys
sys.path.insert(0, '_hunt')
from _common import *  # noqa: F403,E402

LOG = []


class Inp(RecurrentProcessor):
    async def process(self, x: int, additional_data: t.Any = None) -> t.Any:
        LOG.append(('Inp', additional_data))
        return x


class S(RecurrentProcessor):
    async def process(self, x: Input(Inp), additional_data: t.Any = None) -> t.Any:
        LOG.append(('S', additional_data))
        return x


class D(RecurrentProcessor):
    async def process(self, s: Input(S)) -> t.Any:
        LOG.append(('D',))
        return self.next_iteration('again')      # never satisfied: the bound is what stops it


class C1(ProcessorBase):
    async def process(self, d: RecurrentSubGraph(start_node=S, dest_node=D, max_iterations=1)) -> t.Any:
        return d


class C2(ProcessorBase):
    async def process(self, d: RecurrentSubGraph(start_node=Inp, dest_node=D, max_iterations=3)) -> t.Any:
        return d


class OutA(ProcessorBase):
    async def process(self, a: Input(C1), b: Input(C2)) -> t.Any:
        return a, b


class OutB(ProcessorBase):
    async def process(self, b: Input(C2), a: Input(C1)) -> t.Any:
        return a, b


def observe(out: t.Any) -> t.Tuple[int, t.List[t.Any], t.Any]:
    LOG.clear()
    try:
        result = asyncio.run(run_chart(Inp, out, {'x': 1}))
    except Exception as ex:  # a build error would be the acceptable outcome
        print('   build/run raised', repr(ex))
        return -1, [], None
    d_runs = len([e for e in LOG if e[0] == 'D'])
    starts = [e for e in LOG if e[0] in ('Inp', 'S') and e[1] is not None]
    return d_runs, starts, result


def main() -> int:
    runs_a, data_a, res_a = observe(OutA)
    runs_b, data_b, res_b = observe(OutB)
    print('Out(a: C1, b: C2): D executed', runs_a, 'times; additional_data deliveries:', data_a)
    print('Out(b: C2, a: C1): D executed', runs_b, 'times; additional_data deliveries:', data_b)
    print('expected: a build error, or the same behaviour for both parameter orders with at most 1 + 1 executions '
          'of D (C1 declares max_iterations=1)')
    if runs_a == -1 and runs_b == -1:
        print('OK: the conflicting declarations are rejected')
        return 0
    bad = False
    if (runs_a, data_a) != (runs_b, data_b):
        print('DEFECT: the recurrent subgraph that is executed depends on the order of the parameters of Out')
        bad = True
    if max(runs_a, runs_b) > 2:
        print('DEFECT: D was re-executed', max(runs_a, runs_b) - 1, 'times although C1 declares max_iterations=1')
        bad = True
    return 1 if bad else 0


if __name__ == '__main__':
    sys.exit(main())
