"""
RecurrentSubGraph(start_node=Side, dest_node=D) where Side is a node of the dag, has the additional_data parameter,
but is NOT an ancestor of D (no dependency path Side -> D). The builder accepts the declaration.

Expected: a build-time error; or at run time the documented end of a subgraph that cannot produce a result:
          get_default() of D (D opts in with use_default=True) / RecurrentSubgraphDoesNotHaveResultError.
Observed: when D returns next_iteration(...) the engine 're-runs' an empty sub-dag, takes the None that
          _run_dag returns for an empty sub-dag for the final result of the iteration, leaves the loop, and D keeps
          its Recurrent marker for ever: the consumers of D are never invoked, get_default is never called and
          PipelineChart.run never returns.
"""
import sys
sys.path.insert(0, '_hunt')
from _common import *  # noqa: F403,E402

LOG = []


class Inp(ProcessorBase):
    async def process(self, x: int) -> t.Any:
        return x


class Side(RecurrentProcessor):
    async def process(self, x: Input(Inp), additional_data: t.Any = None) -> t.Any:
        LOG.append(('Side', additional_data))
        return 1


class A(ProcessorBase):
    async def process(self, x: Input(Inp)) -> t.Any:
        LOG.append(('A',))
        return 0


class D(RecurrentProcessor):
    use_default = True

    def get_default(self, **__: t.Any) -> t.Any:
        LOG.append(('D.get_default',))
        return 'default'

    async def process(self, a: Input(A)) -> t.Any:
        LOG.append(('D', a))
        return self.next_iteration(a + 1)


class Out(ProcessorBase):
    async def process(
        self,
        d: RecurrentSubGraph(start_node=Side, dest_node=D, max_iterations=2),
        s: Input(Side),
    ) -> t.Any:
        LOG.append(('Out', d, s))
        return d, s


def main() -> int:
    try:
        result = asyncio.run(run_chart(Inp, Out, {'x': 1}, timeout=3))
    except Exception as ex:
        print('OK: the declaration is rejected:', repr(ex))
        return 0
    for entry in LOG:
        print('   ', entry)
    print("expected: a build error, or value ('default', 1), or error RecurrentSubgraphDoesNotHaveResultError")
    if result is HANG:
        print('observed: PipelineChart.run did not return within 3 seconds; get_default was not called')
        print('DEFECT: the run hangs')
        return 1
    print('observed: value', result.value, 'error', repr(result.error))
    return 0


if __name__ == '__main__':
    sys.exit(main())
