import asyncio
import logging
import os
import sys
import typing as t

sys.path.insert(0, os.getcwd())
logging.disable(logging.CRITICAL)

from ml_pipeline_engine.chart import PipelineChart  # noqa: E402
from ml_pipeline_engine.dag_builders.annotation import build_dag  # noqa: E402
from ml_pipeline_engine.dag_builders.annotation.marks import Input  # noqa: E402,F401
from ml_pipeline_engine.dag_builders.annotation.marks import InputOneOf  # noqa: E402,F401
from ml_pipeline_engine.dag_builders.annotation.marks import RecurrentSubGraph  # noqa: E402,F401
from ml_pipeline_engine.dag_builders.annotation.marks import SwitchCase  # noqa: E402,F401
from ml_pipeline_engine.node import ProcessorBase  # noqa: E402,F401
from ml_pipeline_engine.node import RecurrentProcessor  # noqa: E402,F401
from ml_pipeline_engine.parallelism import threads_pool_registry  # noqa: E402

threads_pool_registry.auto_init()

HANG = object()


async def run_chart(inp: t.Any, out: t.Any, kwargs: t.Optional[dict] = None, timeout: float = 5) -> t.Any:
    """Build the dag with the public API, run it through PipelineChart.run; HANG when it does not return."""
    chart = PipelineChart('hunt', build_dag(input_node=inp, output_node=out))
    try:
        return await asyncio.wait_for(chart.run(input_kwargs=kwargs or {}), timeout)
    except asyncio.TimeoutError:
        return HANG
