"""
Defect 1: a chart that ran fine stops working after an unrelated build_node() call.

build_node() makes the generated class picklable by storing it in the module globals of
ml_pipeline_engine/node/node.py under class_name (default: 'Generic<Base.__name__>').  A second specialisation
of the same generic node (the pattern of docs/usage_examples.md and tests/dag/test_reusable_nodes.py) overwrites
that entry, so the class used by the FIRST chart cannot be pickled any more and its process-pool node fails.

Run: /venv/bin/python _hunt/defect_1.py   (exit code 1 = defect shows)
"""
import asyncio
import logging
import sys

sys.path.insert(0, '.')
logging.disable(logging.CRITICAL)

from ml_pipeline_engine.chart import PipelineChart
from ml_pipeline_engine.dag_builders.annotation import build_dag
from ml_pipeline_engine.dag_builders.annotation.marks import GenericInput
from ml_pipeline_engine.dag_builders.annotation.marks import Input
from ml_pipeline_engine.node import ProcessorBase
from ml_pipeline_engine.node import build_node
from ml_pipeline_engine.node.enums import NodeTag
from ml_pipeline_engine.parallelism import process_pool_registry
from ml_pipeline_engine.parallelism import threads_pool_registry


class Inp(ProcessorBase):
    name = 'inp'

    async def process(self, x: int) -> int:
        return x


class Other(ProcessorBase):
    name = 'other'

    async def process(self, x: Input(Inp)) -> int:
        return x + 1000


class Scale(ProcessorBase):
    """A generic node that is executed in the process pool"""
    name = 'scale'
    tags = (NodeTag.process,)

    def process(self, v: GenericInput(Inp), k: int) -> int:
        return v * k


ScaleInp = build_node(Scale, node_name='scale_inp', dependencies_default={'k': 2}, v=Input(Inp))


class Out1(ProcessorBase):
    name = 'out1'

    async def process(self, v: Input(ScaleInp)) -> int:
        return v


async def main() -> int:
    threads_pool_registry.auto_init()
    process_pool_registry.auto_init()

    chart1 = PipelineChart('m', build_dag(Inp, Out1))

    r1 = await asyncio.wait_for(chart1.run(input_kwargs={'x': 5}), 30)
    print('run 1 of chart1                 :', r1.value, repr(r1.error))

    # Somewhere else in the application a second specialisation of the same generic node is declared
    # (it is not even put into a chart, nothing is run)
    build_node(Scale, node_name='scale_other', dependencies_default={'k': 3}, v=Input(Other))

    r2 = await asyncio.wait_for(chart1.run(input_kwargs={'x': 5}), 30)
    print('run 2 of chart1 after build_node:', r2.value, repr(r2.error))

    r3 = await asyncio.wait_for(PipelineChart('m', build_dag(Inp, Out1)).run(input_kwargs={'x': 5}), 30)
    print('fresh chart from the same nodes :', r3.value, repr(r3.error))

    print()
    print('expected: every run returns 10 (same chart object, same input)')
    if (r1.value, r1.error) == (10, None) and r2.error is None and r2.value == 10 and r3.value == 10:
        print('observed: as expected - defect NOT reproduced')
        return 0

    print('observed: run 1 = %r, run 2 = %r / %s' % (r1.value, r2.value, type(r2.error).__name__))
    print('DEFECT: the chart is not reusable - its outcome depends on the process-wide registry '
          'ml_pipeline_engine.node.node.globals()[class_name] that every build_node() call overwrites')
    return 1


if __name__ == '__main__':
    sys.exit(asyncio.run(main()))
