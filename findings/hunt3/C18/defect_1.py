"""Defect 1: an artifact saved under the (legal, boundary) node id '' can never be loaded.

The format of a stored artifact is recovered from ``Path.suffix`` of the file name.  For node id '' the file is
named '.pickle' / '.json', which pathlib treats as a hidden file WITHOUT suffix, so load() asks the factory
for the serializer of extension '' and dies with SerializerInitializationError - although save() succeeded,
a second save() correctly reports ArtifactAlreadyExists, and the file is on disk.
"""
import sys, os; sys.path.insert(0, os.getcwd())
import asyncio, tempfile, warnings
warnings.simplefilter('ignore')
from ml_pipeline_engine.artifact_store.enums import DataFormat
from ml_pipeline_engine.artifact_store.errors import ArtifactAlreadyExists
from ml_pipeline_engine.artifact_store.store.filesystem import FileSystemArtifactStore


class Ctx:
    model_name = 'model'
    pipeline_id = 'pipeline'


async def main() -> int:
    bad = 0
    for fmt in DataFormat:
        store = FileSystemArtifactStore(Ctx(), tempfile.mkdtemp())
        value = {'answer': 42}
        await store.save('', value, fmt)
        try:
            await store.save('', value, fmt)
            print(f'[{fmt.value}] second save did not raise')
        except ArtifactAlreadyExists:
            print(f'[{fmt.value}] save("") stored the key (second save raises ArtifactAlreadyExists)')
        print(f'[{fmt.value}] expected: load("") == {value!r}')
        try:
            got = await store.load('')
            print(f'[{fmt.value}] got     : {got!r}')
            bad += got != value
        except Exception as ex:  # noqa: BLE001
            print(f'[{fmt.value}] got     : {type(ex).__name__}: {ex}')
            bad += 1
    print('DEFECT' if bad else 'ok')
    return 1 if bad else 0


sys.exit(asyncio.run(main()))
