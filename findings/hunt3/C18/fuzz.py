import sys, os; sys.path.insert(0, os.getcwd())
import asyncio, random, tempfile, warnings, itertools, collections
warnings.simplefilter('ignore')
from ml_pipeline_engine.artifact_store.enums import DataFormat
from ml_pipeline_engine.artifact_store.errors import *
from ml_pipeline_engine.artifact_store.store.filesystem import FileSystemArtifactStore

class Ctx:
    def __init__(s, m, p): s.model_name, s.pipeline_id = m, p

ALPHA = ['a', 'b', '.', '*', '?', '[', ']', ' ', '-', '~', 'é', '\\', ':', '%', '#', '\n', 'pickle', 'json', 'A']
def rid(r):
    return ''.join(r.choice(ALPHA) for _ in range(r.randint(0, 4)))

async def main():
    r = random.Random(1)
    problems = collections.Counter()
    for rnd in range(300):
        d = tempfile.mkdtemp()
        ctxs = [Ctx(m, p) for m in ('m', 'm2') for p in ('p', 'q')]
        stores = [FileSystemArtifactStore(c, d) for c in ctxs]
        ids = [rid(r) for _ in range(6)]
        ids += [ids[0] + '.pickle', ids[0] + '.json', ids[1] + '*', ids[1][:1]]
        model = {}
        for step in range(60):
            i = r.randrange(len(stores)); nid = r.choice(ids); key = (i, nid)
            if r.random() < 0.5:
                fmt = r.choice(list(DataFormat)); val = {'v': step, 'k': nid}
                if r.random() < 0.2: val = {1, 2} if fmt == DataFormat.JSON else (lambda: 0)  # failing save
                try:
                    await stores[i].save(nid, val, fmt)
                    if key in model: problems[('second save ok', nid)] += 1
                    model[key] = val
                except ArtifactAlreadyExists:
                    if key not in model: problems[('spurious exists', nid)] += 1
                except (TypeError, AttributeError, Exception) as e:
                    if isinstance(val, dict): problems[('save err', nid, type(e).__name__)] += 1
            else:
                try:
                    got = await stores[i].load(nid)
                    if key not in model: problems[('load of unsaved', nid)] += 1
                    elif got != model[key]: problems[('wrong value', nid)] += 1
                except ArtifactDoesNotExist:
                    if key in model: problems[('lost', nid)] += 1
                except Exception as e:
                    problems[('load err', nid, type(e).__name__)] += 1
    for k, v in problems.most_common(40): print(v, k)
asyncio.run(main())
