import sys, os; sys.path.insert(0, os.getcwd())
import asyncio, tempfile, warnings
warnings.simplefilter('ignore')
from ml_pipeline_engine.artifact_store.store.filesystem import FileSystemArtifactStore
from ml_pipeline_engine.chart import PipelineChart
from ml_pipeline_engine.dag_builders.annotation import build_dag
from ml_pipeline_engine.dag_builders.annotation.marks import Input
class Ctx:
    model_name='m'; pipeline_id='p'
async def main():
    base = tempfile.mkdtemp(); os.chdir(base)
    st = FileSystemArtifactStore(Ctx(), 'artifacts')
    await st.save('k', 1)
    os.mkdir('sub'); os.chdir('sub')
    try: print('load after chdir', await st.load('k'))
    except Exception as e: print('load after chdir', type(e).__name__)
    try: await st.save('k', 2); print('second save after chdir succeeded')
    except Exception as e: print(type(e).__name__)
    # docs example
    def a(x: int): return x
    def b(v: Input(a)): return v
    chart = PipelineChart('m', build_dag(a, b), artifact_store=FileSystemArtifactStore)
    try: print(await chart.run(input_kwargs={'x': 1}))
    except Exception as e: print('chart.run raised', type(e).__name__, e)
asyncio.run(main())
