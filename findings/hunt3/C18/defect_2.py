"""Defect 2: the write-once guarantee is check-then-act, so it does not hold between contexts sharing a directory.

save() first looks whether '<id>.<fmt>' exists (l. 59) and only later opens the file with mode 'wb' / 'w'
(l. 68: create OR TRUNCATE, never exclusive).  Two contexts with the same (model name, pipeline id) - two threads each
running its own event loop here, two worker processes in real life - that save the same node id at the same moment
both pass the check.

 (a) both save() calls return normally (no ArtifactAlreadyExists); the value acknowledged first is overwritten;
 (b) when the second save FAILS (unpicklable value) its clean-up `path.unlink()` (l. 72) removes the file the first
     save wrote and acknowledged: a successful save disappears (load -> ArtifactDoesNotExist);
 (c) the same pattern in _ensure_dir (l. 45-46: `if not path.exists(): path.mkdir(parents=True)`): the very first
     operations of two contexts on a fresh directory raise FileExistsError out of save() / load().

The race is timing dependent; the script repeats small campaigns (fresh keys every time) until it has seen each
symptom or gives up.
"""
import sys, os; sys.path.insert(0, os.getcwd())
import asyncio, tempfile, threading, warnings
warnings.simplefilter('ignore')
from ml_pipeline_engine.artifact_store.errors import ArtifactAlreadyExists, ArtifactDoesNotExist
from ml_pipeline_engine.artifact_store.store.filesystem import FileSystemArtifactStore

sys.setswitchinterval(1e-5)
N = 200
CAMPAIGNS = 15


class Ctx:
    model_name = 'model'
    pipeline_id = 'pipeline'


def campaign(values, fresh_dir_per_key=False):
    """Two contexts save values[i] under the same fresh key, N times."""
    base = tempfile.mkdtemp()
    if not fresh_dir_per_key:
        os.makedirs(os.path.join(base, 'model', 'pipeline'))
    barrier = threading.Barrier(2)
    outcome = {0: [], 1: []}

    def worker(i):
        async def go():
            for n in range(N):
                directory = os.path.join(base, f'd{n}') if fresh_dir_per_key else base
                store = FileSystemArtifactStore(Ctx(), directory)
                barrier.wait(timeout=60)
                try:
                    await store.save(f'key{n}', values[i])
                    outcome[i].append('saved')
                except ArtifactAlreadyExists:
                    outcome[i].append('exists')
                except Exception as ex:  # noqa: BLE001
                    outcome[i].append(type(ex).__name__)

        asyncio.run(go())

    threads = [threading.Thread(target=worker, args=(i,), daemon=True) for i in range(2)]
    [t.start() for t in threads]
    [t.join() for t in threads]
    return base, outcome


async def main() -> int:
    both = lost = mkdir = 0
    total_a = total_b = total_c = 0

    for _ in range(CAMPAIGNS):
        _, outcome = campaign({0: ('value of context', 0), 1: ('value of context', 1)})
        both += sum(1 for n in range(N) if outcome[0][n] == outcome[1][n] == 'saved')
        total_a += N
        if both:
            break
    print(f'(a) expected: for each of {total_a} keys exactly one of the two concurrent saves succeeds, the other '
          f'raises ArtifactAlreadyExists')
    print(f'(a) got     : for {both} keys BOTH saves returned normally (the second writer truncated the first)')

    for _ in range(CAMPAIGNS):
        directory, outcome = campaign({0: ('good value',), 1: (lambda: None)})
        store = FileSystemArtifactStore(Ctx(), directory)
        for n in range(N):
            if outcome[0][n] == 'saved':
                total_b += 1
                try:
                    assert await store.load(f'key{n}') == ('good value',)
                except ArtifactDoesNotExist:
                    lost += 1
        if lost:
            break
    print(f'(b) expected: every key whose save() returned normally ({total_b}) can be loaded')
    print(f'(b) got     : {lost} acknowledged keys are gone - load raises ArtifactDoesNotExist (file removed by the '
          f'clean-up of the failing concurrent save)')

    for _ in range(CAMPAIGNS):
        _, outcome = campaign({0: 'x', 1: 'y'}, fresh_dir_per_key=True)
        mkdir += sum(1 for i in (0, 1) for o in outcome[i] if o == 'FileExistsError')
        total_c += N
        if mkdir:
            break
    print(f'(c) expected: the first save of two contexts in a fresh directory ({total_c} tries) raises nothing but '
          f'ArtifactAlreadyExists')
    print(f'(c) got     : {mkdir} saves raised FileExistsError from _ensure_dir (mkdir without exist_ok)')

    bad = bool(both or lost or mkdir)
    print('DEFECT' if bad else 'not reproduced in this run')
    return 1 if bad else 0


sys.exit(asyncio.run(main()))
