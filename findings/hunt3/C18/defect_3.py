"""Defect 3: save() writes the artifact in place, so a key is visible (as "saved") before its value is.

The file '<id>.<fmt>' is created by `path.open('wb')` and filled afterwards by the serializer.  Existence of the file IS
the "saved" state of the key (_get_glob), hence between open() and the end of dump() the key is in a third state
that the interface does not have:

 (a) deterministic, two contexts sharing the directory (a thread per context, each with its own event loop):
     while context A is inside save('k', value) context B calls load('k').
     Expected: ArtifactDoesNotExist (not saved yet) or the value.  Got: EOFError / UnpicklingError / JSONDecodeError.
 (b) sequential: the saving process dies inside save() (kill -9, OOM, power loss; simulated with os._exit in a
     child process).  The `except BaseException: unlink` clean-up cannot run.  Afterwards, in a new process,
     the key can neither be loaded (EOFError) nor saved (ArtifactAlreadyExists): "a failed save does not make the key
     appear saved" is violated for ever.
"""
import sys, os; sys.path.insert(0, os.getcwd())
import asyncio, subprocess, tempfile, textwrap, threading, warnings
warnings.simplefilter('ignore')
from ml_pipeline_engine.artifact_store.enums import DataFormat
from ml_pipeline_engine.artifact_store.errors import ArtifactAlreadyExists, ArtifactDoesNotExist
from ml_pipeline_engine.artifact_store.store.filesystem import FileSystemArtifactStore


class Ctx:
    model_name = 'model'
    pipeline_id = 'pipeline'


inside_dump = threading.Event()
may_finish = threading.Event()


class Slow:
    """A perfectly picklable value whose pickling takes a while (stands for a big model / data frame)."""

    def __init__(self, payload):
        self.payload = payload

    def __eq__(self, other):
        return isinstance(other, Slow) and other.payload == self.payload

    def __getstate__(self):
        inside_dump.set()
        may_finish.wait(30)
        return self.__dict__


def concurrent_reader() -> bool:
    directory = tempfile.mkdtemp()
    writer_store = FileSystemArtifactStore(Ctx(), directory)
    reader_store = FileSystemArtifactStore(Ctx(), directory)
    value = Slow(list(range(10)))

    writer = threading.Thread(target=lambda: asyncio.run(writer_store.save('k', value)), daemon=True)
    writer.start()
    assert inside_dump.wait(30)

    print('(a) context A is inside save("k", value); context B calls load("k")')
    print('(a) expected: ArtifactDoesNotExist (not saved yet) - or the value')
    try:
        got = asyncio.run(reader_store.load('k'))
        outcome, bad = repr(got), got != value
    except ArtifactDoesNotExist as ex:
        outcome, bad = f'{type(ex).__name__}', False
    except Exception as ex:  # noqa: BLE001
        outcome, bad = f'{type(ex).__name__}: {ex}', True
    print(f'(a) got     : {outcome}')

    may_finish.set()
    writer.join()
    assert asyncio.run(reader_store.load('k')) == value
    return bad


CHILD = textwrap.dedent('''
    import sys, os, asyncio, warnings; sys.path.insert(0, os.getcwd())
    warnings.simplefilter('ignore')
    from ml_pipeline_engine.artifact_store.enums import DataFormat
    from ml_pipeline_engine.artifact_store.store.filesystem import FileSystemArtifactStore
    class Ctx:
        model_name = 'model'
        pipeline_id = 'pipeline'
    class Dies:
        def __getstate__(self):
            os._exit(9)          # the process is killed while the artifact is being written
    class DiesJson(dict):
        def items(self):
            yield 'a', 1
            os._exit(9)
    fmt = DataFormat(sys.argv[2])
    value = Dies() if fmt == DataFormat.PICKLE else {'first': [1, 2, 3], 'second': DiesJson(a=1)}
    asyncio.run(FileSystemArtifactStore(Ctx(), sys.argv[1]).save('k', value, fmt))
''')


def crashed_writer(fmt: DataFormat) -> bool:
    directory = tempfile.mkdtemp()
    code = subprocess.run([sys.executable, '-c', CHILD, directory, fmt.value]).returncode
    assert code == 9, code
    store = FileSystemArtifactStore(Ctx(), directory)

    print(f'(b/{fmt.value}) the process that called save("k", ...) died inside save(); a new process looks at the key')
    print(f'(b/{fmt.value}) expected: load -> ArtifactDoesNotExist and a new save succeeds (the save never completed)')
    try:
        outcome_load, bad_load = repr(asyncio.run(store.load('k'))), True
    except ArtifactDoesNotExist as ex:
        outcome_load, bad_load = type(ex).__name__, False
    except Exception as ex:  # noqa: BLE001
        outcome_load, bad_load = f'{type(ex).__name__}: {ex}', True
    try:
        asyncio.run(store.save('k', {'v': 1}, fmt))
        outcome_save, bad_save = 'saved', False
    except ArtifactAlreadyExists as ex:
        outcome_save, bad_save = f'{type(ex).__name__}: {ex}', True
    print(f'(b/{fmt.value}) got     : load -> {outcome_load}')
    print(f'(b/{fmt.value})           save -> {outcome_save}')
    return bad_load or bad_save


bad = concurrent_reader()
for fmt in DataFormat:
    bad |= crashed_writer(fmt)
print('DEFECT' if bad else 'ok')
sys.exit(1 if bad else 0)
