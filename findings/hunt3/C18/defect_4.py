"""Defect 4 (configuration dependent, lower severity): the map semantics depend on the interpreter's warning filter.

Every save() / load() goes through the `dont_use_for_prod` decorator, which calls warnings.warn(...) BEFORE the
operation.  In a process whose warning filter turns warnings into errors (python -W error, PYTHONWARNINGS=error,
pytest `filterwarnings = error` - all legal and common in CI), the nag is raised as an exception:

  * load of a key never saved raises UserWarning instead of ArtifactDoesNotExist,
  * save raises UserWarning and stores nothing, a key saved earlier cannot be loaded,
  * a second save under an existing key raises UserWarning instead of ArtifactAlreadyExists.
"""
import sys, os; sys.path.insert(0, os.getcwd())
import asyncio, tempfile, warnings
from ml_pipeline_engine.artifact_store.errors import ArtifactAlreadyExists, ArtifactDoesNotExist
from ml_pipeline_engine.artifact_store.store.filesystem import FileSystemArtifactStore


class Ctx:
    model_name = 'model'
    pipeline_id = 'pipeline'


async def attempt(coro):
    try:
        return 'returned ' + repr(await coro)
    except Exception as ex:  # noqa: BLE001
        return f'{type(ex).__name__}'


async def main() -> int:
    store = FileSystemArtifactStore(Ctx(), tempfile.mkdtemp())

    with warnings.catch_warnings():
        warnings.simplefilter('ignore')
        await store.save('saved-before', 1)

    warnings.simplefilter('error')  # what `python -W error` / pytest -W error do
    results = [
        ('load of a key never saved', 'ArtifactFileDoesNotExist', await attempt(store.load('never-saved'))),
        ('load of a saved key', 'returned 1', await attempt(store.load('saved-before'))),
        ('second save under a saved key', 'ArtifactFileAlreadyExists', await attempt(store.save('saved-before', 2))),
        ('save of a new key', 'returned None', await attempt(store.save('new', 3))),
    ]
    bad = 0
    for what, expected, got in results:
        print(f'{what:32s} expected: {expected:28s} got: {got}')
        bad += expected != got
    print('DEFECT' if bad else 'ok')
    return 1 if bad else 0


sys.exit(asyncio.run(main()))
