"""
Defect 4: a SwitchCase that maps two labels to the same node keeps only the last of the two labels.  The run
fails with SwitchCaseDoesNotHaveBranchError for a label that IS declared.

Run from /tmp/hunt_C05:  /venv/bin/python _hunt/defect_4.py
"""
import os, sys
sys.path.insert(0, os.getcwd())

import asyncio
import logging

logging.disable(logging.CRITICAL)

from ml_pipeline_engine.chart import PipelineChart
from ml_pipeline_engine.dag_builders.annotation import build_dag
from ml_pipeline_engine.dag_builders.annotation.marks import Input
from ml_pipeline_engine.dag_builders.annotation.marks import SwitchCase
from ml_pipeline_engine.node import ProcessorBase


class Inp(ProcessorBase):
    name = 'inp'

    async def process(self, country: str) -> str:
        return country


class Country(ProcessorBase):
    name = 'country'

    async def process(self, c: Input(Inp)) -> str:
        return c


class ModelCIS(ProcessorBase):
    name = 'model_cis'

    async def process(self, c: Input(Inp)) -> str:
        return 'cis-score'


class ModelEU(ProcessorBase):
    name = 'model_eu'

    async def process(self, c: Input(Inp)) -> str:
        return 'eu-score'


class Out(ProcessorBase):
    name = 'out'

    async def process(
        self,
        score: SwitchCase(
            name='by_country',
            switch=Country,
            cases=[('ru', ModelCIS), ('kz', ModelCIS), ('de', ModelEU)],
        ),
    ) -> str:
        return score


async def main() -> int:
    chart = PipelineChart('m', build_dag(Inp, Out))
    bad = 0
    for country, expected in (('kz', 'cis-score'), ('de', 'eu-score'), ('ru', 'cis-score')):
        try:
            res = await asyncio.wait_for(chart.run(input_kwargs={'country': country}), 3)
        except asyncio.TimeoutError:
            print(f'{country}: expected value {expected!r}; observed: hang')
            bad += 1
            continue
        print(f'{country}: expected value {expected!r}, error None; observed value={res.value!r} error={res.error!r}')
        if res.error is not None or res.value != expected:
            bad += 1
    if bad:
        print('DEFECT: the label "ru" is declared, no node failed, yet the run reports that the switch has no branch')
        return 1
    print('ok')
    return 0


if __name__ == '__main__':
    sys.exit(asyncio.run(main()))
