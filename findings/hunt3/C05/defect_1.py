"""
Defect 1: a required node fails with an exception object that is falsy (an Exception subclass defining
__len__ / __bool__, e.g. an error that carries a - possibly empty - list of details).  The run never ends.

Run from /tmp/hunt_C05:  /venv/bin/python _hunt/defect_1.py
"""
import os, sys
sys.path.insert(0, os.getcwd())

import asyncio
import logging

logging.disable(logging.CRITICAL)

from ml_pipeline_engine.chart import PipelineChart
from ml_pipeline_engine.dag_builders.annotation import build_dag
from ml_pipeline_engine.dag_builders.annotation.marks import Input
from ml_pipeline_engine.node import ProcessorBase


class ValidationFailed(Exception):
    """An ordinary 'collection of problems' error: len(err) is the number of collected details."""

    def __init__(self, message, details=()):
        super().__init__(message)
        self.details = list(details)

    def __len__(self):
        return len(self.details)


class Inp(ProcessorBase):
    name = 'inp'

    async def process(self, x: int) -> int:
        return x


class Validate(ProcessorBase):
    name = 'validate'

    async def process(self, x: Input(Inp)) -> int:
        raise ValidationFailed('payload rejected')     # no details -> bool(err) is False


class Out(ProcessorBase):
    name = 'out'

    async def process(self, v: Input(Validate)) -> int:
        return v


async def main() -> int:
    chart = PipelineChart('m', build_dag(Inp, Out))
    print('expected: PipelineResult(value=None, error=ValidationFailed("payload rejected")) right away')
    try:
        res = await asyncio.wait_for(chart.run(input_kwargs={'x': 1}), 3)
    except asyncio.TimeoutError:
        print('observed: chart.run() did not return within 3 seconds (hang) -> DEFECT')
        return 1

    print('observed:', res)
    if isinstance(res.error, ValidationFailed) and res.value is None:
        print('ok')
        return 0
    print('DEFECT (wrong outcome)')
    return 1


if __name__ == '__main__':
    sys.exit(asyncio.run(main()))
