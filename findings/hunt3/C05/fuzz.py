import os, sys; sys.path.insert(0, os.getcwd())
import asyncio, logging, random, time, itertools
logging.disable(logging.CRITICAL)
from ml_pipeline_engine.chart import PipelineChart
from ml_pipeline_engine.dag_builders.annotation import build_dag
from ml_pipeline_engine.dag_builders.annotation.marks import Input, InputOneOf, SwitchCase
from ml_pipeline_engine.dag.errors import OneOfDoesNotHaveResultError, SwitchCaseDoesNotHaveBranchError
from ml_pipeline_engine.node import ProcessorBase
from ml_pipeline_engine.node.enums import NodeTag
from ml_pipeline_engine.parallelism import threads_pool_registry
threads_pool_registry.auto_init()

ATT = {}
DEPTH=int(os.environ.get('DEPTH','3'))   # per-run attempt counters

class Spec:
    def __init__(s, name):
        s.name=name; s.params=[]; s.behavior='ok'; s.delay=0; s.mode='async'; s.label=None; s.cls=None; s.in_cand=False

def mk_class(spec):
    ann = {}
    for i,(kind,data) in enumerate(spec.params):
        if kind=='in': ann[f'p{i}']=Input(data.cls)
        elif kind=='oneof': ann[f'p{i}']=InputOneOf([c.cls for c in data])
        elif kind=='switch':
            dec,cases,swname=data
            ann[f'p{i}']=SwitchCase(name=swname, switch=dec.cls, cases=[(l,c.cls) for l,c in cases])
    if spec.name=='inp': ann={'x': int}
    def body(kwargs):
        ATT[spec.name]=ATT.get(spec.name,0)+1
        vals=tuple(kwargs[k] for k in sorted(kwargs))
        b=spec.behavior
        if b in('fail','default'): raise ValueError(spec.name)
        if b=='retry' and ATT[spec.name]<2: raise ValueError(spec.name)
        if b=='none': return None
        if b=='label': return spec.label
        return (spec.name, vals)
    if spec.mode=='async':
        async def process(self, **kwargs):
            if spec.delay: await asyncio.sleep(spec.delay*0.002)
            return body(kwargs)
    else:
        def process(self, **kwargs):
            if spec.delay: time.sleep(spec.delay*0.002)
            return body(kwargs)
    process.__annotations__=dict(ann)
    attrs={'name':spec.name,'process':process}
    if spec.mode=='sync': attrs['tags']=(NodeTag.non_async,)
    if spec.behavior=='default':
        attrs['use_default']=True
        attrs['get_default']=lambda self, **kw: ('default',spec.name)
    if spec.behavior=='retry':
        attrs['attempts']=2
    spec.cls=type('N_'+spec.name,(ProcessorBase,),attrs)

class Gen:
    def __init__(s, rnd):
        s.rnd=rnd; s.cnt=itertools.count(); s.specs=[]
        s.inp=Spec('inp'); s.specs.append(s.inp)
    def new(s):
        sp=Spec(f'n{next(s.cnt)}'); return sp
    def gen(s, scope, depth, in_cand, allow_fail, fresh=False):
        r=s.rnd
        # reuse
        if not fresh and scope and r.random()<0.25: return r.choice(scope)
        if not fresh and (depth<=0 or r.random()<0.2):
            if r.random()<0.5: return s.inp
        sp=s.new(); sp.in_cand=in_cand
        nparams=r.choice([1,1,2,2,3]) if depth>0 else 1
        for _ in range(nparams):
            k=r.random()
            if depth<=0 or k<0.5:
                sp.params.append(('in', s.gen(scope, depth-1, in_cand, allow_fail)))
            elif k<0.75:
                cands=[]
                for _ in range(r.choice([1,2,2,3])):
                    cscope=[]
                    # inside candidate scopes nested constructs may not contain failures (known defects)
                    cands.append(s.gen(cscope, depth-1, True, allow_fail and not in_cand))
                # candidates must be fresh nodes (not input, not shared)
                cands=[c for c in cands if c is not s.inp]
                if len(set(cands))!=len(cands) or not cands:
                    sp.params.append(('in', s.inp)); continue
                sp.params.append(('oneof', cands))
            else:
                dec=s.gen(scope, depth-1, in_cand, allow_fail)
                ncase=r.choice([1,2,3])
                cases=[]
                for ci in range(ncase):
                    c=s.gen([] if in_cand else list(scope), depth-1, in_cand, allow_fail and not in_cand, fresh=True)
                    cases.append((f'L{ci}', c))
                if len({c for _,c in cases})!=len(cases) or dec is s.inp or dec.behavior!='ok' and dec.behavior!='label' or any(c is dec for _,c in cases):
                    sp.params.append(('in', s.inp)); continue
                if dec.label is None:
                    dec_lab = r.choice([l for l,_ in cases] + (['MISSING'] if allow_fail and not in_cand and r.random()<0.3 else []))
                    # decider must be a dedicated node
                    if dec in scope and dec.behavior!='ok':
                        sp.params.append(('in', s.inp)); continue
                    dec.behavior='label'; dec.label=dec_lab
                if dec.label not in [l for l,_ in cases] and dec.label!='MISSING':
                    sp.params.append(('in', s.inp)); continue
                sp.params.append(('switch',(dec,cases,f'sw{next(s.cnt)}')))
        # dedupe: two params from same source known defect -> drop duplicates
        seen=set(); ps=[]
        for kind,data in sp.params:
            if kind=='in':
                if data in seen: continue
                seen.add(data)
            ps.append((kind,data))
        sp.params=ps
        if sp.behavior=='ok':
            k=r.random()
            if allow_fail and k<0.2: sp.behavior='fail'
            elif k<0.28: sp.behavior='default'
            elif k<0.36: sp.behavior='retry'
            elif k<0.42: sp.behavior='none'
        sp.delay=r.choice([0,0,1,2,3,5])
        sp.mode=r.choice(['async','async','thread','sync'])
        scope.append(sp); s.specs.append(sp)
        return sp

def ref_eval(out):
    memo={}
    def ev(sp):
        if sp in memo: return memo[sp]
        if sp.name=='inp':
            memo[sp]=('ok',('inp',(1,))); return memo[sp]
        errs=set(); vals=[]
        for i,(kind,data) in enumerate(sp.params):
            if kind=='in': r=ev(data)
            elif kind=='oneof':
                r=('err',{'ONEOF'})
                for c in data:
                    rc=ev(c)
                    if rc[0]=='ok': r=rc; break
            else:
                dec,cases,_=data
                rd=ev(dec)
                if rd[0]=='err': r=rd
                else:
                    d=dict(cases)
                    if rd[1] not in d: r=('err',{'NOBRANCH'})
                    else: r=ev(d[rd[1]])
            if r[0]=='err': errs|=r[1]
            else: vals.append((f'p{i}',r[1]))
        if errs: res=('err',errs)
        else:
            b=sp.behavior
            v=tuple(v for _,v in sorted(vals))
            if b=='fail': res=('err',{sp.name})
            elif b=='default': res=('ok',('default',sp.name))
            elif b=='none': res=('ok',None)
            elif b=='label': res=('ok',sp.label)
            else: res=('ok',(sp.name,v))
        memo[sp]=res; return res
    return ev(out)

def describe(specs):
    lines=[]
    for sp in specs:
        if sp.cls is None: continue
        ps=[]
        for kind,data in sp.params:
            if kind=='in': ps.append(f'In({data.name})')
            elif kind=='oneof': ps.append('OneOf('+','.join(c.name for c in data)+')')
            else: ps.append(f'Switch[{data[2]}]({data[0].name}:'+','.join(f'{l}->{c.name}' for l,c in data[1])+')')
        lines.append(f'  {sp.name} [{sp.behavior}{"="+str(sp.label) if sp.label else ""} d={sp.delay} {sp.mode}] <- '+', '.join(ps))
    return '\n'.join(lines)

async def one(seed):
    rnd=random.Random(seed)
    g=Gen(rnd)
    out=g.gen([], DEPTH, False, True)
    if out is g.inp: return None
    # reachable specs only
    mk_class_safe(g.inp); mk_class_safe(out)
    exp=ref_eval(out)
    ATT.clear()
    try:
        dag=build_dag(g.inp.cls, out.cls)
    except Exception as e:
        return ('BUILD', repr(e), g)
    chart=PipelineChart('m', dag)
    try:
        res=await asyncio.wait_for(chart.run(input_kwargs={'x':1}), 5)
    except asyncio.TimeoutError:
        return ('HANG', exp, g)
    except BaseException as e:
        return ('RAISED', repr(e), g)
    if exp[0]=='ok':
        if res.error is not None or res.value!=exp[1]:
            return ('MISMATCH-ok'+d3tag(res,g), (exp, res), g)
    else:
        e=res.error
        ok = e is not None and res.value is None and (
            (isinstance(e,ValueError) and e.args and e.args[0] in exp[1]) or
            (isinstance(e,OneOfDoesNotHaveResultError) and 'ONEOF' in exp[1]) or
            (isinstance(e,SwitchCaseDoesNotHaveBranchError) and 'NOBRANCH' in exp[1]))
        if not ok: return ('MISMATCH-err'+d3tag(res,g), (exp,res), g)
    return None

def d3tag(res,g):
    e=res.error
    if isinstance(e,ValueError) and e.args and any(sp.name==e.args[0] and sp.in_cand for sp in g.specs): return '[D3?]'
    return ''

def mk_class_safe(sp):
    if sp.cls is None:
        if sp.name=='inp':
            async def process(self, x: int): return ('inp',(x,))
            sp.cls=type('N_inp',(ProcessorBase,),{'name':'inp','process':process})
        else:
            for kind,data in sp.params:
                if kind=='in': mk_class_safe(data)
                elif kind=='oneof':
                    for c in data: mk_class_safe(c)
                else:
                    mk_class_safe(data[0])
                    for _,c in data[1]: mk_class_safe(c)
            mk_class(sp)

if __name__=='__main__':
    a=int(sys.argv[1]); b=int(sys.argv[2])
    for seed in range(a,b):
        r=asyncio.run(one(seed))
        if r:
            print('SEED',seed,r[0],r[1]); print(describe(r[2].specs)); print()
