"""
Defect 3: the candidates of a one-of stay visible as ordinary nodes for every sub-dag that is built after the
one-of has been started.  When the first candidate was abandoned because a node two or more hops above it failed
(source -> parse -> primary), the nodes of its sub-pipeline that were never launched (parse, primary) are launched
later by a main-scope sub-dag (here: the sub-dag of a switch whose selected case depends on the one-of consumer).
'parse' is executed with the stored exception object of 'source' as its argument, and its failure is reported as
the failure of the run although the one-of has been resolved by the fallback candidate long ago.

Run from /tmp/hunt_C05:  /venv/bin/python _hunt/defect_3.py
"""
import os, sys
sys.path.insert(0, os.getcwd())

import asyncio
import logging

logging.disable(logging.CRITICAL)

from ml_pipeline_engine.chart import PipelineChart
from ml_pipeline_engine.dag_builders.annotation import build_dag
from ml_pipeline_engine.dag_builders.annotation.marks import Input
from ml_pipeline_engine.dag_builders.annotation.marks import InputOneOf
from ml_pipeline_engine.dag_builders.annotation.marks import SwitchCase
from ml_pipeline_engine.node import ProcessorBase

RAN = []


class Inp(ProcessorBase):
    name = 'inp'

    async def process(self, x: int) -> int:
        return x


class Source(ProcessorBase):
    name = 'source'

    async def process(self, x: Input(Inp)) -> int:
        RAN.append('source')
        raise ConnectionError('source is down')


class Parse(ProcessorBase):
    name = 'parse'

    async def process(self, s: Input(Source)) -> int:
        RAN.append(f'parse(s={s!r})')
        return s + 1


class Primary(ProcessorBase):          # candidate 1: source -> parse -> primary
    name = 'primary'

    async def process(self, p: Input(Parse)) -> int:
        RAN.append('primary')
        return p * 2


class Fallback(ProcessorBase):         # candidate 2
    name = 'fallback'

    async def process(self, x: Input(Inp)) -> int:
        RAN.append('fallback')
        return -1


class Feature(ProcessorBase):
    name = 'feature'

    async def process(self, v: InputOneOf([Primary, Fallback])) -> int:
        RAN.append(f'feature(v={v})')
        return v


class Decider(ProcessorBase):
    name = 'decider'

    # The decision depends on the feature, so the sub-dag of the selected case is always built after the one-of
    # has been resolved: no timing is involved.
    async def process(self, f: Input(Feature)) -> str:
        return 'a' if f < 0 else 'b'


class CaseA(ProcessorBase):
    name = 'case_a'

    async def process(self, f: Input(Feature)) -> int:
        return f * 10


class CaseB(ProcessorBase):
    name = 'case_b'

    async def process(self, x: Input(Inp)) -> int:
        return 0


class Out(ProcessorBase):
    name = 'out'

    async def process(
        self,
        f: Input(Feature),
        c: SwitchCase(name='sw', switch=Decider, cases=[('a', CaseA), ('b', CaseB)]),
    ) -> int:
        return f + c


async def main() -> int:
    chart = PipelineChart('m', build_dag(Inp, Out))
    print('expected: source fails -> candidate primary is abandoned -> fallback=-1 -> feature=-1, case_a=-10, '
          'out=-11, error None; parse and primary are never executed')
    try:
        res = await asyncio.wait_for(chart.run(input_kwargs={'x': 1}), 3)
    except asyncio.TimeoutError:
        print('observed: hang; executed:', RAN)
        return 1

    print('observed:', res)
    print('executed bodies:', RAN)
    if res.error is None and res.value == -11 and not any(r.startswith('parse') for r in RAN):
        print('ok')
        return 0
    print('DEFECT: a node of the abandoned candidate was executed (with an exception object as its input) and its '
          'error is reported as the outcome of a run whose output is computable')
    return 1


if __name__ == '__main__':
    sys.exit(asyncio.run(main()))
