"""
Extra observation E1 (weaker: needs a node that asks for a re-iteration in a DAG that declares no recurrent
subgraph for it, e.g. a RecurrentProcessor re-used through a plain Input in a second pipeline).
The helper task 'rec-<node>' dies with an internal networkx.NodeNotFound('source node None not in graph'),
nobody observes it, and the run hangs instead of reporting any error.

Run from /tmp/hunt_C05:  /venv/bin/python _hunt/extra_1.py
"""
import os, sys
sys.path.insert(0, os.getcwd())

import asyncio
import logging

logging.disable(logging.CRITICAL)

from ml_pipeline_engine.chart import PipelineChart
from ml_pipeline_engine.dag_builders.annotation import build_dag
from ml_pipeline_engine.dag_builders.annotation.marks import Input
from ml_pipeline_engine.node import ProcessorBase
from ml_pipeline_engine.node import RecurrentProcessor


class Inp(ProcessorBase):
    name = 'inp'

    async def process(self, x: int, additional_data: int = None) -> int:
        return x if additional_data is None else additional_data


class Check(RecurrentProcessor):
    name = 'check'

    async def process(self, x: Input(Inp)) -> int:
        if x < 10:
            return self.next_iteration(10)
        return x


class Out(ProcessorBase):
    name = 'out'

    # plain Input instead of RecurrentSubGraph(start_node=Inp, dest_node=Check, max_iterations=3)
    async def process(self, v: Input(Check)) -> int:
        return v


async def main() -> int:
    chart = PipelineChart('m', build_dag(Inp, Out))
    print('expected: some PipelineResult (an error that tells that no recurrent subgraph is declared)')
    try:
        res = await asyncio.wait_for(chart.run(input_kwargs={'x': 1}), 3)
    except asyncio.TimeoutError:
        print('observed: chart.run() did not return within 3 seconds (hang) -> DEFECT')
        return 1
    print('observed:', res)
    return 0


if __name__ == '__main__':
    sys.exit(asyncio.run(main()))
