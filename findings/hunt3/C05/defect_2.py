"""
Defect 2: two nodes built with build_node() from the same generic class (the documented way to re-use a
generic node, docs/usage_examples.md) get the same class name 'Generic<Base>' in the module
ml_pipeline_engine.node.node.  When they are process-pool nodes, the one built first can no longer be pickled
("it's not the same object as ml_pipeline_engine.node.node.GenericScale"): the run reports a PicklingError of the
engine although no node failed (with use_default=True the default would be delivered silently).

Run from /tmp/hunt_C05:  /venv/bin/python _hunt/defect_2.py
"""
import os, sys
sys.path.insert(0, os.getcwd())

import asyncio
import logging

logging.disable(logging.CRITICAL)

from ml_pipeline_engine.chart import PipelineChart
from ml_pipeline_engine.dag_builders.annotation import build_dag
from ml_pipeline_engine.dag_builders.annotation.marks import Input
from ml_pipeline_engine.dag_builders.annotation.marks import InputGeneric
from ml_pipeline_engine.node import ProcessorBase
from ml_pipeline_engine.node import build_node
from ml_pipeline_engine.node.enums import NodeTag
from ml_pipeline_engine.parallelism import process_pool_registry
from ml_pipeline_engine.parallelism import threads_pool_registry


class Inp(ProcessorBase):
    name = 'inp'

    async def process(self, x: int) -> int:
        return x


class Other(ProcessorBase):
    name = 'other'

    async def process(self, x: Input(Inp)) -> int:
        return x + 100


class Scale(ProcessorBase):
    """generic CPU-bound node"""
    name = 'scale'
    tags = (NodeTag.process,)

    def process(self, x: InputGeneric(ProcessorBase)) -> int:
        return x * 2


ScaleInp = build_node(Scale, node_name='scale_inp', x=Input(Inp))
ScaleOther = build_node(Scale, node_name='scale_other', x=Input(Other))


class Out(ProcessorBase):
    name = 'out'

    async def process(self, a: Input(ScaleInp), b: Input(ScaleOther)) -> int:
        return a + b


async def main() -> int:
    chart = PipelineChart('m', build_dag(Inp, Out))
    print('expected: value = 1*2 + 101*2 = 204, error None')
    try:
        res = await asyncio.wait_for(chart.run(input_kwargs={'x': 1}), 30)
    except asyncio.TimeoutError:
        print('observed: hang -> DEFECT')
        return 1
    print('observed:', res)
    if res.error is None and res.value == 204:
        print('ok')
        return 0
    print('DEFECT: no node failed, the reported error is an artefact of the engine '
          '(class name collision in ml_pipeline_engine.node.node)')
    return 1


if __name__ == '__main__':
    threads_pool_registry.auto_init()
    process_pool_registry.auto_init()
    try:
        code = asyncio.run(main())
    finally:
        # leave no worker / manager process behind
        process_pool_registry.shutdown()
        threads_pool_registry.shutdown()
    sys.exit(code)
