import asyncio, sys, logging, random, time, itertools, json
sys.path.insert(0, '.')
logging.disable(logging.CRITICAL)
from ml_pipeline_engine.chart import PipelineChart
from ml_pipeline_engine.dag_builders.annotation import build_dag
from ml_pipeline_engine.dag_builders.annotation.marks import Input, InputOneOf, SwitchCase
from ml_pipeline_engine.node import ProcessorBase
from ml_pipeline_engine.node.enums import NodeTag
from ml_pipeline_engine.parallelism import threads_pool_registry

MODES = ['a0', 'as', 'inline', 'thread']

class Spec:
    def __init__(self, name):
        self.name = name
        self.params = []   # (pname, kind, payload)
        self.fail = False
        self.use_default = False
        self.label = None  # constant label output
        self.delay = 0.0

def gen(rng, max_nodes, share_p):
    specs = {}
    counter = itertools.count()
    stack = []
    def new(depth, label=None):
        s = Spec(f'n{next(counter)}')
        specs[s.name] = s
        stack.append(s.name)
        try:
            return _fill(s, depth, label)
        finally:
            stack.pop()
    def _fill(s, depth, label):
        s.label = label
        s.fail = rng.random() < 0.25
        s.use_default = s.fail and rng.random() < 0.3
        s.delay = rng.choice([0, 0.002, 0.005, 0.01, 0.02])
        if depth >= 3 or len(specs) >= max_nodes or rng.random() < 0.3:
            return s
        used = set()
        def pick(d):
            if share_p and rng.random() < share_p:
                cands = [n for n in specs if n not in stack and n not in used and not any(reach(n, a) for a in stack)]
                if cands:
                    c = rng.choice(cands); used.add(c); return specs[c]
            c = new(d); used.add(c.name); return c
        for pi in range(rng.randint(1, 3)):
            if len(specs) >= max_nodes: break
            k = rng.random()
            if k < 0.45:
                s.params.append((f'p{pi}', 'in', pick(depth+1).name))
            elif k < 0.8:
                s.params.append((f'p{pi}', 'oneof', [pick(depth+1).name for _ in range(rng.randint(1, 3))]))
            else:
                ncases = rng.randint(1, 3)
                labels = [f'c{i}' for i in range(ncases)]
                chosen = rng.choice(labels + (['zz'] if rng.random() < 0.1 else []))
                sw = new(depth+1, label=chosen); used.add(sw.name)
                cases = [(l, pick(depth+1).name) for l in labels]
                s.params.append((f'p{pi}', 'switch', (sw.name, cases)))
        return s
    def reach(a, b):
        # does a depend on b?
        stack=[a]; seen=set()
        while stack:
            x=stack.pop()
            if x==b: return True
            if x in seen: continue
            seen.add(x)
            for _,k,p in specs[x].params:
                if k=='in': stack.append(p)
                elif k=='oneof': stack.extend(p)
                else: stack.append(p[0]); stack.extend(c for _,c in p[1])
        return False
    root = new(0)
    root.fail = False
    return specs, root.name

def oracle(specs, root):
    memo = {}
    def ev(n):
        if n in memo: return memo[n]
        s = specs[n]
        kw = {}
        res = None
        for pn, k, p in s.params:
            if k == 'in':
                r = ev(p)
            elif k == 'oneof':
                r = ('err', 'oneof')
                for c in p:
                    rc = ev(c)
                    if rc[0] == 'ok': r = rc; break
            else:
                sw, cases = p
                r = ev(sw)
                if r[0] == 'ok':
                    d = dict(cases)
                    r = ev(d[r[1]]) if r[1] in d else ('err', 'nobranch')
            if r[0] == 'err':
                res = ('err', r[1]); break
            kw[pn] = r[1]
        if res is None:
            if s.fail:
                res = ('ok', f'D:{n}') if s.use_default else ('err', n)
            elif s.label is not None:
                res = ('ok', s.label)
            else:
                res = ('ok', f"{n}({','.join(f'{k}={kw[k]}' for k in sorted(kw))})")
        memo[n] = res
        return res
    return ev(root)

def build(specs, root, modes, tag):
    classes = {}
    class Inp(ProcessorBase):
        name = f'{tag}_inp'
        async def process(self, x: int) -> int:
            return x
    def mk(n):
        if n in classes: return classes[n]
        s = specs[n]
        ann = {}
        for pn, k, p in s.params:
            if k == 'in': ann[pn] = Input(mk(p))
            elif k == 'oneof': ann[pn] = InputOneOf([mk(c) for c in p])
            else:
                sw, cases = p
                ann[pn] = SwitchCase(name=f'{tag}_sw_{n}_{pn}', switch=mk(sw), cases=[(l, mk(c)) for l, c in cases])
        mode = modes[n]
        def compute(kw):
            if s.fail: raise ValueError(n)
            if s.label is not None: return s.label
            return f"{n}({','.join(f'{k}={kw[k]}' for k in sorted(kw))})"
        if mode == 'a0':
            async def process(self, **kw): return compute(kw)
        elif mode == 'as':
            async def process(self, **kw):
                await asyncio.sleep(s.delay); return compute(kw)
        else:
            def process(self, **kw):
                if mode == 'thread': time.sleep(s.delay)
                return compute(kw)
        process.__annotations__ = ann
        attrs = dict(name=f'{tag}_{n}', process=process, use_default=s.use_default,
                     get_default=lambda self, **kw: f'D:{n}',
                     tags=(NodeTag.non_async,) if mode == 'inline' else ())
        cls = type(f'C_{tag}_{n}', (ProcessorBase,), attrs)
        classes[n] = cls
        return cls
    out = mk(root)
    return PipelineChart('m', build_dag(Inp, out))

async def run_one(specs, root, modes, tag):
    chart = build(specs, root, modes, tag)
    try:
        r = await asyncio.wait_for(chart.run(input_kwargs=dict(x=1)), 1.5)
    except asyncio.TimeoutError:
        return ('hang',)
    except BaseException as e:
        return ('raised', type(e).__name__)
    if r.error is not None:
        return ('err', type(r.error).__name__)
    return ('ok', r.value)

def dump(specs, root):
    return {n: dict(params=s.params, fail=s.fail, dflt=s.use_default, label=s.label, delay=s.delay) for n, s in specs.items()}

async def main():
    seed0 = int(sys.argv[1]); count = int(sys.argv[2]); share = float(sys.argv[3])
    threads_pool_registry.auto_init()
    for seed in range(seed0, seed0 + count):
        rng = random.Random(seed)
        try:
            specs, root = gen(rng, 12, share)
        except RecursionError:
            continue
        exp = oracle(specs, root)
        results = {}
        assigns = [{n: m for n in specs} for m in MODES] + [{n: rng.choice(MODES) for n in specs} for _ in range(3)]
        for i, modes in enumerate(assigns):
            try:
                results[i] = await run_one(specs, root, modes, f's{seed}_{i}')
            except Exception as e:
                results[i] = ('builderr', type(e).__name__, str(e)[:80])
        norm = lambda r: ('err',) if r[0] == 'err' else r
        outs = {norm(r) for r in results.values()}
        expn = ('err',) if exp[0] == 'err' else exp
        if len(outs) > 1:
            print('MODEDEP', seed, 'expected', expn, 'got', results)
        elif outs != {expn}:
            print('DETERM', seed, 'expected', expn, 'got', next(iter(outs)))
    print('done')

asyncio.run(main())
