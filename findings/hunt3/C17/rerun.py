import sys, random, asyncio
src = open('_hunt/fuzz.py').read().replace("asyncio.run(main())", "")
ns = {}
exec(compile(src, 'fuzz', 'exec'), ns)
seed = int(sys.argv[1]); share = float(sys.argv[2]); which = int(sys.argv[3]); reps = int(sys.argv[4]) if len(sys.argv) > 4 else 1
rng = random.Random(seed)
specs, root = ns['gen'](rng, 12, share)
for n, d in ns['dump'](specs, root).items(): print(n, d)
print('oracle', ns['oracle'](specs, root))
MODES = ns['MODES']
assigns = [{n: m for n in specs} for m in MODES] + [{n: rng.choice(MODES) for n in specs} for _ in range(3)]
print(assigns[which])
async def main():
    ns['threads_pool_registry'].auto_init()
    for i in range(reps):
        print(await ns['run_one'](specs, root, assigns[which], f'r{i}'))
asyncio.run(main())
