import sys, random, asyncio, copy
src = open('_hunt/fuzz.py').read().replace("asyncio.run(main())", "")
ns = {}
exec(compile(src, 'fuzz', 'exec'), ns)
seed = int(sys.argv[1]); share = float(sys.argv[2]); which = int(sys.argv[3])
rng = random.Random(seed)
specs, root = ns['gen'](rng, 12, share)
MODES = ns['MODES']
assigns = [{n: m for n in specs} for m in MODES] + [{n: rng.choice(MODES) for n in specs} for _ in range(3)]
modes = assigns[which]
cnt = [0]

def reachable(specs, root):
    seen=set(); st=[root]
    while st:
        x=st.pop()
        if x in seen: continue
        seen.add(x)
        for _,k,p in specs[x].params:
            if k=='in': st.append(p)
            elif k=='oneof': st.extend(p)
            else: st.append(p[0]); st.extend(c for _,c in p[1])
    return seen

async def interesting(specs, modes):
    cnt[0]+=1
    specs = {n: specs[n] for n in reachable(specs, root)}
    bad = await ns['run_one'](specs, root, modes, f'q{cnt[0]}a')
    if bad[0] != 'hang': return False
    bad2 = await ns['run_one'](specs, root, modes, f'q{cnt[0]}c')
    if bad2[0] != 'hang': return False
    good = await ns['run_one'](specs, root, {n:'a0' for n in specs}, f'q{cnt[0]}b')
    return good[0] != 'hang'

def variants(specs, modes):
    for n in list(specs):
        s = specs[n]
        for i, (pn, k, p) in enumerate(s.params):
            # drop param
            c = copy.deepcopy(specs); c[n].params.pop(i); yield c, modes
            if k == 'oneof' and len(p) > 1:
                for j in range(len(p)):
                    c = copy.deepcopy(specs); c[n].params[i] = (pn, k, p[:j]+p[j+1:]); yield c, modes
            if k == 'oneof' and len(p) == 1:
                c = copy.deepcopy(specs); c[n].params[i] = (pn, 'in', p[0]); yield c, modes
            if k == 'switch':
                sw, cases = p
                for l, cn in cases:
                    c = copy.deepcopy(specs); c[n].params[i] = (pn, 'in', cn); yield c, modes
                if len(cases) > 1:
                    for j in range(len(cases)):
                        c = copy.deepcopy(specs); c[n].params[i] = (pn, k, (sw, cases[:j]+cases[j+1:])); yield c, modes
        if s.fail:
            c = copy.deepcopy(specs); c[n].fail = False; c[n].use_default = False; yield c, modes
        if modes[n] != 'a0':
            m = dict(modes); m[n] = 'a0'; yield specs, m

async def main():
    global specs, modes
    ns['threads_pool_registry'].auto_init()
    assert await interesting(specs, modes)
    changed = True
    while changed:
        changed = False
        for c, m in variants(specs, modes):
            try:
                ok = await interesting(c, m)
            except Exception as e:
                ok = False
            if ok:
                specs, modes = {n: c[n] for n in reachable(c, root)}, m
                changed = True
                break
    for n, d in ns['dump'](specs, root).items(): print(n, modes[n], d)
    print('oracle', ns['oracle'](specs, root))
asyncio.run(main())
