"""
Defect 3: "the pool is missing" is handled as a failure of the node BODY.

run_node asks the registry for the executor inside the retry loop of DAGRunConcurrentManager.__execute_node.  The
readiness of the pools is verified only once, at the start of DAG.run.  When the pool disappears after that check
(registry shut down by the application while a run is in flight, or - scenario "crash" - the worker of the process
pool dies, which shuts the pool down), the RuntimeError of PoolExecutorRegistry.is_ready / the submit error is
caught like an exception of the body: the node is "retried" `attempts` times with `delay`, then replaced by
get_default() (or contained by an enclosing one-of).  The run goes on and returns a VALUE with error=None although
bodies that were required never ran.

Expected: an error result (the pool required by a mode in use is gone), never a value computed from defaults.

usage: defect_3.py            - thread pool shut down during the run
       defect_3.py crash      - process pool worker dies (os._exit) in the first process node
"""
import asyncio
import logging
import os
import sys

sys.path.insert(0, '.')
logging.disable(logging.CRITICAL)

from ml_pipeline_engine.chart import PipelineChart
from ml_pipeline_engine.dag_builders.annotation import build_dag
from ml_pipeline_engine.dag_builders.annotation.marks import Input
from ml_pipeline_engine.node import ProcessorBase
from ml_pipeline_engine.node.enums import NodeTag
from ml_pipeline_engine.parallelism import process_pool_registry, threads_pool_registry

SCENARIO = sys.argv[1] if len(sys.argv) > 1 else 'shutdown'
POOL_TAGS = (NodeTag.process,) if SCENARIO == 'crash' else ()

gate = None
invoked = []
defaults = []


class Inp(ProcessorBase):
    name = 'inp'

    async def process(self, x: int) -> int:
        invoked.append('inp')
        await gate.wait()
        return x


class First(ProcessorBase):
    name = 'first'
    tags = POOL_TAGS
    use_default = True

    def process(self, v: Input(Inp)) -> int:
        if SCENARIO == 'crash':
            os._exit(1)            # the worker is killed (OOM killer, segfault in a native library, ...)
        return v * 10

    def get_default(self, **kwargs):
        defaults.append('first')
        return -1


class Second(ProcessorBase):
    name = 'second'
    tags = POOL_TAGS
    use_default = True
    attempts = 3

    def process(self, v: Input(First)) -> int:
        return v * 1000

    def get_default(self, **kwargs):
        defaults.append('second')
        return -1000


class Out(ProcessorBase):
    name = 'out'

    async def process(self, s: Input(Second)) -> int:
        invoked.append('out')
        return s + 1


async def main() -> int:
    global gate
    gate = asyncio.Event()
    threads_pool_registry.auto_init()
    process_pool_registry.auto_init()
    devnull = os.open(os.devnull, os.O_WRONLY)
    os.dup2(devnull, 2)

    chart = PipelineChart('m', build_dag(Inp, Out))
    run = asyncio.ensure_future(chart.run(input_kwargs=dict(x=1)))
    await asyncio.sleep(0.1)            # the run has passed the readiness check and waits in the input node

    if SCENARIO == 'shutdown':
        threads_pool_registry.shutdown()    # the application shuts the pool down while the run is in flight

    gate.set()
    result = await asyncio.wait_for(run, 60)

    print(f'scenario={SCENARIO}: value={result.value!r} error={result.error!r}')
    print(f'bodies invoked on the loop: {invoked}; get_default used for: {defaults}')
    print('expected: an error result (10001 is the value when the pool works)')

    if result.error is None:
        print('DEFECT: the run returned a value computed from default values although the required pool was gone')
        return 1
    print('no defect')
    return 0


sys.exit(asyncio.run(main()))
