import sys, random
sys.argv = [sys.argv[0]] + sys.argv[1:]
import importlib.util
src = open('_hunt/fuzz.py').read().replace("asyncio.run(main())", "")
ns = {}
exec(compile(src, 'fuzz', 'exec'), ns)
seed = int(sys.argv[1]); share = float(sys.argv[2])
specs, root = ns['gen'](random.Random(seed), 12, share)
for n, d in ns['dump'](specs, root).items(): print(n, d)
print(ns['oracle'](specs, root))
