"""
Defect 1: two generic nodes built by build_node from ONE base class cannot both run in the process pool.

build_node registers the generated class as a global of ml_pipeline_engine/node/node.py under `class_name`, which
defaults to f'Generic{base.__name__}'.  The second build_node of the same base overwrites the global of the first,
so the first class is no longer reachable by name and pickle refuses it.  The same declarations work in the
coroutine / inline / thread modes.
"""
import asyncio
import logging
import sys

sys.path.insert(0, '.')
logging.disable(logging.CRITICAL)

from ml_pipeline_engine.chart import PipelineChart
from ml_pipeline_engine.dag_builders.annotation import build_dag
from ml_pipeline_engine.dag_builders.annotation.marks import Input, InputGeneric
from ml_pipeline_engine.node import ProcessorBase, build_node
from ml_pipeline_engine.node.enums import NodeTag
from ml_pipeline_engine.parallelism import process_pool_registry, threads_pool_registry
from ml_pipeline_engine.types import NodeBase


class Inp(ProcessorBase):
    name = 'inp'

    async def process(self, x: int) -> int:
        return x


class Scale(ProcessorBase):
    name = 'scale'

    def process(self, v: InputGeneric(NodeBase), k: int) -> int:
        return v * k


def make(tags, explicit_class_names=False):
    a = build_node(
        Scale, node_name='scale_a', v=Input(Inp), dependencies_default=dict(k=2), attrs=dict(tags=tags),
        class_name='ScaleA' if explicit_class_names else None,
    )
    b = build_node(
        Scale, node_name='scale_b', v=Input(a), dependencies_default=dict(k=3), attrs=dict(tags=tags),
        class_name='ScaleB' if explicit_class_names else None,
    )

    class Out(ProcessorBase):
        name = 'out'

        async def process(self, b: Input(b)) -> int:
            return b + 1

    return PipelineChart('m', build_dag(Inp, Out))


async def main() -> int:
    threads_pool_registry.auto_init()
    process_pool_registry.auto_init()

    outcomes = {}
    # Every chart is built before the first run, so that all classes exist when the pool forks its workers
    charts = [
        (label, make(tags, explicit)) for label, tags, explicit in [
            ('thread', (), False),
            ('inline', (NodeTag.non_async,), False),
            ('process, explicit class names (control)', (NodeTag.process,), True),
            ('process', (NodeTag.process,), False),
        ]
    ]
    for label, chart in charts:
        result = await asyncio.wait_for(chart.run(input_kwargs=dict(x=1)), 60)
        outcomes[label] = (result.value, result.error)
        print(f'{label:45s} value={result.value!r} error={result.error!r}')

    print('expected: value 7 and no error in every mode')
    if outcomes['process'] != outcomes['thread']:
        print('DEFECT: the process mode gives a different outcome than the thread mode')
        return 1
    print('no defect')
    return 0


sys.exit(asyncio.run(main()))
