"""
Defect 4: the readiness check of the thread pool registry does not recognise an unusable (broken) pool.

threads.PoolExecutorRegistry.is_ready looks only at ThreadPoolExecutor._shutdown.  A ThreadPoolExecutor whose
worker initializer has failed is permanently unusable (ThreadPoolExecutor._broken; every submit raises
BrokenThreadPool), exactly like a pool that has been shut down, but the check at the start of DAG.run passes.
So the run does not fail fast: node bodies of other modes are invoked, and only then the thread-mode node fails
(with defect 3 it is even replaced by its default value, so the run "succeeds").  The process registry does
notice the same state (a broken ProcessPoolExecutor sets _shutdown_thread).

Expected: every run fails immediately with an error result, before any node body is invoked.
"""
import asyncio
import logging
import sys
from concurrent.futures import ThreadPoolExecutor

sys.path.insert(0, '.')
logging.disable(logging.CRITICAL)

from ml_pipeline_engine.chart import PipelineChart
from ml_pipeline_engine.dag_builders.annotation import build_dag
from ml_pipeline_engine.dag_builders.annotation.marks import Input
from ml_pipeline_engine.node import ProcessorBase
from ml_pipeline_engine.parallelism import threads_pool_registry

invoked = []


class Inp(ProcessorBase):
    name = 'inp'

    async def process(self, x: int) -> int:
        invoked.append('inp')
        return x


class Heavy(ProcessorBase):
    name = 'heavy'

    def process(self, v: Input(Inp)) -> int:       # thread mode
        invoked.append('heavy')
        return v * 1000


class Out(ProcessorBase):
    name = 'out'

    async def process(self, h: Input(Heavy)) -> int:
        invoked.append('out')
        return h + 1


def connect_worker() -> None:
    raise OSError('the per-thread resource cannot be initialised')


async def main() -> int:
    threads_pool_registry.register_pool_executor(ThreadPoolExecutor(max_workers=2, initializer=connect_worker))
    chart = PipelineChart('m', build_dag(Inp, Out))

    # The first run is the one that discovers the problem (the pool starts its first worker)
    first = await asyncio.wait_for(chart.run(input_kwargs=dict(x=1)), 60)
    print(f'run 1: value={first.value!r} error={first.error!r} bodies={invoked}')

    pool = threads_pool_registry._pool_executor
    print(f'pool state now: _shutdown={pool._shutdown} _broken={pool._broken!r}')

    invoked.clear()
    try:
        threads_pool_registry.is_ready()
        ready = True
    except RuntimeError:
        ready = False
    second = await asyncio.wait_for(chart.run(input_kwargs=dict(x=1)), 60)
    print(f'run 2: is_ready passed={ready} value={second.value!r} error={second.error!r} bodies invoked={invoked}')
    print('expected for run 2: readiness check fails, error result, no body invoked')

    if ready or invoked:
        print('DEFECT: the unusable pool passes the readiness check; node bodies ran before the run failed')
        return 1
    print('no defect')
    return 0


sys.exit(asyncio.run(main()))
