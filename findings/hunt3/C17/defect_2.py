"""
Defect 2: a generic node built by build_node AFTER the process pool has started its workers cannot be executed in
the process mode, and the attempt destroys the pool.

build_node makes the generated class picklable by storing it into the globals of ml_pipeline_engine/node/node.py
of the CURRENT process only.  The workers of the pool (fork context, all started at the first submit) hold a
snapshot of that module taken at their start, so a class generated later is unknown to them: the worker dies while
unpickling the work item, the pool becomes broken, and every later (or overlapping) run that needs the process
pool fails.  The same sequence of runs works in the thread / inline / coroutine modes.  A unique class_name is
used, so this is independent of the name collision of defect 1.
"""
import asyncio
import logging
import os
import sys

sys.path.insert(0, '.')
logging.disable(logging.CRITICAL)

from ml_pipeline_engine.chart import PipelineChart
from ml_pipeline_engine.dag_builders.annotation import build_dag
from ml_pipeline_engine.dag_builders.annotation.marks import Input, InputGeneric
from ml_pipeline_engine.node import ProcessorBase, build_node
from ml_pipeline_engine.node.enums import NodeTag
from ml_pipeline_engine.parallelism import process_pool_registry, threads_pool_registry
from ml_pipeline_engine.types import NodeBase

MODE = (NodeTag.process,) if len(sys.argv) < 2 else ()   # any argument: thread mode (control)


class Inp(ProcessorBase):
    name = 'inp'

    async def process(self, x: int) -> int:
        return x


class Plain(ProcessorBase):
    name = 'plain'
    tags = MODE

    def process(self, v: Input(Inp)) -> int:
        return v + 100


class Scale(ProcessorBase):
    name = 'scale'
    tags = MODE

    def process(self, v: InputGeneric(NodeBase), k: int) -> int:
        return v * k


async def main() -> int:
    threads_pool_registry.auto_init()
    process_pool_registry.auto_init()

    # stderr of the dying worker is noise for this script
    devnull = os.open(os.devnull, os.O_WRONLY)
    os.dup2(devnull, 2)

    chart_1 = PipelineChart('m1', build_dag(Inp, Plain))
    first = await asyncio.wait_for(chart_1.run(input_kwargs=dict(x=1)), 60)
    print(f'chart 1, first run : value={first.value!r} error={first.error!r}')

    # A second model is configured later (e.g. loaded on demand); its pipeline uses a generic node
    scale_a = build_node(Scale, node_name='scale_a', class_name='ScaleA', v=Input(Inp), dependencies_default=dict(k=2))
    chart_2 = PipelineChart('m2', build_dag(Inp, scale_a))

    try:
        second = await asyncio.wait_for(chart_2.run(input_kwargs=dict(x=1)), 60)
        second = (second.value, second.error)
    except asyncio.TimeoutError:
        second = ('HANG', None)
    print(f'chart 2            : value={second[0]!r} error={second[1]!r}')

    third = await asyncio.wait_for(chart_1.run(input_kwargs=dict(x=1)), 60)
    print(f'chart 1, second run: value={third.value!r} error={third.error!r}')

    print('expected: 101 / 2 / 101 without errors (that is what the thread mode gives: run with any argument)')
    if (first.value, second[0], third.value) != (101, 2, 101):
        print('DEFECT: the generic node is unknown to the pool workers; the pool has been destroyed')
        return 1
    print('no defect')
    return 0


sys.exit(asyncio.run(main()))
