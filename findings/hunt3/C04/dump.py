import sys, asyncio
sys.argv = [sys.argv[0], '0', '0'] + sys.argv[1:]
from _hunt import fuzz
from ml_pipeline_engine.node import get_node_id
def show(seed):
    Inp, Out, state = fuzz.gen(seed)
    dag = fuzz.build_dag(Inp, Out)
    for nid, cls in dag.node_map.items():
        ann = cls.process.__annotations__
        d = []
        for k, m in ann.items():
            if hasattr(m, 'node'): d.append(f'{k}=In({m.node.__name__})')
            elif hasattr(m, 'nodes'): d.append(f'{k}=OneOf({[c.__name__ for c in m.nodes]})')
            elif hasattr(m, 'switch'): d.append(f'{k}=Sw({m.switch.__name__},{[(l, c.__name__) for l, c in m.cases]})')
        import inspect
        print(cls.__name__, d)
    print('out', Out.__name__)
    print(asyncio.run(fuzz.one(seed)))
    print(state['calls'])
for s in sys.argv[3:]:
    show(int(s)); print()
