"""
Defect 1: the retry policy configured on the DAG (DAG.retry_policy) is ignored.

DAG (ml_pipeline_engine/dag/dag.py) carries two pluggable strategy fields: run_manager and retry_policy.
run_manager is honoured (DAG.run instantiates self.run_manager), retry_policy is dead configuration: the manager
hard-codes NodeRetryPolicy (manager.py, __execute_node: `retry_policy = NodeRetryPolicy(node=node)`).

A chart whose DAG is configured with a policy that allows a single attempt still executes a failing body
node.attempts times; a policy that allows 3 attempts for every node is ignored as well (the body runs once).
"""
import asyncio
import dataclasses
import logging
import os
import sys
import typing as t

sys.path.insert(0, os.getcwd())

from ml_pipeline_engine.chart import PipelineChart
from ml_pipeline_engine.dag_builders.annotation import build_dag
from ml_pipeline_engine.dag_builders.annotation.marks import Input
from ml_pipeline_engine.node import ProcessorBase
from ml_pipeline_engine.types import NodeBase
from ml_pipeline_engine.types import RetryPolicyLike

logging.disable(logging.CRITICAL)

calls = {'Flaky': 0, 'Once': 0}


class Inp(ProcessorBase):
    async def process(self, x: int) -> int:
        return x


class Flaky(ProcessorBase):
    attempts = 4            # node level setting, the DAG level policy below is supposed to replace it
    delay = 0

    async def process(self, x: Input(Inp)) -> int:
        calls['Flaky'] += 1
        raise ValueError('flaky')


class Once(ProcessorBase):
    # no node level setting at all
    async def process(self, x: Input(Inp)) -> int:
        calls['Once'] += 1
        if calls['Once'] < 3:
            raise ValueError('not yet')
        return x


@dataclasses.dataclass(frozen=True)
class SingleAttempt(RetryPolicyLike):
    """No retries at all, whatever the node says"""
    node: NodeBase

    @property
    def delay(self) -> int:
        return 0

    @property
    def attempts(self) -> int:
        return 1

    @property
    def exceptions(self) -> t.Tuple[t.Type[Exception], ...]:
        return (Exception,)


@dataclasses.dataclass(frozen=True)
class ThreeAttempts(SingleAttempt):
    @property
    def attempts(self) -> int:
        return 3


async def main() -> int:
    bad = 0

    dag = dataclasses.replace(build_dag(Inp, Flaky), retry_policy=SingleAttempt)
    assert dag.retry_policy is SingleAttempt
    result = await asyncio.wait_for(PipelineChart('m', dag).run(input_kwargs=dict(x=1)), 10)
    print(f'[A] DAG.retry_policy=SingleAttempt: expected 1 execution of Flaky, got {calls["Flaky"]} '
          f'(error={result.error!r})')
    if calls['Flaky'] != 1:
        bad = 1

    dag = dataclasses.replace(build_dag(Inp, Once), retry_policy=ThreeAttempts)
    result = await asyncio.wait_for(PipelineChart('m', dag).run(input_kwargs=dict(x=1)), 10)
    print(f'[B] DAG.retry_policy=ThreeAttempts: expected value 1 after 3 executions of Once, got '
          f'value={result.value!r} error={result.error!r} after {calls["Once"]} execution(s)')
    if calls['Once'] != 3 or result.value != 1:
        bad = 1

    print('DEFECT SHOWN' if bad else 'no defect')
    return bad


sys.exit(asyncio.run(main()))
