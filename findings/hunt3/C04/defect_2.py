"""
Defect 2: two recurrent subgraphs that share nodes and are active at the same time are not isolated.

Shape (all in the main scope, no one-of / switch):

        Inp -> S -> D1  (RecurrentSubGraph(start=S, dest=D1))  \
                 -> D2  (RecurrentSubGraph(start=S, dest=D2))  -> Out

D1 asks for a re-iteration with data 'one', a little later D2 asks for a re-iteration with data 'two'.
The re-iteration of (S, D2) hides S although S is being executed for (S, D1): S is started a second time while
the first execution is still running, and whichever execution finishes first is taken by BOTH destinations.

expected: D1 is re-executed with the result S computed for 'one', D2 with the one computed for 'two';
          S is never executed twice at the same time
observed: S runs twice concurrently, D1 (which asked for 'one') is re-executed with S('two'); the result S('one')
          arrives later, overwrites the slot and is observed by nobody; the run reports no error.
"""
import asyncio
import logging
import os
import sys
import typing as t

sys.path.insert(0, os.getcwd())

from ml_pipeline_engine.chart import PipelineChart  # noqa: E402
from ml_pipeline_engine.dag_builders.annotation import build_dag  # noqa: E402
from ml_pipeline_engine.dag_builders.annotation.marks import Input  # noqa: E402
from ml_pipeline_engine.dag_builders.annotation.marks import RecurrentSubGraph  # noqa: E402
from ml_pipeline_engine.node import ProcessorBase  # noqa: E402
from ml_pipeline_engine.node import RecurrentProcessor  # noqa: E402

logging.disable(logging.CRITICAL)

ev: t.Dict[str, asyncio.Event] = {}
log: t.List[tuple] = []
running = {'now': 0, 'max': 0}


class Inp(ProcessorBase):
    async def process(self, x: int) -> int:
        return x


class S(ProcessorBase):
    async def process(self, x: Input(Inp), additional_data: t.Any = None) -> str:
        log.append(('S start', additional_data))
        running['now'] += 1
        running['max'] = max(running['max'], running['now'])
        try:
            if additional_data == 'one':
                ev['s_one_started'].set()
                # slow execution: it lasts until the other subgraph had the time to start (or 0.5 s)
                try:
                    await asyncio.wait_for(ev['s_two_done'].wait(), 0.5)
                except asyncio.TimeoutError:
                    pass
                for _ in range(10):
                    await asyncio.sleep(0)
            return f'S({additional_data})'
        finally:
            running['now'] -= 1
            log.append(('S end', additional_data))
            if additional_data == 'two':
                ev['s_two_done'].set()


class D1(RecurrentProcessor):
    async def process(self, s: Input(S)) -> t.Any:
        log.append(('D1', s))
        if s == 'S(None)':
            return self.next_iteration('one')
        return f'D1<{s}>'


class D2(RecurrentProcessor):
    async def process(self, s: Input(S)) -> t.Any:
        log.append(('D2', s))
        if s == 'S(None)':
            # asks for its re-iteration while S is running for the other subgraph
            await ev['s_one_started'].wait()
            return self.next_iteration('two')
        return f'D2<{s}>'


class Out(ProcessorBase):
    async def process(
        self,
        d1: RecurrentSubGraph(start_node=S, dest_node=D1, max_iterations=3),
        d2: RecurrentSubGraph(start_node=S, dest_node=D2, max_iterations=3),
    ) -> t.Any:
        return d1, d2


async def main() -> int:
    ev['s_one_started'] = asyncio.Event()
    ev['s_two_done'] = asyncio.Event()

    chart = PipelineChart('m', build_dag(Inp, Out))
    try:
        result = await asyncio.wait_for(chart.run(input_kwargs=dict(x=1)), 10)
    except asyncio.TimeoutError:
        print('HANG')
        return 1

    for item in log:
        print('   ', item)

    print('expected: value (\'D1<S(one)>\', \'D2<S(two)>\'), S never executed twice at the same time')
    print(f'observed: value {result.value!r}, error {result.error!r}, '
          f'max. simultaneous executions of S = {running["max"]}')

    bad = result.value != ('D1<S(one)>', 'D2<S(two)>') or running['max'] > 1
    print('DEFECT SHOWN' if bad else 'no defect')
    return 1 if bad else 0


sys.exit(asyncio.run(main()))
