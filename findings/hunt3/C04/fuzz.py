import asyncio, random, sys, collections, typing as t, logging
logging.disable(logging.CRITICAL)
from ml_pipeline_engine.chart import PipelineChart
from ml_pipeline_engine.dag_builders.annotation import build_dag
from ml_pipeline_engine.dag_builders.annotation.marks import Input, InputOneOf, SwitchCase
from ml_pipeline_engine.node import ProcessorBase

class Ev:
    async def on_node_start(self, ctx, node_id):
        await asyncio.sleep(0)
    async def on_node_complete(self, ctx, node_id, error):
        await asyncio.sleep(0)

def gen(seed):
    rnd = random.Random(seed)
    n = rnd.randint(4, 9)
    state = dict(calls=collections.Counter(), out={}, seen=[])
    nodes = []
    def mk(i, marks, fail, delay, label):
        name = f'N{seed}_{i}'
        async def process(self, **kw):
            state['calls'][name] += 1
            for _ in range(delay):
                await asyncio.sleep(0)
            state['seen'].append((name, dict(kw)))
            if fail:
                raise ValueError(name)
            val = label if label is not None else (name, state['calls'][name])
            state['out'][name] = val
            return val
        process.__annotations__ = dict(marks)
        # signature must have the params: build via exec
        params = ', '.join(f'{k}=None' for k in marks) 
        src = f'async def process(self, {params}):\n    return await _p(self, **dict({", ".join(f"{k}={k}" for k in marks)}))\n'
        ns = {'_p': process}
        exec(src, ns)
        f = ns['process']; f.__annotations__ = dict(marks)
        return type(name, (ProcessorBase,), {'process': f, 'name': name})
    # input node
    async def inp_process(self, x: int):
        state['calls']['inp'] += 1
        return x
    Inp = type(f'Inp{seed}', (ProcessorBase,), {'process': inp_process, 'name': f'inp{seed}'})
    nodes.append(Inp)
    meta = {Inp: dict(fail=False)}
    excl = set(); used = set(); cand_role=set(); case_role=set()
    for i in range(1, n):
        k = rnd.randint(1, min(3, len(nodes)))
        marks = {}
        for j in range(k):
            kind = rnd.random()
            pool = [c for c in nodes if c not in excl]
            if len(pool) < 2:
                marks[f'a{j}'] = Input(pool[0] if pool else Inp); continue
            if kind < 0.55 or len(pool) < 3:
                marks[f'a{j}'] = Input(rnd.choice(pool))
            elif kind < 0.8:
                fresh = [c for c in nodes[1:] if c not in used or c in cand_role]
                if not fresh:
                    marks[f'a{j}'] = Input(rnd.choice(pool)); continue
                cands = rnd.sample(fresh, min(len(fresh), rnd.randint(1, 3)))
                marks[f'a{j}'] = InputOneOf(cands); excl.update(cands); cand_role.update(cands)
            else:
                labs = [c for c in pool if meta[c].get('label')]
                if not labs:
                    marks[f'a{j}'] = Input(rnd.choice(pool)); continue
                dec = rnd.choice(labs)
                fresh = [c for c in nodes[1:] if c not in used or c in case_role]
                if not fresh:
                    marks[f'a{j}'] = Input(rnd.choice(pool)); continue
                cases = rnd.sample(fresh, min(len(fresh), 2))
                lab = meta[dec]['label']
                cases = [c for c in cases if c is not dec]
                if not cases:
                    marks[f'a{j}'] = Input(dec); continue
                marks[f'a{j}'] = SwitchCase(dec, [(lab if ci == 0 else 'zz', c) for ci, c in enumerate(cases)]); excl.update(cases); case_role.update(cases)
        # avoid duplicate sources collapsed (known 1): skip if same node twice as Input
        srcs = [m.node for m in marks.values() if hasattr(m, 'node')]
        if len(srcs) != len(set(srcs)):
            marks = {'a0': Input(srcs[0])}
        allrefs = []
        for m in marks.values():
            allrefs += ([m.node] if hasattr(m,'node') else list(getattr(m,'nodes',[])) or [m.switch]+[c for _, c in m.cases])
        if len(allrefs) != len(set(allrefs)):
            marks = {'a0': Input(allrefs[0] if allrefs[0] not in excl else Inp)}
        for m in marks.values():
            for c in ([m.node] if hasattr(m,'node') else list(getattr(m,'nodes',[])) or [m.switch]+[c for _, c in m.cases]):
                used.add(c)
        fail = rnd.random() < 0.2
        label = f'L{i}' if rnd.random() < 0.3 and not fail else None
        cls = mk(i, marks, fail, rnd.randint(0, 4), label)
        meta[cls] = dict(fail=fail, label=label)
        nodes.append(cls)
    return Inp, nodes[-1], state

async def one(seed):
    Inp, Out, state = gen(seed)
    try:
        dag = build_dag(Inp, Out)
    except Exception as e:
        return 'builderr', repr(e)[:80]
    chart = PipelineChart('m', dag, event_managers=[Ev])
    try:
        r = await asyncio.wait_for(chart.run(input_kwargs=dict(x=1)), 3)
    except asyncio.TimeoutError:
        return 'hang', None
    bad = [k for k, v in state['calls'].items() if v > 1]
    if bad:
        return 'DOUBLE', bad
    if r.error is None:
        # check observed values
        for name, kw in state['seen']:
            for k, v in kw.items():
                if v is None or isinstance(v, BaseException):
                    return 'BADVALUE', (name, k, v)
                if isinstance(v, tuple) and v[0] in state['out'] and state['out'][v[0]] != v:
                    return 'MISMATCH', (name, k, v)
        return 'ok', None
    return 'error', repr(r.error)[:60]

async def main():
    res = collections.Counter()
    a, b = int(sys.argv[1]), int(sys.argv[2])
    for seed in range(a, b):
        kind, info = await one(seed)
        res[kind] += 1
        if kind in ('DOUBLE', 'BADVALUE', 'MISMATCH', 'hang'):
            print(seed, kind, info)
    print(res)
asyncio.run(main())
