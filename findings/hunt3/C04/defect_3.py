"""
Defect 3: a waiting requester that is cancelled releases the execution lock of a node it does not own.

Shape: the plain node N is requested by three scopes

    main scope:            Out(n: Input(N), ...)
    one-of #1, candidate:  B1(n: Input(N), q: Input(Q)),  Q(p: Input(P)),  P fails        (fallback B2)
    one-of #2, candidate:  C1(n: Input(N))

Interleaving: all three launch loops wait for N0 (the dependency of N); the main scope gets N first and executes
the body (slow), the two sub-pipelines become waiting requesters (`_execute_node`: wait_for_event(N)).
Then P fails: the error exit of B1's launch loop cancels its local tasks, one of them is B1's *waiting* request
for N.  The `finally` of that `_run_node` sets N's event although the body of N is still running (it is executed
by the main scope and is NOT cancelled).  C1's waiting request is released, reads "no result" as None and
publishes None as the result of N.

expected: N is executed once and all its consumers (C1, Out) get 'N-real'
observed: N is executed once, is not cancelled and returns 'N-real', but C1 is executed with n=None while the body
          of N is still running; Out gets 'N-real'; the run reports no error.
"""
import asyncio
import logging
import os
import sys
import typing as t

sys.path.insert(0, os.getcwd())

from ml_pipeline_engine.chart import PipelineChart  # noqa: E402
from ml_pipeline_engine.dag_builders.annotation import build_dag  # noqa: E402
from ml_pipeline_engine.dag_builders.annotation.marks import Input  # noqa: E402
from ml_pipeline_engine.dag_builders.annotation.marks import InputOneOf  # noqa: E402
from ml_pipeline_engine.node import ProcessorBase  # noqa: E402

logging.disable(logging.CRITICAL)

ev: t.Dict[str, asyncio.Event] = {}
log: t.List[tuple] = []
seen: t.Dict[str, t.Any] = {}


async def pause(n: int = 10) -> None:
    for _ in range(n):
        await asyncio.sleep(0)


class Inp(ProcessorBase):
    async def process(self, x: int) -> int:
        return x


class N0(ProcessorBase):
    async def process(self, x: Input(Inp)) -> int:
        # finishes when every launch loop is waiting for N (P is started by the last but one of them)
        await ev['p_started'].wait()
        await pause()
        return x


class N(ProcessorBase):
    async def process(self, x: Input(N0)) -> str:
        log.append(('N body starts',))
        ev['n_started'].set()
        try:
            # a slow body: it lasts until the fallback B2 has been executed (1 s at most)
            try:
                await asyncio.wait_for(ev['b2_done'].wait(), 1)
            except asyncio.TimeoutError:
                pass
            await pause(30)
        except asyncio.CancelledError:
            log.append(('N body CANCELLED',))
            raise
        log.append(('N body ends, returns N-real',))
        return 'N-real'


class P(ProcessorBase):
    async def process(self, x: Input(Inp)) -> int:
        ev['p_started'].set()
        await ev['n_started'].wait()
        await pause()
        log.append(('P fails',))
        raise ValueError('P')


class Q(ProcessorBase):
    async def process(self, p: Input(P)) -> int:
        return p


class B1(ProcessorBase):
    async def process(self, n: Input(N), q: Input(Q)) -> t.Any:
        return 'B1', n, q


class B2(ProcessorBase):
    async def process(self, x: Input(Inp)) -> t.Any:
        log.append(('B2 (fallback of B1)',))
        ev['b2_done'].set()
        return 'B2'


class C1(ProcessorBase):
    async def process(self, n: Input(N)) -> t.Any:
        log.append(('C1 executed with n =', n))
        seen['C1'] = n
        return 'C1', n


class Out(ProcessorBase):
    async def process(self, b: InputOneOf([B1, B2]), c: InputOneOf([C1]), n: Input(N)) -> t.Any:
        log.append(('Out executed with n =', n))
        seen['Out'] = n
        return b, c, n


async def main() -> int:
    for name in ('p_started', 'n_started', 'b2_done'):
        ev[name] = asyncio.Event()

    chart = PipelineChart('m', build_dag(Inp, Out))
    try:
        result = await asyncio.wait_for(chart.run(input_kwargs=dict(x=1)), 10)
    except asyncio.TimeoutError:
        print('HANG')
        return 1

    n_events = len(log)
    await asyncio.sleep(0.05)   # lets the tear-down of the run reach the tasks it cancelled

    for idx, item in enumerate(log):
        print('   ', *item, '' if idx < n_events else '   <- after run() returned (tear-down of the run)')

    n_runs = sum(1 for item in log if item[0] == 'N body starts')
    cancelled = any(item[0] == 'N body CANCELLED' for item in log[:n_events])

    print("expected: N executed once; C1 and Out both executed with n = 'N-real'")
    print(f'observed: N executed {n_runs} time(s), cancelled before run() returned={cancelled}; C1 saw {seen.get("C1")!r}, '
          f'Out saw {seen.get("Out")!r}; value={result.value!r} error={result.error!r}')

    bad = not (n_runs == 1 and seen.get('C1') == 'N-real' and seen.get('Out') == 'N-real')
    print('DEFECT SHOWN' if bad else 'no defect')
    return 1 if bad else 0


sys.exit(asyncio.run(main()))
