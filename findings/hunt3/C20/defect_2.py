"""
Defect 2: a hand-written node class that derives from a build_node() class is described with the source location of
the generic's base class.  _get_node_relative_path() reads __generic_class__ with getattr(), i.e. also when the
attribute is merely inherited, and jumps from the subclass to the base template.
"""
import inspect
import os
import sys
import types

sys.path.insert(0, os.getcwd())
sys.modules.setdefault('importlib_resources', types.ModuleType('importlib_resources'))

from ml_pipeline_viewer.visualization.dag import GraphConfigImpl  # noqa: E402

from ml_pipeline_engine.dag_builders.annotation import build_dag  # noqa: E402
from ml_pipeline_engine.dag_builders.annotation.marks import Input  # noqa: E402
from ml_pipeline_engine.dag_builders.annotation.marks import InputGeneric  # noqa: E402
from ml_pipeline_engine.node import ProcessorBase  # noqa: E402
from ml_pipeline_engine.node import build_node  # noqa: E402
from ml_pipeline_engine.node import base_nodes  # noqa: E402


class Inp(ProcessorBase):
    name = 'inp'

    def process(self, x: int) -> int:
        return x


class Template(ProcessorBase):
    """Generic template"""
    name = 'template'

    def process(self, value: InputGeneric(Inp)) -> int:
        return value


Concrete = build_node(Template, node_name='concrete', value=Input(Inp))


class Tuned(Concrete):
    """The concrete node with its own body and retry settings"""
    name = 'tuned'
    attempts = 3

    def process(self, value: Input(Inp)) -> int:
        return value + 1


# the same happens one level further up: a generic made from a library class, then subclassed
LibGeneric = build_node(ProcessorBase, node_name='lib_generic')


class Own(LibGeneric):
    """Own node"""
    name = 'own'

    def process(self, value: Input(Tuned)) -> int:
        return value


dag = build_dag(Inp, Own)
config = GraphConfigImpl(dag).generate(name='dag')
by_id = {node.id: node for node in config.nodes}

failed = False
for cls in (Tuned, Own):
    node = by_id[f'processor__{cls.name}']
    expected = f'{cls.__module__.replace(".", "/")}.py#L{inspect.getsourcelines(cls)[1]}'
    print(f'{cls.__name__}: doc={node.data.doc!r}')
    print(f'  expected code_source: {expected}  (the class statement of {cls.__name__})')
    print(f'  observed code_source: {node.data.code_source}')
    if node.data.code_source != expected:
        failed = True

print('Template is declared at line', inspect.getsourcelines(Template)[1],
      '; ProcessorBase at', f'{base_nodes.__name__.replace(".", "/")}.py#L{inspect.getsourcelines(ProcessorBase)[1]}')
sys.exit(1 if failed else 0)
