"""
Defect 1: GraphConfigImpl.generate() dies (OSError / TypeError) for a buildable, runnable DAG as soon as one real
node class has no locatable `class` statement: a class made with type() / a renamed factory class / a class of a
module shipped without sources (.pyc only).  _get_node_relative_path() calls inspect.getsourcelines() unguarded.
"""
import asyncio
import os
import pathlib
import py_compile
import sys
import tempfile
import textwrap
import types

sys.path.insert(0, os.getcwd())
sys.modules.setdefault('importlib_resources', types.ModuleType('importlib_resources'))

from ml_pipeline_viewer.visualization.dag import GraphConfigImpl  # noqa: E402

from ml_pipeline_engine.chart import PipelineChart  # noqa: E402
from ml_pipeline_engine.dag_builders.annotation import build_dag  # noqa: E402
from ml_pipeline_engine.dag_builders.annotation.marks import Input  # noqa: E402
from ml_pipeline_engine.node import ProcessorBase  # noqa: E402


class Inp(ProcessorBase):
    name = 'inp'

    async def process(self, x: int) -> int:
        return x


# (a) a node class created with type() - the same way build_node() creates classes
async def _double(self, x: Input(Inp)) -> int:  # noqa: ANN001
    """Doubles the number"""
    return x * 2

Double = type('Double', (ProcessorBase,), {'process': _double, 'name': 'double', '__module__': __name__})


# (b) a class factory that gives every produced class its own name
def make_adder(const: int):  # noqa: ANN201
    class Adder(ProcessorBase):
        """Adds a constant"""
        name = f'add_{const}'

        async def process(self, x: Input(Inp)) -> int:
            return x + const

    Adder.__name__ = Adder.__qualname__ = f'Add{const}'
    return Adder


# (c) a node of a module that is deployed as byte code only
tmp = pathlib.Path(tempfile.mkdtemp())
src = tmp / 'shipped_nodes.py'
src.write_text(textwrap.dedent('''
    from ml_pipeline_engine.node import ProcessorBase

    class Shipped(ProcessorBase):
        """Shipped without sources"""
        name = 'shipped'

        async def process(self, x: int) -> int:
            return x + 1
'''))
py_compile.compile(str(src), cfile=str(tmp / 'shipped_nodes.pyc'))
src.unlink()
sys.path.insert(0, str(tmp))
from shipped_nodes import Shipped  # noqa: E402

cases = {
    'type()-created class': build_dag(Inp, Double),
    'renamed factory class': build_dag(Inp, make_adder(3)),
    'byte-code only module': build_dag(Shipped, Shipped),
}

failed = False
for title, dag in cases.items():
    result = asyncio.run(PipelineChart('m', dag).run(input_kwargs={'x': 5}))
    print(f'[{title}] the DAG is built ({len(dag.graph.nodes)} nodes) and runs: value={result.value} error={result.error}')
    print('  expected: generate() returns a description with one entry per DAG node')
    try:
        config = GraphConfigImpl(dag).generate(name='dag')
        print('  observed: ok,', [node.id for node in config.nodes])
    except Exception as ex:  # noqa: BLE001
        failed = True
        print(f'  observed: generate() raised {type(ex).__name__}: {ex}')

sys.exit(1 if failed else 0)
