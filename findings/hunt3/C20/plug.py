import sys, types, json, copy, traceback
sys.modules.setdefault('importlib_resources', types.ModuleType('importlib_resources'))
from ml_pipeline_engine.dag_builders.annotation import builder as B
from ml_pipeline_viewer.visualization.dag import GraphConfigImpl

orig = B.AnnotationDAGBuilder.build
problems = []
count = [0]
def build(self, *a, **k):
    dag = orig(self, *a, **k)
    count[0] += 1
    try:
        before = (list(dag.graph.nodes(data=True)), list(dag.graph.edges(data=True)), dict(dag.node_map))
        before = copy.deepcopy(before)
        cfg = GraphConfigImpl(dag).generate(name='x')
        d = cfg.as_dict()
        json.dumps(d)
        after = (list(dag.graph.nodes(data=True)), list(dag.graph.edges(data=True)), dict(dag.node_map))
        assert before == after, 'modified'
        ids = [n['id'] for n in d['nodes']]
        assert sorted(ids) == sorted(dag.graph.nodes), 'nodes'
        assert sorted((e['source'], e['target']) for e in d['edges']) == sorted(dag.graph.edges), 'edges'
        assert len({e['id'] for e in d['edges']}) == len(d['edges']), 'edge ids'
        for n in d['nodes']:
            real = n['id'] in dag.node_map
            assert n['is_virtual'] == (not real), 'virtual'
            if n['type'] is not None:
                assert n['type'] in d['node_types'], 'types'
            if real:
                cls = dag.node_map[n['id']]
                assert n['data']['name'] == cls.name
                assert n['type'] == cls.node_type
    except Exception as e:
        problems.append((a, k, traceback.format_exc()))
    return dag
B.AnnotationDAGBuilder.build = build

def pytest_sessionfinish(session, exitstatus):
    print('\nDAGS built:', count[0], 'problems:', len(problems))
    seen = set()
    for a, k, tb in problems:
        key = tb.strip().splitlines()[-1]
        if key in seen: continue
        seen.add(key)
        print(a, k); print(tb)
