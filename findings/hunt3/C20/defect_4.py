"""
Defect 4 (CLI side of the node-type table): the table is keyed by the plain declared type since custom node types
('ml_model' of docs/usage_examples.md) are accepted, but `build-static --color TYPE HEX` still converts TYPE with the
NodeType enum, so an entry of the table that belongs to a custom type can never be given a colour from the command
line - the whole command is refused - whereas GraphConfigImpl.generate(node_colors={'ml_model': ...}) accepts it.

importlib_resources is not installed here, so a minimal stand-in with the same path() contract is registered.
"""
import contextlib
import importlib
import json
import os
import pathlib
import sys
import tempfile
import types

sys.path.insert(0, os.getcwd())

fake = types.ModuleType('importlib_resources')


@contextlib.contextmanager
def _path(package: str, *names: str):  # noqa: ANN202
    yield str(pathlib.Path(importlib.import_module(package).__file__).parent.joinpath(*names))


fake.path = _path
sys.modules['importlib_resources'] = fake

from click.testing import CliRunner  # noqa: E402
from ml_pipeline_viewer.cli import build_static  # noqa: E402
from ml_pipeline_viewer.visualization.dag import GraphConfigImpl  # noqa: E402

from ml_pipeline_engine.dag_builders.annotation import build_dag  # noqa: E402
from ml_pipeline_engine.dag_builders.annotation.marks import Input  # noqa: E402
from ml_pipeline_engine.node import ProcessorBase  # noqa: E402
from ml_pipeline_engine.types import NodeBase  # noqa: E402


class Inp(ProcessorBase):
    name = 'inp'

    def process(self, x: int) -> int:
        return x


class Model(NodeBase):
    node_type = 'ml_model'     # the custom type of docs/usage_examples.md
    name = 'model'

    def process(self, x: Input(Inp)) -> int:
        return x


dag = build_dag(Inp, Model)
sys.modules['defect_4_module'] = sys.modules[__name__]

api = GraphConfigImpl(dag).generate(name='dag', node_colors={'ml_model': '#83ffba'}).as_dict()['node_types']
print('python api  :', json.dumps(api))

target = pathlib.Path(tempfile.mkdtemp()) / 'site'
result = CliRunner().invoke(
    build_static,
    ['--dag_path', 'defect_4_module:dag', '--target_dir', str(target), '--color', 'ml_model', '#83ffba'],
)
print('expected    : exit code 0 and data.js with node_types.ml_model.hex_bgr_color == "#83ffba"')
print('observed    : exit code', result.exit_code, '|', result.output.strip().splitlines()[-1] if result.output else '')
print('              data.js written:', (target / 'data.js').exists())
sys.exit(1 if result.exit_code != 0 else 0)
