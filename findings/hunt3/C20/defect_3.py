"""
Defect 3 (delivery of the description, not its content): DAG.visualize() works once per target directory and
process.  build_static() copies the viewer with distutils' copy_tree(), which remembers every directory it has created
in a process-wide cache and never creates it again; after the target was removed (a clean re-build, a temporary
directory that is reused) the second visualize() of the same - unchanged - DAG fails and no data.js is written.

importlib_resources is not installed here, so a minimal stand-in with the same path() contract is registered.
"""
import contextlib
import importlib
import os
import pathlib
import shutil
import sys
import tempfile
import types

sys.path.insert(0, os.getcwd())

fake = types.ModuleType('importlib_resources')


@contextlib.contextmanager
def _path(package: str, *names: str):  # noqa: ANN202
    yield str(pathlib.Path(importlib.import_module(package).__file__).parent.joinpath(*names))


fake.path = _path
sys.modules['importlib_resources'] = fake

from ml_pipeline_viewer.visualization.sample import sample_dag  # noqa: E402

target = pathlib.Path(tempfile.mkdtemp()) / 'site'

sample_dag.visualize(name='sample', target_dir=target)
print('first visualize():', sorted(os.listdir(target)))

shutil.rmtree(target)   # e.g. `make clean`, or the clean-up of a per-build directory

print('expected: the second visualize() re-creates the directory with index.html, static/ and data.js')
try:
    sample_dag.visualize(name='sample', target_dir=target)
except Exception as ex:  # noqa: BLE001
    print(f'observed: {type(ex).__name__}: {ex}')
    print('          target exists:', target.exists())
    sys.exit(1)

print('observed:', sorted(os.listdir(target)))
sys.exit(0 if (target / 'data.js').exists() else 1)
