"""
Defect 3: the retry loop ends only when the attempt counter is EQUAL to `attempts`; a setting the counter never hits
(negative, e.g. -1, or a non-integral number such as 2.5) makes the node retry forever, the run never ends and
use_default is never applied.
"""
import asyncio
import logging
import os
import sys

sys.path.insert(0, os.getcwd())
logging.disable(logging.CRITICAL)

from ml_pipeline_engine.chart import PipelineChart
from ml_pipeline_engine.dag_builders.annotation import build_dag
from ml_pipeline_engine.dag_builders.annotation.marks import Input
from ml_pipeline_engine.node import ProcessorBase

CALLS = {'neg': 0, 'frac': 0}


class In(ProcessorBase):
    async def process(self, x: int) -> int:
        return x


class Neg(ProcessorBase):
    attempts = -1          # "no retries" in many retry libraries; in any case not "more than one attempt"
    delay = 0.001
    use_default = True

    async def process(self, x: Input(In)) -> int:
        CALLS['neg'] += 1
        raise ValueError('boom')

    def get_default(self, **kwargs):
        return 'default'


class Frac(ProcessorBase):
    attempts = 2.5         # e.g. computed as budget / cost
    delay = 0.001
    use_default = True

    async def process(self, x: Input(In)) -> int:
        CALLS['frac'] += 1
        raise ValueError('boom')

    def get_default(self, **kwargs):
        return 'default'


async def run(node, key, bound):
    try:
        result = await asyncio.wait_for(PipelineChart('m', build_dag(In, node)).run(input_kwargs=dict(x=1)), 1.5)
        print(f'{node.__name__}: attempts={node.attempts!r}: finished, {CALLS[key]} invocation(s), result={result.value!r}')
        return CALLS[key] <= bound
    except asyncio.TimeoutError:
        print(f'{node.__name__}: attempts={node.attempts!r}: run did NOT finish in 1.5s, {CALLS[key]} invocations so far '
              f'(expected at most {bound} and then the default value)')
        return False


async def main() -> int:
    print('expected: the number of invocations is bounded by the setting (1 for -1, at most 3 for 2.5), '
          'then get_default is used')
    ok = await run(Neg, 'neg', 1)
    ok = await run(Frac, 'frac', 3) and ok
    if not ok:
        print('DEFECT: `n_attempts == retry_policy.attempts` is the only exit of the retry loop')
        return 1
    return 0


if __name__ == '__main__':
    sys.exit(asyncio.run(main()))
