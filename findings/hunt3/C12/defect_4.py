"""
Defect 4: a node made by build_node(..., dependencies_default=...) gets these keyword arguments in process(), but
get_default() is called without them: the default is not computed from the same keyword arguments as the attempts.
A get_default that declares the parameters of process fails with TypeError, and this TypeError becomes the failure of
a node that has use_default=True.
"""
import asyncio
import logging
import os
import sys

sys.path.insert(0, os.getcwd())
logging.disable(logging.CRITICAL)

from ml_pipeline_engine.chart import PipelineChart
from ml_pipeline_engine.dag_builders.annotation import build_dag
from ml_pipeline_engine.dag_builders.annotation.marks import Input
from ml_pipeline_engine.dag_builders.annotation.marks import InputGeneric
from ml_pipeline_engine.node import ProcessorBase
from ml_pipeline_engine.node import build_node

SEEN = []


class In(ProcessorBase):
    async def process(self, x: int) -> int:
        return x


class GenericScaler(ProcessorBase):
    """Reusable node: scales its input, falls back to the neutral value of the configured scale."""
    use_default = True

    async def process(self, value: InputGeneric(ProcessorBase), scale: int) -> int:
        SEEN.append(('process', dict(value=value, scale=scale)))
        raise ConnectionError('service down')

    def get_default(self, value: int, scale: int) -> int:
        SEEN.append(('get_default', dict(value=value, scale=scale)))
        return 0 * scale


class GenericScalerKw(GenericScaler):
    def get_default(self, **kwargs) -> int:
        SEEN.append(('get_default', dict(kwargs)))
        return 0


Scaler = build_node(GenericScaler, node_name='scaler', class_name='Scaler',
                    dependencies_default=dict(scale=5), value=Input(In))
ScalerKw = build_node(GenericScalerKw, node_name='scaler_kw', class_name='ScalerKw',
                      dependencies_default=dict(scale=5), value=Input(In))


async def main() -> int:
    bad = False

    print('expected: process(value=1, scale=5) fails -> get_default(value=1, scale=5) -> value 0, error None')
    result = await asyncio.wait_for(PipelineChart('m', build_dag(In, Scaler)).run(input_kwargs=dict(x=1)), 10)
    print(f'observed: calls={SEEN}, value={result.value!r}, error={result.error!r}')
    if result.error is not None:
        bad = True

    SEEN.clear()
    print('with get_default(**kwargs): expected the same keyword arguments in both calls')
    result = await asyncio.wait_for(PipelineChart('m', build_dag(In, ScalerKw)).run(input_kwargs=dict(x=1)), 10)
    print(f'observed: calls={SEEN}, value={result.value!r}, error={result.error!r}')
    kwargs = [kw for _, kw in SEEN]
    if len(kwargs) != 2 or kwargs[0] != kwargs[1]:
        bad = True

    if bad:
        print('DEFECT: dependencies_default reaches process() only, get_default() is called with other keyword arguments')
        return 1
    return 0


if __name__ == '__main__':
    sys.exit(asyncio.run(main()))
