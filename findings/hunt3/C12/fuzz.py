"""Differential test of the retry/default policy against a model, for nodes in different positions."""
import asyncio
import itertools
import logging
import os
import random
import sys
import time
import typing as t

sys.path.insert(0, os.getcwd())
logging.disable(logging.CRITICAL)

from ml_pipeline_engine.chart import PipelineChart
from ml_pipeline_engine.dag_builders.annotation import build_dag, build_dag_single
from ml_pipeline_engine.dag_builders.annotation.marks import Input, InputOneOf, SwitchCase, RecurrentSubGraph
from ml_pipeline_engine.node import ProcessorBase, RecurrentProcessor
from ml_pipeline_engine.node.enums import NodeTag
from ml_pipeline_engine.parallelism import threads_pool_registry

threads_pool_registry.auto_init()


class EA(Exception):
    pass


class EB(Exception):
    pass


class EA2(EA):
    pass


class BE(BaseException):
    pass


LOG: t.List[t.Tuple] = []
_counter = itertools.count()


def mk(name, deps: t.Dict[str, t.Any], mode='async', outcomes=(), value=None, settings=None, base=ProcessorBase,
       plain_params=(), post=None):
    """
    outcomes: list of exception classes / 'ok' per attempt (after the list is exhausted: ok)
    value: callable(kwargs) -> result
    """
    uid = f'{name}_{next(_counter)}'
    state = {'n': 0}

    def body(self, kwargs):
        i = state['n']
        state['n'] += 1
        LOG.append(('call', name, dict(kwargs), time.monotonic()))
        out = outcomes[i] if i < len(outcomes) else 'ok'
        if out != 'ok':
            raise out(f'{name}#{i}')
        res = value(kwargs) if value else name
        if post:
            res = post(self, res, kwargs, state)
        return res

    if mode == 'async':
        async def process(self, **kwargs):
            return body(self, kwargs)
    else:
        def process(self, **kwargs):
            return body(self, kwargs)

    # explicit signature through annotations only: builder reads __annotations__
    params = list(deps) + list(plain_params)
    src = 'async ' if mode == 'async' else ''
    args = ', '.join(params)
    kw = ', '.join(f'{p}={p}' for p in params)
    ns = {'body': body}
    exec(f'{src}def process(self, {args}):\n    return body(self, dict({kw}))\n', ns)  # noqa
    process = ns['process']
    process.__annotations__ = {**deps, **{p: int for p in plain_params}}

    def get_default(self, **kwargs):
        LOG.append(('default', name, dict(kwargs), time.monotonic()))
        return f'default-{name}'

    attrs = {'name': uid, 'process': process, 'get_default': get_default, '_state': state}
    if mode == 'non_async':
        attrs['tags'] = (NodeTag.non_async,)
    attrs.update(settings or {})
    return type(uid, (base,), attrs)


def model(outcomes, settings):
    attempts = settings.get('attempts') or 1
    excs = settings.get('exceptions') or (Exception,)
    use_default = settings.get('use_default', False)
    n = 0
    for i in itertools.count():
        out = outcomes[i] if i < len(outcomes) else 'ok'
        n += 1
        if out == 'ok':
            return n, 'ok', None
        if not issubclass(out, Exception):
            return n, 'fail', out
        if issubclass(out, excs) and n < attempts:
            continue
        if use_default:
            return n, 'default', None
        return n, 'fail', out


def rand_case(rng):
    attempts = rng.choice([None, 1, 2, 3, 4])
    excs = rng.choice([None, (EA,), (EB,), (EA, EB), (EA2,), (Exception,), (BaseException,), (BE, EA)])
    use_default = rng.choice([False, True])
    delay = rng.choice([None, 0, 0.02])
    n = rng.randint(0, 4)
    outcomes = [rng.choice([EA, EB, EA2, ValueError, BE, EA, EB]) for _ in range(n)]
    if rng.random() < 0.3:
        outcomes = [o for o in outcomes if o is not BE]
    settings = {}
    if attempts is not None:
        settings['attempts'] = attempts
    if excs is not None:
        settings['exceptions'] = excs
    if delay is not None:
        settings['delay'] = delay
    settings['use_default'] = use_default
    return outcomes, settings


async def run_chart(dag, input_kwargs, timeout=5):
    chart = PipelineChart('m', dag)
    try:
        return await asyncio.wait_for(chart.run(input_kwargs=input_kwargs), timeout)
    except asyncio.TimeoutError:
        return 'TIMEOUT'
    except BaseException as ex:  # noqa
        return ('RAISED', ex)


def check(tag, name, outcomes, settings, res, expect_value_fn, problems, expected_kwargs=None):
    n, kind, exc = model(outcomes, settings)
    calls = [e for e in LOG if e[0] == 'call' and e[1] == name]
    defaults = [e for e in LOG if e[0] == 'default' and e[1] == name]
    desc = f'{tag} outcomes={[getattr(o, "__name__", o) for o in outcomes]} settings={ {k: (tuple(c.__name__ for c in v) if k == "exceptions" else v) for k, v in settings.items()} }'
    if len(calls) != n:
        problems.append(f'{desc}: invocations {len(calls)} != {n}')
    if calls and any(c[2] != calls[0][2] for c in calls):
        problems.append(f'{desc}: kwargs differ between attempts')
    if kind == 'default':
        if len(defaults) != 1:
            problems.append(f'{desc}: default calls {len(defaults)} != 1')
        elif calls and defaults[0][2] != calls[0][2]:
            problems.append(f'{desc}: default kwargs {defaults[0][2]} != {calls[0][2]}')
    elif defaults:
        problems.append(f'{desc}: unexpected default call')
    delay = settings.get('delay') or 0
    for a, b in zip(calls, calls[1:]):
        if b[3] - a[3] < delay - 0.002:
            problems.append(f'{desc}: delay not respected {b[3] - a[3]}')
    exp = expect_value_fn(kind, exc)
    if res == 'TIMEOUT':
        problems.append(f'{desc}: TIMEOUT (expected {exp})')
        return
    if isinstance(res, tuple) and res[0] == 'RAISED':
        got = ('raised', type(res[1]))
    elif res.error is not None:
        got = ('error', type(res.error))
    else:
        got = ('value', res.value)
    if got != exp:
        problems.append(f'{desc}: got {got} expected {exp}')


async def scenario(rng, position, mode, problems):
    LOG.clear()
    outcomes, settings = rand_case(rng)
    tag = f'[{position}/{mode}]'

    def fail_exp(exc):
        return ('error', exc) if issubclass(exc, Exception) else ('raised', exc)

    if position == 'single':
        N = mk('N', {}, mode, outcomes, settings=settings, plain_params=('x',), value=lambda kw: ('N', kw['x']))
        res = await run_chart(build_dag_single(N), dict(x=1))
        check(tag, 'N', outcomes, settings, res,
              lambda k, e: ('value', ('N', 1)) if k == 'ok' else ('value', 'default-N') if k == 'default' else fail_exp(e),
              problems)

    elif position == 'input':
        N = mk('N', {}, mode, outcomes, settings=settings, plain_params=('x',), value=lambda kw: ('N', kw['x']))
        O = mk('O', {'n': Input(N)}, 'async', value=lambda kw: ('O', kw['n']))
        res = await run_chart(build_dag(N, O), dict(x=1))
        check(tag, 'N', outcomes, settings, res,
              lambda k, e: ('value', ('O', ('N', 1))) if k == 'ok' else ('value', ('O', 'default-N')) if k == 'default' else fail_exp(e),
              problems)

    elif position == 'middle_rhombus':
        I = mk('I', {}, 'async', plain_params=('x',), value=lambda kw: kw['x'])
        N = mk('N', {'i': Input(I)}, mode, outcomes, settings=settings, value=lambda kw: ('N', kw['i']))
        A = mk('A', {'n': Input(N)}, 'async', value=lambda kw: ('A', kw['n']))
        B = mk('B', {'n': Input(N), 'i': Input(I)}, 'thread', value=lambda kw: ('B', kw['n']))
        O = mk('O', {'a': Input(A), 'b': Input(B)}, 'async', value=lambda kw: ('O', kw['a'], kw['b']))
        res = await run_chart(build_dag(I, O), dict(x=1))

        def exp(k, e):
            if k == 'fail':
                return fail_exp(e)
            v = ('N', 1) if k == 'ok' else 'default-N'
            return ('value', ('O', ('A', v), ('B', v)))
        check(tag, 'N', outcomes, settings, res, exp, problems)

    elif position == 'output':
        I = mk('I', {}, 'async', plain_params=('x',), value=lambda kw: kw['x'])
        N = mk('N', {'i': Input(I)}, mode, outcomes, settings=settings, value=lambda kw: ('N', kw['i']))
        res = await run_chart(build_dag(I, N), dict(x=1))
        check(tag, 'N', outcomes, settings, res,
              lambda k, e: ('value', ('N', 1)) if k == 'ok' else ('value', 'default-N') if k == 'default' else fail_exp(e),
              problems)

    elif position in ('oneof_first', 'oneof_helper'):
        I = mk('I', {}, 'async', plain_params=('x',), value=lambda kw: kw['x'])
        if position == 'oneof_first':
            N = mk('N', {'i': Input(I)}, mode, outcomes, settings=settings, value=lambda kw: ('N', kw['i']))
            C1 = N
        else:
            N = mk('N', {'i': Input(I)}, mode, outcomes, settings=settings, value=lambda kw: ('N', kw['i']))
            C1 = mk('C1', {'n': Input(N)}, 'async', value=lambda kw: ('C1', kw['n']))
        C2 = mk('C2', {'i': Input(I)}, 'async', value=lambda kw: 'C2')
        O = mk('O', {'v': InputOneOf([C1, C2])}, 'async', value=lambda kw: ('O', kw['v']))
        res = await run_chart(build_dag(I, O), dict(x=1))

        def exp(k, e):
            if k == 'fail':
                if not issubclass(e, Exception):
                    return ('raised', e)
                return ('value', ('O', 'C2'))
            v = ('N', 1) if k == 'ok' else 'default-N'
            if position == 'oneof_helper':
                v = ('C1', v)
            return ('value', ('O', v))
        check(tag, 'N', outcomes, settings, res, exp, problems)

    elif position == 'oneof_second':
        I = mk('I', {}, 'async', plain_params=('x',), value=lambda kw: kw['x'])
        C1 = mk('C1', {'i': Input(I)}, 'async', outcomes=[EA])
        N = mk('N', {'i': Input(I)}, mode, outcomes, settings=settings, value=lambda kw: ('N', kw['i']))
        O = mk('O', {'v': InputOneOf([C1, N])}, 'async', value=lambda kw: ('O', kw['v']))
        res = await run_chart(build_dag(I, O), dict(x=1))
        from ml_pipeline_engine.dag.errors import OneOfDoesNotHaveResultError

        def exp(k, e):
            if k == 'fail':
                if not issubclass(e, Exception):
                    return ('raised', e)
                return ('error', OneOfDoesNotHaveResultError)
            v = ('N', 1) if k == 'ok' else 'default-N'
            return ('value', ('O', v))
        check(tag, 'N', outcomes, settings, res, exp, problems)

    elif position in ('switch_decider', 'switch_case'):
        I = mk('I', {}, 'async', plain_params=('x',), value=lambda kw: kw['x'])
        if position == 'switch_decider':
            N = mk('N', {'i': Input(I)}, mode, outcomes, settings=settings, value=lambda kw: 'a')
            CA = mk('CA', {'i': Input(I)}, 'async', value=lambda kw: 'CA')
            CD = mk('CD', {'i': Input(I)}, 'async', value=lambda kw: 'CD')
            O = mk('O', {'v': SwitchCase(name=f'sw{next(_counter)}', switch=N, cases=[('a', CA), ('default-N', CD)])},
                   'async', value=lambda kw: ('O', kw['v']))
            res = await run_chart(build_dag(I, O), dict(x=1))
            check(tag, 'N', outcomes, settings, res,
                  lambda k, e: ('value', ('O', 'CA')) if k == 'ok' else ('value', ('O', 'CD')) if k == 'default' else fail_exp(e),
                  problems)
        else:
            S = mk('S', {'i': Input(I)}, 'async', value=lambda kw: 'a')
            N = mk('N', {'i': Input(I)}, mode, outcomes, settings=settings, value=lambda kw: ('N', kw['i']))
            CB = mk('CB', {'i': Input(I)}, 'async', value=lambda kw: 'CB')
            O = mk('O', {'v': SwitchCase(name=f'sw{next(_counter)}', switch=S, cases=[('a', N), ('b', CB)])},
                   'async', value=lambda kw: ('O', kw['v']))
            res = await run_chart(build_dag(I, O), dict(x=1))
            check(tag, 'N', outcomes, settings, res,
                  lambda k, e: ('value', ('O', ('N', 1))) if k == 'ok' else ('value', ('O', 'default-N')) if k == 'default' else fail_exp(e),
                  problems)

    elif position in ('rec_inner_first_iter',):
        # the node is inside a recurrent subgraph, behaves according to outcomes in the first iteration
        I = mk('I', {}, 'async', plain_params=('x',), value=lambda kw: kw['x'])
        S = mk('S', {'i': Input(I)}, 'async', plain_params=('additional_data',),
               value=lambda kw: ('S', kw['additional_data']))
        S.process.__annotations__['additional_data'] = t.Optional[int]
        S.process.__defaults__ = (None,)
        N = mk('N', {'s': Input(S)}, mode, outcomes, settings=settings, value=lambda kw: ('N', kw['s']))

        def post(self, res, kwargs, state):
            if state['n'] == 1:
                return self.next_iteration(7)
            return res
        D = mk('D', {'n': Input(N)}, 'async', value=lambda kw: ('D', kw['n']), base=RecurrentProcessor, post=post)
        O = mk('O', {'d': RecurrentSubGraph(start_node=S, dest_node=D, max_iterations=3)}, 'async',
               value=lambda kw: ('O', kw['d']))
        res = await run_chart(build_dag(I, O), dict(x=1))
        # first iteration consumes outcomes; second iteration: the remaining outcomes
        n1, k1, e1 = model(outcomes, settings)
        calls = [e for e in LOG if e[0] == 'call' and e[1] == 'N']
        if k1 == 'fail':
            exp = fail_exp(e1)
            expn = n1
        else:
            rest = outcomes[n1:]
            n2, k2, e2 = model(rest, settings)
            expn = n1 + n2
            if k2 == 'fail':
                exp = fail_exp(e2)
            else:
                v = ('N', ('S', 7)) if k2 == 'ok' else 'default-N'
                exp = ('value', ('O', ('D', v)))
        if res == 'TIMEOUT':
            got = 'TIMEOUT'
        elif isinstance(res, tuple):
            got = ('raised', type(res[1]))
        elif res.error is not None:
            got = ('error', type(res.error))
        else:
            got = ('value', res.value)
        desc = f'{tag} outcomes={[getattr(o, "__name__", o) for o in outcomes]} settings={settings}'
        if got != exp:
            problems.append(f'{desc}: got {got} expected {exp}')
        if len(calls) != expn:
            problems.append(f'{desc}: invocations {len(calls)} expected {expn}')


POSITIONS = ['single', 'input', 'middle_rhombus', 'output', 'oneof_first', 'oneof_helper', 'oneof_second',
             'switch_decider', 'switch_case', 'rec_inner_first_iter']
MODES = ['async', 'thread', 'non_async']


async def main():
    seed = int(sys.argv[1]) if len(sys.argv) > 1 else 0
    n = int(sys.argv[2]) if len(sys.argv) > 2 else 300
    rng = random.Random(seed)
    problems: t.List[str] = []
    for i in range(n):
        pos = rng.choice(POSITIONS if len(sys.argv) < 4 else sys.argv[3].split(','))
        mode = rng.choice(MODES)
        await scenario(rng, pos, mode, problems)
    seen = set()
    for p in problems:
        key = p
        if key in seen:
            continue
        seen.add(key)
        print(p)
    print('problems:', len(problems))


asyncio.run(main())
