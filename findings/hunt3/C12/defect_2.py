"""
Defect 2: `exceptions = ()` (retry nothing) is read as "not configured" and every Exception is retried.

RetryProtocol.exceptions is Optional[Tuple[Type[BaseException], ...]]; the empty tuple is a legal value that matches
no exception (`except ():` catches nothing). NodeRetryPolicy.exceptions uses `self.node.exceptions or (Exception,)`.
"""
import asyncio
import logging
import os
import sys
import time

sys.path.insert(0, os.getcwd())
logging.disable(logging.CRITICAL)

from ml_pipeline_engine.chart import PipelineChart
from ml_pipeline_engine.dag_builders.annotation import build_dag
from ml_pipeline_engine.dag_builders.annotation.marks import Input
from ml_pipeline_engine.node import ProcessorBase

CALLS = []


class In(ProcessorBase):
    async def process(self, x: int) -> int:
        return x


class Base(ProcessorBase):
    """Project-wide base: three attempts, 0.2 s apart."""
    attempts = 3
    delay = 0.2


class NotIdempotent(Base):
    # This node must never be repeated: the subclass switches the retry off by naming no exception class.
    exceptions = ()

    async def process(self, x: Input(In)) -> int:
        CALLS.append(time.monotonic())
        raise ValueError('payment rejected')


async def main() -> int:
    started = time.monotonic()
    result = await asyncio.wait_for(PipelineChart('m', build_dag(In, NotIdempotent)).run(input_kwargs=dict(x=1)), 10)
    elapsed = time.monotonic() - started

    print('expected: 1 invocation (no exception class matches the empty setting), error=ValueError, no delay')
    print(f'observed: {len(CALLS)} invocation(s), error={result.error!r}, elapsed={elapsed:.2f}s')

    if len(CALLS) != 1:
        print('DEFECT: exceptions=() is replaced by (Exception,): a non-retryable error is retried')
        return 1
    return 0


if __name__ == '__main__':
    sys.exit(asyncio.run(main()))
