"""
Observation (not counted as a defect of its own): process() may be a coroutine function, get_default() may not.
run_node_default calls get_default without awaiting, so an async node that declares `async def get_default` yields
a coroutine object as its value (and "coroutine ... was never awaited").
"""
import asyncio
import logging
import os
import sys

sys.path.insert(0, os.getcwd())
logging.disable(logging.CRITICAL)

from ml_pipeline_engine.chart import PipelineChart
from ml_pipeline_engine.dag_builders.annotation import build_dag
from ml_pipeline_engine.dag_builders.annotation.marks import Input
from ml_pipeline_engine.node import ProcessorBase


class In(ProcessorBase):
    async def process(self, x: int) -> int:
        return x


class Remote(ProcessorBase):
    use_default = True

    async def process(self, x: Input(In)) -> int:
        raise ConnectionError('down')

    async def get_default(self, **kwargs) -> int:
        return 42


class Out(ProcessorBase):
    async def process(self, v: Input(Remote)):
        return v


async def main() -> int:
    result = await asyncio.wait_for(PipelineChart('m', build_dag(In, Out)).run(input_kwargs=dict(x=1)), 10)
    print('expected: value 42')
    print(f'observed: value {result.value!r}')
    if asyncio.iscoroutine(result.value):
        result.value.close()
        return 1
    return 0


if __name__ == '__main__':
    sys.exit(asyncio.run(main()))
