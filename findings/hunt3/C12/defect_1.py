"""
Defect 1: the retry policy configured on the DAG (DAG.retry_policy) is never used.

DAG is a public dataclass with the field `retry_policy: Type[RetryPolicyLike] = NodeRetryPolicy` (DAGLike declares it
as well). A DAG that is given another policy class must apply it; the scheduler builds NodeRetryPolicy itself.
"""
import asyncio
import dataclasses
import logging
import os
import sys

sys.path.insert(0, os.getcwd())
logging.disable(logging.CRITICAL)

from ml_pipeline_engine.chart import PipelineChart
from ml_pipeline_engine.dag_builders.annotation import build_dag
from ml_pipeline_engine.dag_builders.annotation.marks import Input
from ml_pipeline_engine.node import ProcessorBase
from ml_pipeline_engine.types import RetryPolicyLike

CALLS = []
POLICY_INSTANCES = []


class FlakyError(Exception):
    pass


@dataclasses.dataclass(frozen=True)
class ThreeAttemptsPolicy(RetryPolicyLike):
    """Every node of the dag gets 3 attempts for FlakyError, without a delay."""
    node: type

    def __post_init__(self):
        POLICY_INSTANCES.append(self.node)

    @property
    def delay(self):
        return 0

    @property
    def attempts(self):
        return 3

    @property
    def exceptions(self):
        return (FlakyError,)


class In(ProcessorBase):
    async def process(self, x: int) -> int:
        return x


class Flaky(ProcessorBase):
    # no node-level settings: the dag-level policy decides
    async def process(self, x: Input(In)) -> int:
        CALLS.append(x)
        if len(CALLS) < 3:
            raise FlakyError(f'attempt {len(CALLS)}')
        return x * 10


async def main() -> int:
    dag = build_dag(In, Flaky)
    dag = dataclasses.replace(dag, retry_policy=ThreeAttemptsPolicy)   # same as DAG(..., retry_policy=...)
    assert dag.retry_policy is ThreeAttemptsPolicy

    result = await asyncio.wait_for(PipelineChart('m', dag).run(input_kwargs=dict(x=1)), 10)

    print('expected: the policy class of the dag is instantiated for the node, 3 invocations, value=10, error=None')
    print(f'observed: policy instantiated for {POLICY_INSTANCES}, {len(CALLS)} invocation(s), '
          f'value={result.value!r}, error={result.error!r}')

    if len(CALLS) != 3 or result.value != 10 or not POLICY_INSTANCES:
        print('DEFECT: DAG.retry_policy is ignored, the scheduler always uses NodeRetryPolicy')
        return 1
    return 0


if __name__ == '__main__':
    sys.exit(asyncio.run(main()))
