import asyncio, os, sys, time, threading, tempfile
sys.path.insert(0, os.getcwd())
import logging; logging.disable(logging.CRITICAL)
from concurrent.futures import ThreadPoolExecutor, ProcessPoolExecutor
from multiprocessing import get_context, Manager
from ml_pipeline_engine.chart import PipelineChart
from ml_pipeline_engine.dag_builders.annotation import build_dag
from ml_pipeline_engine.dag_builders.annotation.marks import Input
from ml_pipeline_engine.node import ProcessorBase
from ml_pipeline_engine.parallelism import threads_pool_registry, process_pool_registry

MODE = sys.argv[1]
DIR = tempfile.mkdtemp()
tags = ('process',) if MODE == 'process' else ()

class A(ProcessorBase):
    async def process(self, x: int) -> int:
        return x

class B1(ProcessorBase):
    tags = tags
    def process(self, a: Input(A)) -> int:
        open(os.path.join(DIR, 'B1.start'), 'w').write(str(time.time()))
        time.sleep(0.5)
        return 1

class B2(ProcessorBase):
    tags = tags
    def process(self, a: Input(A)) -> int:
        open(os.path.join(DIR, 'B2.start'), 'w').write(str(time.time()))
        time.sleep(0.5)
        return 2

class B3(ProcessorBase):
    tags = tags
    def process(self, a: Input(A)) -> int:
        open(os.path.join(DIR, 'B3.start'), 'w').write(str(time.time()))
        time.sleep(0.5)
        return 2

class F(ProcessorBase):
    async def process(self, a: Input(A)) -> int:
        await asyncio.sleep(0.1)
        raise ValueError('F')

class O(ProcessorBase):
    async def process(self, b1: Input(B1), b2: Input(B2), b3: Input(B3), f: Input(F)) -> int:
        return 0

async def main():
    if MODE == 'process':
        process_pool_registry.register_manager(Manager())
        process_pool_registry.register_pool_executor(ProcessPoolExecutor(max_workers=1, mp_context=get_context('fork')))
    else:
        threads_pool_registry.register_pool_executor(ThreadPoolExecutor(max_workers=1))
    chart = PipelineChart('m', build_dag(A, O))
    r = await chart.run(input_kwargs=dict(x=1))
    t_end = time.time()
    print('run ended with', repr(r.error))
    await asyncio.sleep(2.0)
    for n in ('B1', 'B2', 'B3'):
        p = os.path.join(DIR, n + '.start')
        if os.path.exists(p):
            ts = float(open(p).read())
            print(n, 'started', round(ts - t_end, 3), 's relative to the end of the run')
        else:
            print(n, 'never started')
asyncio.run(main())
