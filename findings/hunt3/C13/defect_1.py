"""
defect 1 - a process-pool node body is STARTED after the run has ended.

Pipeline:  A -> {P1, P2, P3 (tags=process, 0.5 s each), F (coroutine, fails after 0.1 s)} -> O
Pool:      ProcessPoolExecutor(max_workers=1) registered in process_pool_registry (a legal configuration;
           with the default pool the same happens as soon as more process nodes are ready than there are CPUs).

Two variants are run: (a) the run is ended early by the failure of F, (b) the caller cancels the run.
Expected: after chart.run() returned / raised CancelledError no further node body is started
          (that is what happens with the thread pool: the queued bodies are withdrawn).
Observed: one of the queued process bodies starts ~0.4 s AFTER the run ended.
"""
import asyncio
import logging
import os
import sys
import tempfile
import time

sys.path.insert(0, os.getcwd())
logging.disable(logging.CRITICAL)

from concurrent.futures import ProcessPoolExecutor  # noqa: E402
from multiprocessing import Manager  # noqa: E402
from multiprocessing import get_context  # noqa: E402

from ml_pipeline_engine.chart import PipelineChart  # noqa: E402
from ml_pipeline_engine.dag_builders.annotation import build_dag  # noqa: E402
from ml_pipeline_engine.dag_builders.annotation.marks import Input  # noqa: E402
from ml_pipeline_engine.node import ProcessorBase  # noqa: E402
from ml_pipeline_engine.parallelism import process_pool_registry  # noqa: E402

DIR = tempfile.mkdtemp()
FAIL = {'on': True}


def started(name: str) -> None:
    with open(os.path.join(DIR, name), 'a') as f:
        f.write(f'{time.time()}\n')


class A(ProcessorBase):
    async def process(self, x: int) -> int:
        return x


class P1(ProcessorBase):
    tags = ('process',)

    def process(self, a: Input(A)) -> int:
        started('P1')
        time.sleep(0.5)
        return 1


class P2(ProcessorBase):
    tags = ('process',)

    def process(self, a: Input(A)) -> int:
        started('P2')
        time.sleep(0.5)
        return 2


class P3(ProcessorBase):
    tags = ('process',)

    def process(self, a: Input(A)) -> int:
        started('P3')
        time.sleep(0.5)
        return 3


class F(ProcessorBase):
    async def process(self, a: Input(A)) -> int:
        await asyncio.sleep(0.1)
        if FAIL['on']:
            raise ValueError('F failed')
        await asyncio.sleep(10)
        return 0


class O(ProcessorBase):
    async def process(self, p1: Input(P1), p2: Input(P2), p3: Input(P3), f: Input(F)) -> int:
        return p1 + p2 + p3 + f


def starts() -> list:
    out = []
    for name in ('P1', 'P2', 'P3'):
        path = os.path.join(DIR, name)
        if os.path.exists(path):
            out += [(name, float(line)) for line in open(path).read().split()]
            os.unlink(path)
    return sorted(out, key=lambda p: p[1])


async def variant(title: str, cancel: bool) -> bool:
    chart = PipelineChart('m', build_dag(A, O))
    FAIL['on'] = not cancel
    task = asyncio.ensure_future(chart.run(input_kwargs=dict(x=1)))
    if cancel:
        await asyncio.sleep(0.1)
        task.cancel()
    try:
        result = await task
        how = f'returned error={result.error!r}'
    except asyncio.CancelledError:
        how = 'raised CancelledError'
    t_end = time.time()
    await asyncio.sleep(2.0)  # let the pool drain

    late = [(n, round(ts - t_end, 3)) for n, ts in starts() if ts > t_end]
    print(f'[{title}] run {how}')
    print(f'[{title}] expected: no node body started after the end of the run')
    print(f'[{title}] observed: bodies started after the end of the run: {late or "none"}')
    return bool(late)


async def main() -> int:
    process_pool_registry.register_manager(Manager())
    process_pool_registry.register_pool_executor(
        ProcessPoolExecutor(max_workers=1, mp_context=get_context('fork')),
    )
    bad = await variant('failure ends the run', cancel=False)
    bad = await variant('caller cancels the run', cancel=True) or bad
    print('DEFECT' if bad else 'ok')
    return 1 if bad else 0


if __name__ == '__main__':
    code = asyncio.run(main())
    process_pool_registry.shutdown()
    sys.exit(code)
