"""Random pipelines: after the run ended (value / error / cancel) nothing may be left or start."""
import asyncio
import os
import random
import sys
import typing as t

sys.path.insert(0, os.getcwd())

import logging
logging.disable(logging.CRITICAL)

from ml_pipeline_engine.chart import PipelineChart
from ml_pipeline_engine.dag_builders.annotation import build_dag
from ml_pipeline_engine.dag_builders.annotation.marks import Input, InputOneOf, SwitchCase, RecurrentSubGraph
from ml_pipeline_engine.node import ProcessorBase, RecurrentProcessor
from ml_pipeline_engine.node.enums import NodeTag
from ml_pipeline_engine.parallelism import threads_pool_registry
from ml_pipeline_engine.artifact_store.store.base import ArtifactStore

threads_pool_registry.auto_init()

STATE = {'ended': False, 'late': [], 'log': [], 'calls': {}}


def mark(what):
    STATE['log'].append(what)
    if STATE['ended']:
        STATE['late'].append(what)


async def ticks(n):
    for _ in range(n):
        await asyncio.sleep(0)


def make_events(rnd):
    n1, n2 = rnd.randint(0, 2), rnd.randint(0, 2)

    class Events:
        async def on_pipeline_start(self, ctx):
            mark('ev:pstart')

        async def on_pipeline_complete(self, ctx, result):
            mark('ev:pcomplete')
            await ticks(1)

        async def on_node_start(self, ctx, node_id):
            mark(f'ev:start:{node_id}')
            await ticks(n1)

        async def on_node_complete(self, ctx, node_id, error):
            mark(f'ev:complete:{node_id}')
            await ticks(n2)
    return Events


def make_store(rnd):
    n = rnd.randint(0, 3)
    fail_p = rnd.choice([0, 0, 0.1])

    class Store(ArtifactStore):
        async def save(self, node_id, data):
            mark(f'save:{node_id}')
            await ticks(n)
            if rnd.random() < fail_p:
                raise OSError('disk')

        async def load(self, node_id):
            raise NotImplementedError
    return Store


def gen(seed):
    rnd = random.Random(seed)
    n = rnd.randint(4, 9)
    classes = []
    ancestors = []  # set of indices

    for i in range(n):
        name = f'n{i}s{seed}'
        ann = {}
        anc = set()
        is_rec_dest = False
        if i == 0:
            ann['x'] = int
        else:
            for p in range(rnd.randint(1, 3)):
                kind = rnd.choice(['in', 'in', 'in', 'oneof', 'switch', 'rec'])
                pn = f'p{p}'
                if kind == 'in' or i < 3:
                    j = rnd.randrange(i)
                    ann[pn] = Input(classes[j]); anc |= {j} | ancestors[j]
                elif kind == 'oneof':
                    js = rnd.sample(range(1, i), min(i - 1, rnd.randint(2, 3)))
                    ann[pn] = InputOneOf([classes[j] for j in js])
                    for j in js:
                        anc |= {j} | ancestors[j]
                elif kind == 'switch':
                    js = rnd.sample(range(i), min(i, rnd.randint(2, 3)))
                    sw, cases = js[0], js[1:]
                    classes[sw]._labels = [f'l{c}' for c in cases] + (['nolabel'] if rnd.random() < 0.1 else [])
                    ann[pn] = SwitchCase(switch=classes[sw], cases=[(f'l{c}', classes[c]) for c in cases],
                                         name=f'sw{i}_{p}_s{seed}')
                    for j in js:
                        anc |= {j} | ancestors[j]
                else:
                    dest = rnd.randrange(1, i)
                    if not ancestors[dest]:
                        j = rnd.randrange(i)
                        ann[pn] = Input(classes[j]); anc |= {j} | ancestors[j]
                        continue
                    start = rnd.choice(sorted(ancestors[dest]))
                    classes[dest]._rec_times = rnd.randint(1, 3)
                    ann[pn] = RecurrentSubGraph(start_node=classes[start], dest_node=classes[dest],
                                                max_iterations=rnd.randint(1, 3))
                    anc |= {dest} | ancestors[dest]
        mode = rnd.choice(['async', 'async', 'async', 'non_async'])
        nt = rnd.randint(0, 4)
        fail = rnd.random() < 0.25
        fail_times = rnd.choice([1, 1, 99])
        ret = rnd.choice([1, 1, 1, None, 0])

        def make_body(name=name, nt=nt, fail=fail, fail_times=fail_times, ret=ret, mode=mode):
            def common(self):
                c = STATE['calls'][name] = STATE['calls'].get(name, 0) + 1
                return c

            def finish(self, c):
                if fail and c <= fail_times:
                    raise ValueError(name)
                rt = getattr(type(self), '_rec_times', 0)
                if rt and c <= rt:
                    return self.next_iteration(c)
                labels = getattr(type(self), '_labels', None)
                if labels:
                    return labels[c % len(labels)]
                return ret

            if mode == 'async':
                async def process(self, **kw):
                    mark(f'body:{name}')
                    c = common(self)
                    await ticks(nt)
                    return finish(self, c)
            else:
                def process(self, **kw):
                    mark(f'body:{name}')
                    c = common(self)
                    return finish(self, c)
            return process

        body = make_body()
        ann2 = dict(ann)
        ann2['additional_data'] = t.Optional[int]
        body.__annotations__ = ann2
        attrs = dict(name=name, process=body)
        if mode == 'non_async':
            attrs['tags'] = (NodeTag.non_async,)
        if rnd.random() < 0.3:
            attrs['use_default'] = True
            attrs['get_default'] = lambda self, **kw: 7
        if rnd.random() < 0.3:
            attrs['attempts'] = rnd.randint(2, 3)
            attrs['delay'] = rnd.choice([0, 0.001])
        cls = type(f'N{i}', (RecurrentProcessor,), attrs)
        classes.append(cls)
        ancestors.append(anc)

    dag = build_dag(classes[0], classes[-1])
    chart = PipelineChart('m', dag,
                          artifact_store=make_store(rnd) if rnd.random() < 0.5 else None,
                          event_managers=[make_events(rnd)] if rnd.random() < 0.5 else [])
    return chart


async def check(me, problems):
    STATE['ended'] = True
    for _ in range(40):
        await asyncio.sleep(0)
    await asyncio.sleep(0.01)
    left = [x for x in asyncio.all_tasks() if x is not me and not x.done()]
    if left:
        problems.append(f'tasks left: {[x.get_name() for x in left]}')
        for x in left:
            x.cancel()
        await asyncio.sleep(0.01)
    if STATE['late']:
        problems.append(f'late activity: {STATE["late"]}')


async def run_seed(seed, cancel_at=None):
    me = asyncio.current_task()
    try:
        chart = gen(seed)
    except Exception as e:  # builder problems
        return 'build:' + type(e).__name__, []
    STATE.update(ended=False, late=[], log=[], calls={})
    problems = []
    task = asyncio.ensure_future(chart.run(input_kwargs=dict(x=1)))
    outcome = None
    if cancel_at is None:
        done, _ = await asyncio.wait([task], timeout=0.5)
        if not done:
            outcome = 'hang'
            task.cancel()
            for _ in range(20):
                if task.done():
                    break
                await asyncio.sleep(0)
            if not task.done():
                problems.append('cancel of a hung run did not end it in 20 steps')
                task.cancel()
            elif not task.cancelled():
                problems.append(f'cancel surfaced as {task.exception()!r}')
        else:
            try:
                r = task.result()
                outcome = 'value' if r.error is None else 'error:' + type(r.error).__name__
            except BaseException as e:
                outcome = 'raised:' + type(e).__name__
    else:
        for _ in range(cancel_at):
            if task.done():
                break
            await asyncio.sleep(0)
        if task.done():
            outcome = 'finished'
            task.exception()
        else:
            outcome = 'cancelled'
            task.cancel()
            for _ in range(20):
                if task.done():
                    break
                await asyncio.sleep(0)
            if not task.done():
                problems.append('cancel did not end the run in 20 steps')
            elif not task.cancelled():
                problems.append(f'cancel surfaced as {task.exception()!r}')
    await check(me, problems)
    return outcome, problems


async def main():
    lo, hi = int(sys.argv[1]), int(sys.argv[2])
    stats = {}
    for seed in range(lo, hi):
        outcome, problems = await run_seed(seed)
        stats[outcome] = stats.get(outcome, 0) + 1
        if problems:
            print('seed', seed, outcome, problems)
        if outcome.startswith('build'):
            continue
        for k in (1, 3, 5, 8, 12, 17, 23, 30, 40, 55, 80):
            o, problems = await run_seed(seed, cancel_at=k)
            if problems:
                print('seed', seed, 'cancel_at', k, o, problems)
            if o == 'finished':
                break
    print(stats)


loop = asyncio.new_event_loop()
loop.set_exception_handler(lambda l, c: None)
loop.run_until_complete(main())
