import asyncio, os, sys
sys.path.insert(0, os.getcwd())
import logging; logging.disable(logging.CRITICAL)
from ml_pipeline_engine.chart import PipelineChart
from ml_pipeline_engine.dag_builders.annotation import build_dag
from ml_pipeline_engine.dag_builders.annotation.marks import Input, InputOneOf
from ml_pipeline_engine.node import ProcessorBase

class Abort(BaseException): pass
LOG = []
class A(ProcessorBase):
    async def process(self, x: int) -> int:
        return x
class B(ProcessorBase):
    attempts = 3
    use_default = True
    def get_default(self, **kw): return 5
    async def process(self, a: Input(A)) -> int:
        LOG.append('B start')
        try:
            await asyncio.sleep(1)
        finally:
            LOG.append('B end')
        return 1
class F(ProcessorBase):
    async def process(self, a: Input(A)) -> int:
        await asyncio.sleep(0.05)
        raise Abort('x')
class G(ProcessorBase):
    async def process(self, a: Input(A)) -> int:
        return 3
class O(ProcessorBase):
    async def process(self, b: Input(B), f: InputOneOf([F, G])) -> int:
        return b + f
async def main():
    chart = PipelineChart('m', build_dag(A, O))
    try:
        r = await asyncio.wait_for(chart.run(input_kwargs=dict(x=1)), 3)
        print('result', r)
    except BaseException as e:
        print('raised', repr(e))
    await asyncio.sleep(0.1)
    print(LOG, [t.get_name() for t in asyncio.all_tasks() if t is not asyncio.current_task()])
asyncio.run(main())
