"""Cancellation fuzz: cancel the run at every loop step and look for leftovers."""
import asyncio
import os
import sys
sys.path.insert(0, os.getcwd())
import sys
import typing as t

from ml_pipeline_engine.chart import PipelineChart
from ml_pipeline_engine.dag_builders.annotation import build_dag
from ml_pipeline_engine.dag_builders.annotation.marks import Input, InputOneOf, SwitchCase, RecurrentSubGraph
from ml_pipeline_engine.node import ProcessorBase, RecurrentProcessor
from ml_pipeline_engine.parallelism import threads_pool_registry
from ml_pipeline_engine.artifact_store.store.base import ArtifactStore

threads_pool_registry.auto_init()

STATE = {'ended': False, 'late': [], 'log': []}


def mark(what):
    STATE['log'].append(what)
    if STATE['ended']:
        STATE['late'].append(what)


async def ticks(n=2):
    for _ in range(n):
        await asyncio.sleep(0)


class Events:
    async def on_pipeline_start(self, ctx):
        mark('ev:pstart')
        await ticks(1)

    async def on_pipeline_complete(self, ctx, result):
        mark('ev:pcomplete')
        await ticks(1)

    async def on_node_start(self, ctx, node_id):
        mark(f'ev:start:{node_id}')
        await ticks(1)

    async def on_node_complete(self, ctx, node_id, error):
        mark(f'ev:complete:{node_id}')
        await ticks(1)


class Store(ArtifactStore):
    async def save(self, node_id, data):
        mark(f'save:{node_id}')
        await ticks(2)

    async def load(self, node_id):
        raise NotImplementedError


# ---------------------------------------------------------------- pipelines
def p_rhombus():
    class A(ProcessorBase):
        async def process(self, x: int) -> int:
            mark('body:A'); await ticks(); return x

    class B(ProcessorBase):
        async def process(self, a: Input(A)) -> int:
            mark('body:B'); await ticks(3); return a + 1

    class C(ProcessorBase):
        def process(self, a: Input(A)) -> int:
            mark('body:C'); return a + 2

    class D(ProcessorBase):
        async def process(self, b: Input(B), c: Input(C)) -> int:
            mark('body:D'); await ticks(); return b + c

    return build_dag(A, D), dict(x=1)


def p_oneof():
    class A(ProcessorBase):
        async def process(self, x: int) -> int:
            mark('body:A'); await ticks(); return x

    class F1(ProcessorBase):
        async def process(self, a: Input(A)) -> int:
            mark('body:F1'); await ticks(); raise ValueError('f1')

    class F2(ProcessorBase):
        attempts = 2
        delay = 0.001

        async def process(self, a: Input(A)) -> int:
            mark('body:F2'); await ticks(); raise ValueError('f2')

    class G(ProcessorBase):
        async def process(self, a: Input(A)) -> int:
            mark('body:G'); await ticks(); return 5

    class O(ProcessorBase):
        async def process(self, v: InputOneOf([F1, F2, G]), a: Input(A)) -> int:
            mark('body:O'); await ticks(); return v + a

    return build_dag(A, O), dict(x=1)


def p_switch():
    class A(ProcessorBase):
        async def process(self, x: int) -> int:
            mark('body:A'); await ticks(); return x

    class S(ProcessorBase):
        async def process(self, a: Input(A)) -> str:
            mark('body:S'); await ticks(); return 'one'

    class C1(ProcessorBase):
        async def process(self, a: Input(A)) -> int:
            mark('body:C1'); await ticks(3); return 1

    class C2(ProcessorBase):
        async def process(self, a: Input(A)) -> int:
            mark('body:C2'); await ticks(); return 2

    sw = SwitchCase(switch=S, cases=[('one', C1), ('two', C2)], name='sw_fuzz')

    class O(ProcessorBase):
        async def process(self, v: sw, a: Input(A)) -> int:
            mark('body:O'); await ticks(); return v + a

    return build_dag(A, O), dict(x=1)


def p_recurrent():
    class A(RecurrentProcessor):
        async def process(self, x: int, additional_data: t.Optional[int] = None) -> int:
            mark('body:A'); await ticks(); return x if additional_data is None else additional_data

    class M(ProcessorBase):
        def process(self, a: Input(A)) -> int:
            mark('body:M'); return a

    class R(RecurrentProcessor):
        use_default = True

        def get_default(self, **kw):
            return 100

        async def process(self, m: Input(M)) -> int:
            mark('body:R'); await ticks()
            if m < 3:
                return self.next_iteration(m + 1)
            return m

    rec = RecurrentSubGraph(start_node=A, dest_node=R, max_iterations=5)

    class O(ProcessorBase):
        async def process(self, r: rec) -> int:
            mark('body:O'); await ticks(); return r

    return build_dag(A, O), dict(x=1)


def p_recurrent_default():
    class A(RecurrentProcessor):
        async def process(self, x: int, additional_data: t.Optional[int] = None) -> int:
            mark('body:A'); await ticks(); return x if additional_data is None else additional_data

    class R(RecurrentProcessor):
        use_default = True

        def get_default(self, **kw):
            return 100

        async def process(self, m: Input(A)) -> int:
            mark('body:R'); await ticks()
            return self.next_iteration(m + 1)

    rec = RecurrentSubGraph(start_node=A, dest_node=R, max_iterations=2)

    class O(ProcessorBase):
        async def process(self, r: rec) -> int:
            mark('body:O'); await ticks(); return r

    return build_dag(A, O), dict(x=1)


def p_fail():
    class A(ProcessorBase):
        async def process(self, x: int) -> int:
            mark('body:A'); await ticks(); return x

    class B(ProcessorBase):
        async def process(self, a: Input(A)) -> int:
            mark('body:B'); await ticks(6); return a + 1

    class C(ProcessorBase):
        attempts = 3
        delay = 0.001
        def process(self, a: Input(A)) -> int:
            mark('body:C'); raise ValueError('c')

    class B2(ProcessorBase):
        async def process(self, b: Input(B)) -> int:
            mark('body:B2'); await ticks(6); return b + 1

    class D(ProcessorBase):
        async def process(self, b: Input(B2), c: Input(C)) -> int:
            mark('body:D'); await ticks(); return b + c

    return build_dag(A, D), dict(x=1)


def p_oneof_nested_switch_rec():
    class A(RecurrentProcessor):
        async def process(self, x: int, additional_data: t.Optional[int] = None) -> int:
            mark('body:A'); await ticks(); return x if additional_data is None else additional_data

    class S(ProcessorBase):
        async def process(self, a: Input(A)) -> str:
            mark('body:S'); await ticks(); return 'one' if a < 2 else 'two'

    class C1(ProcessorBase):
        async def process(self, a: Input(A)) -> int:
            mark('body:C1'); await ticks(); return a

    class C2(ProcessorBase):
        async def process(self, a: Input(A)) -> int:
            mark('body:C2'); await ticks(); return a * 10

    sw = SwitchCase(switch=S, cases=[('one', C1), ('two', C2)], name='sw_fuzz2')

    class R(RecurrentProcessor):
        async def process(self, v: sw) -> int:
            mark('body:R'); await ticks()
            if v < 10:
                return self.next_iteration(v + 1)
            return v

    rec = RecurrentSubGraph(start_node=A, dest_node=R, max_iterations=4)

    class P(ProcessorBase):
        async def process(self, r: rec) -> int:
            mark('body:P'); await ticks(); return r

    class F(ProcessorBase):
        async def process(self, a: Input(A)) -> int:
            mark('body:F'); await ticks(); raise ValueError('F')

    class I1(ProcessorBase):
        async def process(self, v: InputOneOf([F, P])) -> int:
            mark('body:I1'); await ticks(); return v

    class O(ProcessorBase):
        async def process(self, v: InputOneOf([F, I1])) -> int:
            mark('body:O'); await ticks(); return v

    return build_dag(A, O), dict(x=1)


def p_threads():
    import time

    class A(ProcessorBase):
        def process(self, x: int) -> int:
            mark('body:A'); time.sleep(0.002); return x

    class B(ProcessorBase):
        def process(self, a: Input(A)) -> int:
            mark('body:B'); time.sleep(0.004); return a + 1

    class C(ProcessorBase):
        def process(self, a: Input(A)) -> int:
            mark('body:C'); time.sleep(0.001); return a + 2

    class D(ProcessorBase):
        def process(self, b: Input(B), c: Input(C)) -> int:
            mark('body:D'); time.sleep(0.001); return b + c

    return build_dag(A, D), dict(x=1)


PIPES = [p_rhombus, p_oneof, p_switch, p_recurrent, p_recurrent_default, p_fail, p_oneof_nested_switch_rec]


async def one(chart, kwargs, k, real=False):
    STATE['ended'] = False
    STATE['late'] = []
    STATE['log'] = []
    me = asyncio.current_task()
    task = asyncio.ensure_future(chart.run(input_kwargs=kwargs))
    for _ in range(k):
        if task.done():
            break
        await (asyncio.sleep(0.0005) if real else asyncio.sleep(0))
    finished_before = task.done()
    problems = []
    if not finished_before:
        task.cancel()
        for i in range(20):
            if task.done():
                break
            await asyncio.sleep(0)
        if not task.done():
            problems.append('cancel did not end the run within 20 steps')
            try:
                await asyncio.wait_for(task, 1)
            except BaseException as e:
                problems.append(f'  ... ended later with {e!r}')
        elif not task.cancelled():
            problems.append(f'cancel surfaced as {task.exception()!r} / result {task.result() if not task.exception() else None}')
    else:
        res = task.result()
    STATE['ended'] = True
    for _ in range(30):
        await asyncio.sleep(0)
    await asyncio.sleep(0.02)
    left = [x for x in asyncio.all_tasks() if x is not me and not x.done()]
    if left:
        problems.append(f'tasks left: {[x.get_name() for x in left]}')
        for x in left:
            x.cancel()
    if STATE['late']:
        problems.append(f'late activity: {STATE["late"]}')
    return finished_before, problems


async def main():
    bad = 0
    for pf in PIPES + [p_threads]:
        dag, kwargs = pf()
        for with_extras in (False, True):
            chart = PipelineChart(
                'm', dag,
                artifact_store=Store if with_extras else None,
                event_managers=[Events] if with_extras else [],
            )
            real = pf is p_threads
            # baseline
            r = await chart.run(input_kwargs=kwargs)
            print(pf.__name__, with_extras, 'baseline', r.value, repr(r.error))
            for k in range(0, 400):
                fin, problems = await one(chart, kwargs, k, real=real)
                if problems:
                    bad += 1
                    print(f'  k={k}: {problems}')
                    print('     log tail:', STATE['log'][-6:])
                if fin:
                    print('  finished at k =', k)
                    break
    print('bad', bad)


asyncio.run(main())
