import asyncio, sys, itertools
sys.path.insert(0, '_hunt')
from h import LOG, mknode, run, _COUNT
from ml_pipeline_engine.dag_builders.annotation.marks import Input, InputOneOf, RecurrentSubGraph, SwitchCase

async def case(j, zj, qd, variant, verbose=False):
    LOG.clear(); _COUNT.clear()
    ev = asyncio.Event()
    Inp = mknode('Inp', {}, lambda s, k, kw: 1)
    async def zbody(s, k, kw):
        await ev.wait()
        for _ in range(zj):
            await asyncio.sleep(0)
        return ('Z', k)
    Z = mknode('Z', {'x': Input(Inp)}, zbody)
    Q = mknode('Q', {'z': Input(Z)}, delay=qd)
    S = mknode('S', {'x': Input(Inp), 'additional_data': object}, rec=True)
    M = mknode('M', {'s': Input(S)}, lambda s, k, kw: ('M', k, kw['s']), rec=True)
    async def dbody(s, k, kw):
        if k == 0:
            ev.set()
            for _ in range(j):
                await asyncio.sleep(0)
            return s.next_iteration(('d', k))
        return ('D', k, kw['m'])
    D = mknode('D', {'m': Input(M)}, dbody, rec=True)
    C = mknode('C', {'v': RecurrentSubGraph(S, D, 3)}, lambda s, k, kw: ('C', kw['v']))
    if variant == 0:
        K = mknode('K', {'q': Input(Q), 'c': Input(C)})
    else:
        K = mknode('K', {'c': Input(C), 'q': Input(Q)})
    K2 = mknode('K2', {'x': Input(Inp)})
    Out = mknode('Out', {'c': Input(C), 'k': InputOneOf([K, K2])})
    r = await run(Inp, Out, {'x': 1}, timeout=2)
    probs = []
    last = {}; lastkw = {}
    for e in LOG:
        if e[0] == 'end':
            last[e[1]] = e[3]
        if e[0] == 'start':
            lastkw[e[1]] = e[3]
            for v in e[3].values():
                if v is None or type(v).__name__ == 'Recurrent':
                    probs.append((e[1], 'got', v))
            if e[1] == 'M' and e[3]['s'] != last.get('S'):
                probs.append(('M got', e[3]['s'], 'latest S', last.get('S')))
    if r != 'HANG' and r.error is None:
        if lastkw['M']['s'] != last['S']:
            probs.append(('FINAL M.s', lastkw['M']['s'], 'S final', last['S']))
        if lastkw['D']['m'] != last['M']:
            probs.append(('FINAL D.m', lastkw['D']['m'], 'M final', last['M']))
    return r, probs

async def main():
    for variant in (0, 1):
        for j in range(0, 9):
            for zj in range(0, 9):
                for qd in (0, 1, 2):
                    r, probs = await case(j, zj, qd, variant)
                    if probs or r == 'HANG':
                        print(variant, j, zj, qd, 'HANG' if r == 'HANG' else (r.value, r.error), probs)
if "show" not in sys.argv: asyncio.run(main())

async def show():
    from h import dump
    r, probs = await case(7, 6, 0, 1)
    print(r, probs); dump()
if 'show' in sys.argv:
    asyncio.run(show())
