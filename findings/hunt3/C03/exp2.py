"""(d)/(e)/(f): recurrent dest used as oneof candidate, switch case, plain input elsewhere; start == dest."""
import asyncio, sys
sys.path.insert(0, '_hunt')
from h import *  # noqa
from h import LOG, mknode, dump, run
from ml_pipeline_engine.dag_builders.annotation.marks import Input, InputOneOf, SwitchCase, RecurrentSubGraph
from ml_pipeline_engine.types import Recurrent

async def case_f():
    print('--- start == dest')
    Inp = mknode('Inp', {}, lambda s, k, kw: 1)
    D = mknode('D', {'x': Input(Inp), 'additional_data': object}, lambda s, k, kw: s.next_iteration(('d', k)) if k < 2 else ('D', k), rec=True, default=lambda kw: 'dflt')
    C = mknode('C', {'v': RecurrentSubGraph(D, D, 3)})
    print(await run(Inp, C, {'x': 1})); dump(); LOG.clear()

async def case_e():
    print('--- dest also consumed by plain input and as switch case and oneof candidate')
    from h import _COUNT; _COUNT.clear()
    Inp = mknode('Inp', {}, lambda s, k, kw: 1)
    S = mknode('S', {'x': Input(Inp), 'additional_data': object}, rec=True)
    D = mknode('D', {'x': Input(S)}, lambda s, k, kw: s.next_iteration(('d', k)) if k < 2 else ('D', k), rec=True, default=lambda kw: 'dflt', delay=2)
    C = mknode('C', {'v': RecurrentSubGraph(S, D, 3)})
    E = mknode('E', {'v': Input(D)})
    Dec = mknode('Dec', {'x': Input(Inp)}, lambda s, k, kw: 'a')
    Other = mknode('Other', {'x': Input(Inp)})
    F = mknode('F', {'v': SwitchCase(Dec, [('a', D), ('b', Other)], name='swF')})
    G = mknode('G', {'v': InputOneOf([D, Other])})
    Out = mknode('Out', {'c': Input(C), 'e': Input(E), 'f': Input(F), 'g': Input(G)})
    print(await run(Inp, Out, {'x': 1})); dump(); LOG.clear()

asyncio.run(case_f())
asyncio.run(case_e())
