"""Random pipelines of Input / SwitchCase / InputOneOf (no recurrent). Oracle = semantic evaluation."""
import asyncio
import random
import sys

sys.path.insert(0, '_hunt')
from h import run, slow_kwargs  # noqa

from ml_pipeline_engine.dag_builders.annotation.marks import Input, InputOneOf, SwitchCase  # noqa
from ml_pipeline_engine.node import ProcessorBase  # noqa

FAIL = 'FAIL'
NO_NESTED_FAIL = '--nonested' in sys.argv


class Boom(Exception):
    pass


def make(seed, n_nodes, p_fail, allow_fail_anywhere=False):
    rnd = random.Random(seed)
    specs = {}  # idx -> dict(params={name: (kind, ...)}, fail, delay, label)
    child_only = set()
    plain_used = set()
    classes = {}
    log = []

    def usable_plain(i):
        return [j for j in range(i) if j not in child_only]

    for i in range(n_nodes):
        params = {}
        if i > 0:
            n_params = rnd.randint(1, 3)
            used_sources = set()
            for p in range(n_params):
                kind = rnd.choice(['in', 'in', 'sw', 'oneof'])
                cands = [j for j in usable_plain(i) if j not in used_sources]
                if kind == 'in' and cands:
                    j = rnd.choice(cands)
                    used_sources.add(j)
                    plain_used.add(j)
                    params[f'p{p}'] = ('in', j)
                elif kind == 'sw' and len(cands) >= 3:
                    d, a, b = rnd.sample(cands, 3)
                    plain_used.update((d, a, b))
                    params[f'p{p}'] = ('sw', d, a, b)
                elif kind == 'oneof':
                    # children: nodes never used as plain elsewhere (and not the input node)
                    pool = [j for j in range(1, i) if j not in plain_used and j not in used_sources]
                    if len(pool) >= 2:
                        k = rnd.randint(2, min(3, len(pool)))
                        ch = rnd.sample(pool, k)
                        child_only.update(ch)
                        params[f'p{p}'] = ('oneof', *ch)
        specs[i] = dict(params=params, fail=False, delay=rnd.choice([0, 0, 1, 2, 5]), label=rnd.choice(['a', 'b']))

    def ancestors(i, acc):
        for p in specs[i]['params'].values():
            for j in p[1:]:
                if j not in acc:
                    acc.add(j)
                    ancestors(j, acc)
        return acc

    strict_anc_of_children = set()
    for k in child_only:
        strict_anc_of_children |= ancestors(k, set())

    for i in range(1, n_nodes):
        if (i in child_only or allow_fail_anywhere) and rnd.random() < p_fail:
            if NO_NESTED_FAIL and i in strict_anc_of_children:
                continue
            specs[i]['fail'] = True

    for i in range(n_nodes):
        spec = specs[i]
        ann = {}
        for pname, p in spec['params'].items():
            if p[0] == 'in':
                ann[pname] = Input(classes[p[1]])
            elif p[0] == 'sw':
                ann[pname] = SwitchCase(switch=classes[p[1]], cases=[(('tok', p[1], 'a'), classes[p[2]]), (('tok', p[1], 'b'), classes[p[3]])],
                                        name=f's{seed}_{i}_{pname}')
            else:
                ann[pname] = InputOneOf([classes[j] for j in p[1:]])

        def mk(i=i, spec=spec):
            async def process(self, **kwargs):
                log.append(('start', i, dict(kwargs)))
                for _ in range(spec['delay']):
                    await asyncio.sleep(0)
                if spec['fail']:
                    log.append(('fail', i))
                    raise Boom(f'n{i}')
                log.append(('end', i))
                return ('tok', i, spec['label'])
            return process

        proc = mk()
        proc.__annotations__ = dict(ann)
        classes[i] = type(f'N{seed}_{i}', (ProcessorBase,), {'process': proc, 'name': f'n{seed}_{i}'})

    return specs, classes, log


def oracle(specs):
    memo = {}

    def val(i):
        if i in memo:
            return memo[i]
        spec = specs[i]
        kw = {}
        ok = True
        for pname, p in spec['params'].items():
            v = pval(p)
            if v == FAIL:
                ok = False
            kw[pname] = v
        res = FAIL if (not ok or spec['fail']) else ('tok', i, spec['label'])
        memo[i] = (res, kw, ok)
        return memo[i]

    def pval(p):
        if p[0] == 'in':
            return val(p[1])[0]
        if p[0] == 'sw':
            d = val(p[1])[0]
            if d == FAIL:
                return FAIL
            return val(p[2] if d[2] == 'a' else p[3])[0]
        for j in p[1:]:
            v = val(j)[0]
            if v != FAIL:
                return v
        return FAIL

    return val


async def one(seed, n_nodes, p_fail, anywhere=False):
    specs, classes, log = make(seed, n_nodes, p_fail, anywhere)
    val = oracle(specs)
    out = n_nodes - 1
    res = await run(classes[0], classes[out], dict(x=1), timeout=3, **(slow_kwargs() if '--slow' in sys.argv else {}))
    problems = []
    exp_out = val(out)[0]
    if res == 'HANG':
        problems.append('HANG')
    else:
        if exp_out == FAIL:
            if res.error is None:
                problems.append(f'expected error, got value {res.value!r}')
        elif res.error is not None:
            problems.append(f'expected {exp_out}, got error {res.error!r}')
        elif res.value != exp_out:
            problems.append(f'expected {exp_out}, got {res.value!r}')
    starts = {}
    for ev in log:
        if ev[0] == 'start':
            i, kw = ev[1], ev[2]
            starts[i] = starts.get(i, 0) + 1
            if i == 0:
                if kw != dict(x=1):
                    problems.append(f'input node got {kw}')
                continue
            exp = val(i)[1]
            if kw != exp:
                problems.append(f'node {i} got {kw} expected {exp}')
    for i, c in starts.items():
        if c > 1:
            problems.append(f'node {i} started {c} times')
    return problems, specs


async def main():
    mode = sys.argv[1] if len(sys.argv) > 1 else 'nofail'
    lo, hi = int(sys.argv[2]), int(sys.argv[3])
    nn = int(sys.argv[4]) if len(sys.argv) > 4 else 9
    bad = 0
    for seed in range(lo, hi):
        p_fail = 0.0 if mode == 'nofail' else 0.4
        problems, specs = await one(seed, nn, p_fail, anywhere=(mode == 'anywhere'))
        if problems:
            bad += 1
            print('SEED', seed, problems[:4])
            if '-v' in sys.argv:
                for i, s in specs.items():
                    print('   ', i, s)
    print('bad', bad, 'of', hi - lo)

asyncio.run(main())
