import sys, os
sys.path.insert(0, os.getcwd())
from ml_pipeline_engine.dag.manager import DAGRunConcurrentManager as M
from ml_pipeline_engine.dag.storage import DAGNodeStorage as St
orig=M._run_node
async def rn(self, dag, node_id, force_default=False):
    print('   _run_node', node_id, '| dag:', dag.graph.get('name'), '| processed(visible)=', self._node_storage.exists_processed_node(node_id), 'processed(hidden too)=', self._node_storage.exists_processed_node(node_id, with_hidden=True))
    return await orig(self, dag=dag, node_id=node_id, force_default=force_default)
M._run_node=rn
oh=St.hide_last_execution
def hide(self,*ids):
    print('   HIDE', ids); return oh(self,*ids)
St.hide_last_execution=hide
exec(compile(open('_hunt/defect_1.py').read(),'d1','exec'))
