import sys, asyncio
sys.path.insert(0,'_hunt')
seed=int(sys.argv[1]); sys.argv=['x','0','1','3','--oneof']
src=open('_hunt/fuzz2.py').read().replace("asyncio.run(main())","")
exec(compile(src,'fuzz2','exec'))
from ml_pipeline_engine.dag.manager import DAGRunConcurrentManager as M
orig=M._run_node
async def rn(self, dag, node_id, force_default=False):
    print('RUN_NODE', node_id, '| dag:', dag.graph.get('name') if hasattr(dag,'graph') else dag, 'processed=', self._node_storage.exists_processed_node(node_id))
    return await orig(self, dag=dag, node_id=node_id, force_default=force_default)
M._run_node=rn
async def m():
    gen,res,pr=await one(seed,3)
    print(pr)
asyncio.run(m())
