"""Search small shapes: recurrent block S->M->D consumed by C; a one-of candidate K downstream of C (foreign launch loop)."""
import asyncio, sys, itertools, random
sys.path.insert(0, '_hunt')
from h import LOG, mknode, run, _COUNT
from ml_pipeline_engine.dag_builders.annotation.marks import Input, InputOneOf, RecurrentSubGraph

async def case(dl, verbose=False):
    LOG.clear(); _COUNT.clear()
    Inp = mknode('Inp', {}, lambda s, k, kw: 1, delay=dl['Inp'])
    P = mknode('P', {'x': Input(Inp)}, delay=dl['P'])          # slow outside input of M
    S = mknode('S', {'x': Input(Inp), 'additional_data': object}, rec=True, delay=dl['S'])
    M = mknode('M', {'s': Input(S), 'p': Input(P)}, rec=True, delay=dl['M'])
    D = mknode('D', {'m': Input(M)}, lambda s, k, kw: s.next_iteration(('d', k)) if k < 1 else ('D', k, kw['m']), rec=True, delay=dl['D'])
    C = mknode('C', {'v': RecurrentSubGraph(S, D, 3)}, lambda s, k, kw: ('C', kw['v']))
    K2 = mknode('K2', {'x': Input(Inp)})
    ann = {'c': Input(C)}
    for h in range(dl['heads']):
        Kh = mknode(f'K{h}_', {'c': Input(C)}, delay=0)
        ann[f'k{h}'] = InputOneOf([Kh, K2])
    Out = mknode('Out', ann)
    r = await run(Inp, Out, {'x': 1}, timeout=2)
    probs = []
    last = {}
    for e in LOG:
        if e[0] == 'end':
            last[e[1]] = e[3]
        if e[0] == 'start' and e[1] == 'M':
            if e[3]['s'] != last.get('S'):
                probs.append(('M got', e[3]['s'], 'latest S', last.get('S')))
        if e[0] == 'start' and e[1] in ('M', 'D', 'C', 'Out'):
            for v in e[3].values():
                if v is None or type(v).__name__ == 'Recurrent':
                    probs.append((e[1], 'got', v))
    if r != 'HANG' and r.error is None:
        # final consistency: D's final used M's last, M's last used S's last
        lastkw = {}
        for e in LOG:
            if e[0] == 'start':
                lastkw[e[1]] = e[3]
        if lastkw['M']['s'] != last['S']:
            probs.append(('FINAL M.s', lastkw['M']['s'], 'S final', last['S']))
        if lastkw['D']['m'] != last['M']:
            probs.append(('FINAL D.m', lastkw['D']['m'], 'M final', last['M']))
    return r, probs

async def main():
    rnd = random.Random(1)
    seen = set()
    for n in range(1500):
        dl = {k: rnd.choice([0, 0, 1, 2, 3, 5]) for k in ('Inp', 'P', 'S', 'M', 'D')}; dl['heads'] = rnd.choice([1, 2, 3])
        r, probs = await case(dl)
        key = (str(probs), r == 'HANG')
        if (probs or r == 'HANG') and key not in seen:
            seen.add(key)
            print(dl, 'HANG' if r == 'HANG' else r.error, probs)
asyncio.run(main())
