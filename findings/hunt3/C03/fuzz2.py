"""Random pipelines with recurrent blocks (only the destination is consumed outside its block)."""
import asyncio
import random
import sys

sys.path.insert(0, '_hunt')
from h import run, slow_kwargs  # noqa

from ml_pipeline_engine.dag_builders.annotation.marks import Input, InputOneOf, RecurrentSubGraph, SwitchCase  # noqa
ONEOF_IN = '--oneof' in sys.argv
SYNC = '--sync' in sys.argv
FLAKY = '--flaky' in sys.argv
SWITCH_TOP = '--switch' in sys.argv
if SYNC:
    from ml_pipeline_engine.parallelism import threads_pool_registry
    threads_pool_registry.auto_init()
from ml_pipeline_engine.node import ProcessorBase, RecurrentProcessor  # noqa
from ml_pipeline_engine.types import Recurrent  # noqa


class Gen:
    def __init__(self, seed):
        self.seed = seed
        self.rnd = random.Random(seed)
        self.specs = []   # idx -> dict(params, kind, pattern, delay, max_iter...)
        self.log = []
        self.classes = {}

    def new(self, params, **kw):
        i = len(self.specs)
        self.specs.append(dict(params=params, delay=self.rnd.choice([0, 0, 1, 2, 4]), is_start=False, is_dest=False,
                               pattern=None, **kw))
        return i

    def block(self, outside, depth):
        """returns (start, dest, max_iter); nodes of the block are consumed only inside the block"""
        rnd = self.rnd
        s_params = {}
        for k, j in enumerate(rnd.sample(outside, min(len(outside), rnd.randint(1, 2)))):
            s_params[f'p{k}'] = ('in', j)
        s = self.new(s_params)
        self.specs[s]['is_start'] = True
        inside = [s]
        consumed = set()
        for _ in range(rnd.randint(0, 3)):
            params = {}
            j = rnd.choice(inside)
            params['p0'] = ('in', j)
            consumed.add(j)
            used = {j}
            if rnd.random() < 0.4:
                cands = [x for x in inside + outside if x not in used]
                if cands:
                    j2 = rnd.choice(cands)
                    used.add(j2)
                    params['p1'] = ('in', j2)
                    if j2 in inside:
                        consumed.add(j2)
            if ONEOF_IN and rnd.random() < 0.4:
                ja = rnd.choice(inside)
                consumed.add(ja)
                a = self.new({'p0': ('in', ja)})
                b = self.new({'p0': ('in', rnd.choice(inside + outside))})
                params['q'] = ('oneof', a, b)
            if depth < 2 and rnd.random() < 0.3:
                s2, d2, mi2 = self.block(outside + inside if rnd.random() < 0.8 else list(outside), depth + 1)
                params['r'] = ('rec', s2, d2, mi2)
            inside.append(self.new(params))
        d_params = {}
        leaves = [x for x in inside if x not in consumed]
        for k, j in enumerate(leaves):
            d_params[f'p{k}'] = ('in', j)
        if rnd.random() < 0.3:
            cands = [x for x in outside if x not in leaves]
            if cands:
                d_params['o'] = ('in', rnd.choice(cands))
        d = self.new(d_params)
        max_iter = rnd.randint(0, 3)
        self.specs[d]['is_dest'] = True
        self.specs[d]['pattern'] = [rnd.random() < 0.5 for _ in range(rnd.randint(1, 4))]
        self.specs[d]['use_default'] = rnd.random() < 0.8
        return s, d, max_iter

    def top(self, n_top):
        rnd = self.rnd
        top = [self.new({})]
        for _ in range(n_top):
            params = {}
            used = set()
            for k in range(rnd.randint(1, 3)):
                if rnd.random() < 0.45:
                    s, d, mi = self.block(list(top), 0)
                    params[f'r{k}'] = ('rec', s, d, mi)
                elif SWITCH_TOP and rnd.random() < 0.4 and len([x for x in top if x not in used]) >= 3:
                    d, a, b = rnd.sample([x for x in top if x not in used], 3)
                    params[f's{k}'] = ('sw', d, a, b)
                else:
                    cands = [x for x in top if x not in used]
                    if cands:
                        j = rnd.choice(cands)
                        used.add(j)
                        params[f'p{k}'] = ('in', j)
            if not params:
                params['p0'] = ('in', top[0])
            top.append(self.new(params))
        # make the last node depend on all unconsumed top nodes so that everything is executed
        return top

    def build(self):
        log = self.log
        counters = {}
        attempts_seen = {}
        last_out_of = {}
        self0 = self
        for i, spec in enumerate(self.specs):
            ann = {}
            for pname, p in spec['params'].items():
                if p[0] == 'in':
                    ann[pname] = Input(self.classes[p[1]])
                elif p[0] == 'oneof':
                    ann[pname] = InputOneOf([self.classes[p[1]], self.classes[p[2]]])
                elif p[0] == 'sw':
                    ann[pname] = SwitchCase(switch=self.classes[p[1]], cases=[(('tok', p[1], 0), self.classes[p[2]]), ('zzz', self.classes[p[3]])], name=f'sw{self.seed}_{i}_{pname}')
                else:
                    ann[pname] = RecurrentSubGraph(start_node=self.classes[p[1]], dest_node=self.classes[p[2]],
                                                   max_iterations=p[3])

            def mk(i=i, spec=spec):
                async def process(self, **kwargs):
                    k = counters.get(i, 0)
                    counters[i] = k + 1
                    log.append(('start', i, k, dict(kwargs)))
                    for _ in range(spec['delay']):
                        await asyncio.sleep(0)
                    if FLAKY and not spec['is_dest'] and i > 0:
                        mode = (i * 5 + self0.seed) % 4
                        if mode == 0 and not attempts_seen.get((i, tuple(sorted(map(str, kwargs.items())))), 0):
                            attempts_seen[(i, tuple(sorted(map(str, kwargs.items()))))] = 1
                            counters[i] = k      # the retried attempt is the same invocation
                            log.append(('end', i, k, last_out_of.get(i)))
                            raise ValueError('flaky')
                        if mode == 1 and k % 2 == 0:
                            log.append(('end', i, k, last_out_of.get(i)))
                            raise ValueError('use default')
                    if spec['is_dest'] and spec['pattern'][k % len(spec['pattern'])]:
                        log.append(('end', i, k, 'REC'))
                        return self.next_iteration(('data', i, k))
                    log.append(('end', i, k, ('tok', i, k)))
                    last_out_of[i] = ('tok', i, k)
                    return ('tok', i, k)

                def sync_process(self, **kwargs):
                    import time
                    k = counters.get(i, 0)
                    counters[i] = k + 1
                    log.append(('start', i, k, dict(kwargs)))
                    time.sleep(0.0005 * spec['delay'])
                    if spec['is_dest'] and spec['pattern'][k % len(spec['pattern'])]:
                        log.append(('end', i, k, 'REC'))
                        return self.next_iteration(('data', i, k))
                    log.append(('end', i, k, ('tok', i, k)))
                    return ('tok', i, k)
                if SYNC and (i * 7 + self.seed) % 3 == 0:
                    process = sync_process

                def get_default(self, **kwargs):
                    k = counters.get(i, 0)
                    counters[i] = k + 1
                    log.append(('start', i, k, dict(kwargs)))
                    log.append(('end', i, k, ('def', i, k)))
                    last_out_of[i] = ('def', i, k)
                    return ('def', i, k)
                return process, get_default

            proc, gd = mk()
            if spec['is_start']:
                ann['additional_data'] = object
            proc.__annotations__ = dict(ann)
            base = RecurrentProcessor
            attrs = {'process': proc, 'name': f'r{self.seed}_{i}', 'get_default': gd}
            if spec['is_dest']:
                attrs['use_default'] = spec['use_default']
            elif FLAKY and i > 0:
                mode = (i * 5 + self.seed) % 4
                if mode == 0:
                    attrs['attempts'] = 2
                if mode == 1:
                    attrs['use_default'] = True
            self.classes[i] = type(f'R{self.seed}_{i}', (base,), attrs)


def check(gen, res):
    problems = []
    if res == 'HANG':
        return ['HANG']
    specs = gen.specs
    last_out = {}
    running = set()
    last_kwargs = {}
    for ev in gen.log:
        if ev[0] == 'start':
            _, i, k, kw = ev
            running.add(i)
            last_kwargs[i] = kw
            if i == 0:
                if kw != {'x': 1}:
                    problems.append(f'input got {kw}')
                continue
            exp_names = set(specs[i]['params'])
            got_names = set(kw) - {'additional_data'}
            if exp_names != got_names:
                problems.append(f'node {i}#{k} kwargs names {sorted(kw)} expected {sorted(exp_names)}')
            for pname, p in specs[i]['params'].items():
                src = p[1] if p[0] in ('in', 'oneof') else p[2]  # sw: selected case is p[2]
                v = kw.get(pname, 'MISSING')
                if not (isinstance(v, tuple) and v[0] in ('tok', 'def') and v[1] == src):
                    problems.append(f'node {i}#{k} param {pname} from {src} got {v!r}')
                    continue
                if src in running:
                    problems.append(f'node {i}#{k} started while source {src} is running')
                if last_out.get(src) != v:
                    problems.append(f'node {i}#{k} param {pname} got {v!r} but latest of {src} is {last_out.get(src)!r}')
        else:
            _, i, k, out = ev
            running.discard(i)
            last_out[i] = out
    if res.error is None:
        # final consistency
        for i, kw in last_kwargs.items():
            if i == 0:
                continue
            for pname, p in specs[i]['params'].items():
                src = p[1] if p[0] in ('in', 'oneof') else p[2]  # sw: selected case is p[2]
                if kw.get(pname) != last_out.get(src):
                    problems.append(f'FINAL node {i} param {pname} = {kw.get(pname)!r}, final of {src} is {last_out.get(src)!r}')
    return problems


async def one(seed, n_top):
    gen = Gen(seed)
    top = gen.top(n_top)
    gen.build()
    res = await run(gen.classes[0], gen.classes[top[-1]], dict(x=1), timeout=3, **(slow_kwargs() if '--slow' in sys.argv else {}))
    return gen, res, check(gen, res)


async def main():
    lo, hi = int(sys.argv[1]), int(sys.argv[2])
    n_top = int(sys.argv[3]) if len(sys.argv) > 3 else 3
    bad = 0
    for seed in range(lo, hi):
        gen, res, problems = await one(seed, n_top)
        if problems:
            bad += 1
            print('SEED', seed, 'err=%r' % (getattr(res, 'error', None),), problems[:3])
            if '-v' in sys.argv:
                for i, s in enumerate(gen.specs):
                    print('   ', i, {k: v for k, v in s.items() if k != 'delay'})
                for ev in gen.log:
                    print('      ', ev)
    print('bad', bad, 'of', hi - lo)

asyncio.run(main())
