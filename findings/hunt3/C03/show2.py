import sys, asyncio
sys.path.insert(0,'_hunt')
seed=int(sys.argv[1]); ntop=int(sys.argv[2]); extra=sys.argv[3:]
sys.argv=['x','0','1',str(ntop)]+extra
src=open('_hunt/fuzz2.py').read().replace("asyncio.run(main())","")
exec(compile(src,'fuzz2','exec'))
from ml_pipeline_engine.dag.manager import DAGRunConcurrentManager as M
from ml_pipeline_engine.types import Recurrent
orig=M._run_node
async def rn(self, dag, node_id, force_default=False):
    st = self._node_storage
    nm = dag.graph.get('name')
    if st.exists_processed_node(node_id) and not force_default:
        print('   2ND', node_id, nm)
        while not st.exists_node_result(node_id) or isinstance(st.get_node_result(node_id), Recurrent):
            await asyncio.sleep(0)
        await self._DAGRunConcurrentManager__unlock_descendants(node_id)
        await self._DAGRunConcurrentManager__unlock_run_method()
        if node_id == dag.dest:
            await self._DAGRunConcurrentManager__unlock_itself(node_id)
        return
    print('   RUN', node_id, nm)
    return await orig(self, dag=dag, node_id=node_id, force_default=force_default)
if '--patch' in extra:
    M._run_node=rn
async def m():
    gen,res,pr=await one(seed,ntop)
    print(pr[:5]); print(getattr(res,'error',None))
    for e in gen.log: print('     ',e)
asyncio.run(m())
