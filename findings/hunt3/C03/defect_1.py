"""
Defect 1: a node of a re-armed recurrent subgraph is executed by a foreign launch loop with the values of the
superseded iteration, and the re-iteration then accepts that execution as its own.

Pipeline
    Inp -> S -> M -> D           C = RecurrentSubGraph(start=S, dest=D, max_iterations=3)
    Inp -> Z -> Q
    K(c=Input(C), q=Input(Q))    K2(Inp)
    Out(c=Input(C), k=InputOneOf([K, K2]))

The candidate dag of K (Inp -> ... -> K) contains S, M, D, C and Q, so the launch loop of that candidate dag has S, M and
D in its launch list (they were not started yet when the list was built).  The loop is parked on Q (waits for Z) while
the main dag runs S, M and D.  D asks for a re-iteration with data.  Z is released by D just before D returns, so the
parked loop wakes up in the very cycle in which D's Recurrent marker is published: it finds M "ready" (S still has its
visible result), creates the task for M, then the re-iteration hides S / M / D, and the task of M starts afterwards.

Expected: after D.next_iteration(data) the nodes S, M, D run again in that order, M receives the value S produced in
          the re-iteration (the one that saw `additional_data`), D receives the value of that M, C receives that D.
Observed: M (and then D) are executed once more with the value S produced in the FIRST pass, before the re-executed S
          has even started; the value D publishes as final (and C consumes) was derived from the superseded S, the
          additional data handed over by next_iteration() never reaches the result.
"""
import asyncio
import logging
import os
import sys

sys.path.insert(0, os.getcwd())
logging.disable(logging.CRITICAL)

from ml_pipeline_engine.chart import PipelineChart  # noqa: E402
from ml_pipeline_engine.dag_builders.annotation import build_dag  # noqa: E402
from ml_pipeline_engine.dag_builders.annotation.marks import Input  # noqa: E402
from ml_pipeline_engine.dag_builders.annotation.marks import InputOneOf  # noqa: E402
from ml_pipeline_engine.dag_builders.annotation.marks import RecurrentSubGraph  # noqa: E402
from ml_pipeline_engine.node import ProcessorBase  # noqa: E402
from ml_pipeline_engine.node import RecurrentProcessor  # noqa: E402

LOG = []
STATE = {}


class Inp(ProcessorBase):
    async def process(self, x: int) -> int:
        return x


class S(RecurrentProcessor):
    async def process(self, x: Input(Inp), additional_data: object = None) -> str:
        value = f'S(data={additional_data})'
        LOG.append(('S', dict(x=x, additional_data=additional_data), value))
        return value


class M(RecurrentProcessor):
    async def process(self, s: Input(S)) -> str:
        value = f'M[{s}]'
        LOG.append(('M', dict(s=s), value))
        return value


class D(RecurrentProcessor):
    async def process(self, m: Input(M)) -> str:
        STATE['d_calls'] = STATE.get('d_calls', 0) + 1
        if STATE['d_calls'] == 1:
            STATE['release_z'].set()
            await asyncio.sleep(0)
            LOG.append(('D', dict(m=m), 'Recurrent(data=42)'))
            return self.next_iteration(42)
        value = f'D[{m}]'
        LOG.append(('D', dict(m=m), value))
        return value


class Z(ProcessorBase):
    async def process(self, x: Input(Inp)) -> str:
        await STATE['release_z'].wait()
        return 'z'


class Q(ProcessorBase):
    async def process(self, z: Input(Z)) -> str:
        return 'q'


class C(ProcessorBase):
    async def process(self, v: RecurrentSubGraph(start_node=S, dest_node=D, max_iterations=3)) -> str:
        LOG.append(('C', dict(v=v), v))
        return v


class K(ProcessorBase):
    async def process(self, q: Input(Q), c: Input(C)) -> str:
        return 'k'


class K2(ProcessorBase):
    async def process(self, x: Input(Inp)) -> str:
        return 'k2'


class Out(ProcessorBase):
    async def process(self, c: Input(C), k: InputOneOf([K, K2])) -> str:
        return c


async def main() -> int:
    STATE['release_z'] = asyncio.Event()
    chart = PipelineChart('defect_1', build_dag(input_node=Inp, output_node=Out))
    try:
        result = await asyncio.wait_for(chart.run(input_kwargs=dict(x=1)), 5)
    except asyncio.TimeoutError:
        print('run hangs (not the expected symptom)')
        return 1

    for entry in LOG:
        print('   ', entry)

    expected = 'D[M[S(data=42)]]'
    print('expected result of the run :', expected)
    print('observed result of the run :', result.value, '| error:', result.error)

    bad = False
    s_after_rearm = [e for e in LOG if e[0] == 'S' and e[1]['additional_data'] == 42]
    m_calls = [e for e in LOG if e[0] == 'M']
    if len(m_calls) > 1 and m_calls[-1][1]['s'] != 'S(data=42)':
        print('DEFECT: M was executed again after the subgraph had been re-armed, with the superseded value', m_calls[-1][1])
        bad = True
    if s_after_rearm and LOG.index(s_after_rearm[0]) > LOG.index(m_calls[-1]):
        print('DEFECT: the re-executed S ran only after the last execution of M; its value was never consumed')
        bad = True
    if result.value != expected:
        print('DEFECT: C / Out received a D derived from the first-pass S, the additional data (42) is lost')
        bad = True
    if not bad:
        print('no defect observed')
    return 1 if bad else 0


sys.exit(asyncio.run(main()))
