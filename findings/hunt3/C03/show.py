import sys, asyncio
sys.path.insert(0,'_hunt')
seed=int(sys.argv[1]); ntop=int(sys.argv[2]); extra=sys.argv[3:]
sys.argv=['x','0','1',str(ntop)]+extra
src=open('_hunt/fuzz2.py').read().replace("asyncio.run(main())","")
exec(compile(src,'fuzz2','exec'))
async def m():
    gen,res,pr=await one(seed,ntop)
    print(pr[:5]); print(getattr(res,'error',None))
    for i,s in enumerate(gen.specs):
        print('  ',i,s['params'],'S' if s['is_start'] else '', ('D',s['pattern'],s.get('use_default')) if s['is_dest'] else '')
    if '--log' in extra:
        for e in gen.log: print('     ',e)
asyncio.run(m())
