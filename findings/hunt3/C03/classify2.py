"""Exploration only: neutralise the KNOWN second-requester defect at runtime (monkeypatch, library untouched) and fuzz again."""
import sys, asyncio
sys.path.insert(0,'_hunt')
which = sys.argv[1]
lo, hi, ntop = int(sys.argv[2]), int(sys.argv[3]), int(sys.argv[4])
extra = sys.argv[5:]
sys.argv=['x','0','1',str(ntop)] + extra
src=open('_hunt/%s.py' % which).read().replace("asyncio.run(main())","")
exec(compile(src,which,'exec'))
from ml_pipeline_engine.dag.manager import DAGRunConcurrentManager as M
from ml_pipeline_engine.types import Recurrent
orig=M._run_node
async def rn(self, dag, node_id, force_default=False):
    st = self._node_storage
    if st.exists_processed_node(node_id) and not force_default:
        while not st.exists_node_result(node_id) or isinstance(st.get_node_result(node_id), Recurrent):
            await asyncio.sleep(0)
        await self._DAGRunConcurrentManager__unlock_descendants(node_id)
        await self._DAGRunConcurrentManager__unlock_run_method()
        if node_id == dag.dest:
            await self._DAGRunConcurrentManager__unlock_itself(node_id)
        return
    return await orig(self, dag=dag, node_id=node_id, force_default=force_default)
M._run_node=rn
async def m():
    bad=0
    for seed in range(lo,hi):
        if which=='fuzz2':
            gen,res,pr=await one(seed,ntop)
        else:
            pr,specs=await one(seed,ntop,0.0)
            res=None
        pr=[p for p in pr if p!='HANG']
        if pr:
            bad+=1
            print('SEED',seed,'err=%r'%(getattr(res,'error',None),), pr[:3])
    print('bad',bad)
asyncio.run(m())
