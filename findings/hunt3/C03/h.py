"""Small harness for the hunt scripts: run a chart with a timeout and record node invocations."""
import asyncio
import logging
import os
import sys

sys.path.insert(0, os.getcwd())
logging.disable(logging.CRITICAL)

from ml_pipeline_engine.chart import PipelineChart  # noqa: E402
from ml_pipeline_engine.dag_builders.annotation import build_dag  # noqa: E402

CALLS = []


def rec(name, **kwargs):
    CALLS.append((name, dict(kwargs)))


async def run(input_node, output_node, input_kwargs=None, timeout=5.0, **chart_kwargs):
    chart = PipelineChart('hunt', build_dag(input_node=input_node, output_node=output_node), **chart_kwargs)
    try:
        return await asyncio.wait_for(chart.run(input_kwargs=input_kwargs or {}), timeout)
    except asyncio.TimeoutError:
        return 'HANG'


import random as _random
from ml_pipeline_engine.artifact_store.store.base import ArtifactStore as _Base  # noqa: E402
_R = _random.Random(12345)


class SlowEvents:
    async def on_node_start(self, ctx, node_id):
        for _ in range(_R.choice([0, 1, 3])):
            await asyncio.sleep(0)

    async def on_node_complete(self, ctx, node_id, error):
        for _ in range(_R.choice([0, 1, 3])):
            await asyncio.sleep(0)


class SlowStore:
    def __init__(self, ctx, *a, **k):
        pass

    async def save(self, node_id, data):
        for _ in range(_R.choice([0, 1, 2, 4])):
            await asyncio.sleep(0)

    async def load(self, node_id):
        raise KeyError(node_id)


def slow_kwargs():
    return dict(artifact_store=SlowStore, event_managers=[SlowEvents])


from ml_pipeline_engine.node import ProcessorBase, RecurrentProcessor  # noqa: E402

LOG = []
_COUNT = {}


def mknode(name, ann=None, fn=None, delay=0, rec=False, default=None, **attrs):
    """fn(self, k, kwargs) -> result ; default: value factory for get_default (enables use_default)"""
    ann = dict(ann or {})

    async def process(self, **kwargs):
        k = _COUNT.get(name, 0)
        _COUNT[name] = k + 1
        LOG.append(('start', name, k, dict(kwargs)))
        for _ in range(delay):
            await asyncio.sleep(0)
        try:
            res = fn(self, k, kwargs) if fn else (name, k)
            if asyncio.iscoroutine(res):
                res = await res
        except BaseException as ex:
            LOG.append(('raise', name, k, repr(ex)))
            raise
        LOG.append(('end', name, k, res))
        return res

    process.__annotations__ = ann
    d = {'process': process, 'name': name, **attrs}
    if default is not None:
        def get_default(self, **kwargs):
            LOG.append(('default', name, dict(kwargs)))
            return default(kwargs) if callable(default) else default
        d['get_default'] = get_default
        d['use_default'] = True
    return type(name, (RecurrentProcessor if rec else ProcessorBase,), d)


def dump():
    for e in LOG:
        print('   ', e)
