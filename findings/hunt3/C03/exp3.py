import asyncio, sys
sys.path.insert(0, '_hunt')
from h import LOG, mknode, dump, run, _COUNT
from ml_pipeline_engine.dag_builders.annotation.marks import Input, InputOneOf, SwitchCase, RecurrentSubGraph

async def case(with_switch, with_plain, d_delay, iters=2, max_iter=3):
    LOG.clear(); _COUNT.clear()
    print('--- switch', with_switch, 'plain', with_plain, 'delay', d_delay)
    Inp = mknode('Inp', {}, lambda s, k, kw: 1)
    S = mknode('S', {'x': Input(Inp), 'additional_data': object}, rec=True)
    D = mknode('D', {'x': Input(S)}, lambda s, k, kw: s.next_iteration(('d', k)) if k < iters else ('D', k), rec=True, default=lambda kw: 'dflt', delay=d_delay)
    C = mknode('C', {'v': RecurrentSubGraph(S, D, max_iter)})
    ann = {'c': Input(C)}
    if with_plain:
        E = mknode('E', {'v': Input(D)})
        ann['e'] = Input(E)
    if with_switch:
        Dec = mknode('Dec', {'x': Input(Inp)}, lambda s, k, kw: 'a', delay=with_switch)
        Other = mknode('Other', {'x': Input(Inp)})
        F = mknode('F', {'v': SwitchCase(Dec, [('a', D), ('b', Other)], name='swF')})
        ann['f'] = Input(F)
    Out = mknode('Out', ann)
    r = await run(Inp, Out, {'x': 1})
    print(r)
    bad = [e for e in LOG if e[0] == 'start' and e[1] in 'CEF' and e[3].get('v') not in (('D', iters), 'dflt')]
    if bad or r == 'HANG' or r.error:
        dump()

for sw in (0, 1, 5, 9):
    for pl in (0, 1):
        for dd in (0, 2):
            asyncio.run(case(sw, pl, dd))
            asyncio.run(case(sw, pl, dd, iters=5, max_iter=2))
