import asyncio
import sys

sys.path.insert(0, '_hunt')
from h import CALLS, rec, run  # noqa

from ml_pipeline_engine.dag_builders.annotation.marks import Input, InputOneOf, SwitchCase  # noqa
from ml_pipeline_engine.node import ProcessorBase  # noqa


class Inp(ProcessorBase):
    async def process(self, x: int) -> int:
        return x


class Dec(ProcessorBase):
    """decider; also the first candidate of a one-of of another consumer"""
    async def process(self, x: Input(Inp)) -> str:
        await asyncio.sleep(0.05)
        rec('Dec', x=x)
        return 'a'


class Fallback(ProcessorBase):
    async def process(self, x: Input(Inp)) -> str:
        return 'fb'


class KA(ProcessorBase):
    async def process(self, x: Input(Inp)) -> str:
        rec('KA', x=x)
        return 'case-a'


class KNone(ProcessorBase):
    async def process(self, x: Input(Inp)) -> str:
        rec('KNone', x=x)
        return 'case-none'


class UsesSwitch(ProcessorBase):
    async def process(self, v: SwitchCase(switch=Dec, cases=[('a', KA), (None, KNone)], name='sw')) -> str:
        rec('UsesSwitch', v=v)
        return v


class UsesOneOf(ProcessorBase):
    async def process(self, v: InputOneOf([Dec, Fallback])) -> str:
        rec('UsesOneOf', v=v)
        return v


class Out(ProcessorBase):
    async def process(self, a: Input(UsesSwitch), b: Input(UsesOneOf)) -> tuple:
        return a, b


async def main():
    res = await run(Inp, Out, dict(x=1))
    print(res)
    for c in CALLS:
        print(c)

asyncio.run(main())
