"""Run fuzz2 seeds, flag runs where the known 'second requester' mechanism published None / a stale marker."""
import sys, asyncio
sys.path.insert(0,'_hunt')
lo, hi, ntop = int(sys.argv[1]), int(sys.argv[2]), int(sys.argv[3])
extra = sys.argv[4:]
sys.argv=['x','0','1',str(ntop)] + extra
src=open('_hunt/fuzz2.py').read().replace("asyncio.run(main())","")
exec(compile(src,'fuzz2','exec'))
from ml_pipeline_engine.dag.manager import DAGRunConcurrentManager as M
from ml_pipeline_engine.types import Recurrent
FLAGS=[]
orig=M._execute_node
async def ex(self, dag, node_id, force_default=False):
    second = self._node_storage.exists_processed_node(node_id)
    res = await orig(self, dag=dag, node_id=node_id, force_default=force_default)
    if second:
        FLAGS.append((node_id, res))
    return res
M._execute_node=ex
async def m():
    for seed in range(lo,hi):
        FLAGS.clear()
        gen,res,pr=await one(seed,ntop)
        pr=[p for p in pr if p!='HANG']
        if pr:
            known = any(r is None or isinstance(r,(Recurrent,BaseException)) for _,r in FLAGS)
            print('SEED',seed,'KNOWN2ND' if known else 'OTHER', 'second=%d'%len(FLAGS), 'err=%r'%(getattr(res,'error',None),), pr[:2])
asyncio.run(m())
