"""
Defect 3: the launch loop starts the nodes of one depth strictly one after another and sleeps on the
condition of the first one whose release notification has not arrived yet. A node is released only after
the artifact of its dependency has been saved (and the result is published only after the on_node_complete
handlers returned), so a slow save / completion handler of ONE node of depth 1 keeps back nodes of depth 2
that do not depend on it at all - or not, depending only on the order in which the output node happens to
list its parameters.

Shape (plain Input only, all coroutine nodes):      i -> a -> c \
                                                      -> b -> d -> o
All bodies return at once. The artifact store needs a long time for the artifact of `a` only.

Expected (both declarations): `d` is started as soon as `b` (its only dependency) is complete; the pending
save of `a` may at most delay `c`.
"""
import os
import sys

sys.path.insert(0, os.getcwd())

import asyncio
import logging

import networkx as nx

from ml_pipeline_engine.artifact_store.store.base import ArtifactStore
from ml_pipeline_engine.chart import PipelineChart
from ml_pipeline_engine.dag_builders.annotation import build_dag
from ml_pipeline_engine.dag_builders.annotation.marks import Input
from ml_pipeline_engine.node import ProcessorBase

logging.disable(logging.CRITICAL)


def build(first: str, second: str, slow: str):  # noqa
    started, completed, gate = [], [], {}

    class Store(ArtifactStore):
        async def save(self, node_id, data) -> None:  # noqa
            if slow == 'save' and node_id.endswith('__a'):
                gate['a'] = asyncio.Event()
                await gate['a'].wait()

        async def load(self, node_id):  # noqa
            return None

    class Events:
        async def on_node_start(self, ctx, node_id) -> None:  # noqa
            started.append(node_id.split('__')[1])

        async def on_node_complete(self, ctx, node_id, error) -> None:  # noqa
            completed.append(node_id.split('__')[1])
            if slow == 'handler' and node_id.endswith('__a'):
                gate['a'] = asyncio.Event()
                await gate['a'].wait()

    class I(ProcessorBase):
        name = 'i'

        async def process(self) -> int:
            return 1

    class A(ProcessorBase):
        name = 'a'

        async def process(self, i: Input(I)) -> int:
            return 1

    class B(ProcessorBase):
        name = 'b'

        async def process(self, i: Input(I)) -> int:
            return 1

    class C(ProcessorBase):
        name = 'c'

        async def process(self, a: Input(A)) -> int:
            return 1

    class D(ProcessorBase):
        name = 'd'

        async def process(self, b: Input(B)) -> int:
            return 1

    nodes = {'c': C, 'd': D}

    class O(ProcessorBase):
        name = 'o'

        async def process(self, x: Input(nodes[first]), y: Input(nodes[second])) -> int:
            return 1

    chart = PipelineChart('m', build_dag(I, O), artifact_store=Store, event_managers=[Events])
    return chart, started, completed, gate


async def scenario(first: str, second: str, slow: str) -> bool:
    chart, started, completed, gate = build(first, second, slow)
    order = [n.split('__')[1] for n in nx.topological_sort(chart.entrypoint.graph)]
    task = asyncio.create_task(chart.run(input_kwargs={}))
    await asyncio.sleep(0.3)
    d_started = 'd' in started
    print(f'  o({first}, {second}), slow {slow:7} of a: launch order={order} bodies completed={completed} '
          f'started={started} -> d started while a is pending: {d_started}')
    gate['a'].set()
    result = await asyncio.wait_for(task, 5)
    assert result.error is None, result.error
    return d_started


async def main() -> int:
    res = {}
    for slow in ('save', 'handler'):
        for first, second in (('d', 'c'), ('c', 'd')):
            res[(slow, first)] = await scenario(first, second, slow)

    print('expected: d started = True in all four runs (d depends on b only, and b is complete and saved)')

    if not all(res.values()):
        print('DEFECT: the start of d waits for the artifact save / completion handler of a, which d does not '
              'depend on; it depends on the declaration order of the consumer')
        return 1

    print('no defect')
    return 0


if __name__ == '__main__':
    sys.exit(asyncio.run(main()))
