"""Helpers shared by the defect scripts (run from /tmp/hunt_C15: /venv/bin/python _hunt/defect_k.py)."""
import os
import sys

sys.path.insert(0, os.getcwd())

import asyncio  # noqa: E402
import logging  # noqa: E402

logging.disable(logging.CRITICAL)

from ml_pipeline_engine.chart import PipelineChart  # noqa: E402
from ml_pipeline_engine.parallelism import threads_pool_registry  # noqa: E402

threads_pool_registry.auto_init()


def edges(dag):
    return sorted(
        (u, v, tuple(sorted((str(getattr(k, 'value', k)), repr(val)) for k, val in d.items())))
        for u, v, d in dag.graph.edges(data=True)
    )


def run(dag, timeout=5, **input_kwargs):
    """Returns ('value', v) | ('error', repr) | ('HANG', None)"""

    async def main():
        try:
            r = await asyncio.wait_for(PipelineChart('m', dag).run(input_kwargs=input_kwargs), timeout)
        except asyncio.TimeoutError:
            return 'HANG', None
        return ('value', r.value) if r.error is None else ('error', repr(r.error))

    return asyncio.run(main())
