"""
Defect 4: two generic nodes derived from the same base with build_node (the documented way of re-using a generic node,
see tests/dag/test_reusable_nodes.py) get the same class name 'Generic<Base>' and are registered under that single name
in the globals of ml_pipeline_engine.node.node. The second derivation replaces the first one in that registry, so the
first class can no longer be resolved by its module + name: a process-pool node cannot be pickled and the run fails,
although the node map of the DAG holds both classes under distinct node ids.

    V1 = build_node(GenericVec, node_name='vec1', v=Input(F1), ...)     (tags = process)
    V2 = build_node(GenericVec, node_name='vec2', v=Input(F2), ...)
    Out(a: Input(V1), b: Input(V2))
"""
import typing as t

from common import run

from ml_pipeline_engine.dag_builders.annotation import build_dag
from ml_pipeline_engine.dag_builders.annotation.marks import Input
from ml_pipeline_engine.dag_builders.annotation.marks import InputGeneric
from ml_pipeline_engine.node import ProcessorBase
from ml_pipeline_engine.node import build_node
from ml_pipeline_engine.node.enums import NodeTag
from ml_pipeline_engine.parallelism import process_pool_registry
from ml_pipeline_engine.types import NodeBase


class Inp(ProcessorBase):
    name = 'inp'

    async def process(self, x: int) -> int:
        return x


class F1(ProcessorBase):
    name = 'f1'

    async def process(self, x: Input(Inp)) -> int:
        return x + 1


class F2(ProcessorBase):
    name = 'f2'

    async def process(self, x: Input(Inp)) -> int:
        return x + 2


class GenericVec(ProcessorBase):
    name = 'vec'
    tags = (NodeTag.process,)

    def process(self, v: InputGeneric(NodeBase), k: int) -> int:
        return v * k


V1 = build_node(GenericVec, node_name='vec1', v=Input(F1), dependencies_default=dict(k=10))
V2 = build_node(GenericVec, node_name='vec2', v=Input(F2), dependencies_default=dict(k=100))


class Out(ProcessorBase):
    name = 'out'

    async def process(self, a: Input(V1), b: Input(V2)) -> t.Any:
        return a, b


if __name__ == '__main__':
    import ml_pipeline_engine.node.node as node_module

    process_pool_registry.auto_init()

    dag = build_dag(Inp, Out)
    print('node map:', {k: v for k, v in dag.node_map.items() if 'vec' in k})
    print('V1 is V2:', V1 is V2, '| name of V1:', f'{V1.__module__}.{V1.__qualname__}',
          '| that name resolves to V1:', getattr(node_module, V1.__qualname__) is V1,
          '| to V2:', getattr(node_module, V2.__qualname__) is V2)

    results = {
        'Out(V1, V2)': (run(build_dag(Inp, Out), 30, x=1), ('value', (20, 300))),
        'V1 alone': (run(build_dag(Inp, V1), 30, x=1), ('value', 20)),
        'V2 alone': (run(build_dag(Inp, V2), 30, x=1), ('value', 300)),
    }
    bad = False
    for title, (got, expected) in results.items():
        print(f'{title}: expected {expected}, got {got}')
        bad |= got != expected

    print('DEFECT: the generic node derived first cannot run in the process pool once a second one exists' if bad else 'ok')
    process_pool_registry.shutdown()
    raise SystemExit(1 if bad else 0)
