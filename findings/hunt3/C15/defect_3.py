"""
Defect 3: the behaviour of a run depends on the order in which the parameters of a node are declared.

The builder adds nodes to the graph in traversal order; nx.topological_sort breaks ties by that insertion order; the
launch loop of the scheduler (DAGRunConcurrentManager._run_dag) waits until node i of that order is READY before it
even looks at node i+1. So an independent, ready branch is held back behind an unrelated node that is still waiting.

    Inp -> A (slow) -> B ---\
    Inp -> A2       -> C ----> Out          Out1(c: Input(C), b: Input(B))  vs  Out2(b: Input(B), c: Input(C))

The two builds are the same DAG (same nodes, same edges, same attributes). A and C are independent: A waits (bounded)
until C has started. With one order C starts while A is running; with the other one (Out1: the traversal pops the last
declared parameter first, so B's branch is inserted first) C is not launched until B is ready, i.e. until A has finished.
"""
import asyncio
import typing as t

from common import edges, run

from ml_pipeline_engine.dag_builders.annotation import build_dag
from ml_pipeline_engine.dag_builders.annotation.marks import Input
from ml_pipeline_engine.node import ProcessorBase

STATE: t.Dict[str, t.Any] = {}


def c_started() -> asyncio.Event:
    return STATE.setdefault('ev', asyncio.Event())


class Inp(ProcessorBase):
    name = 'inp'

    async def process(self, x: int) -> int:
        return x


class A(ProcessorBase):
    name = 'a'

    async def process(self, x: Input(Inp)) -> int:
        try:
            await asyncio.wait_for(c_started().wait(), 1)
            STATE['c_ran_concurrently_with_a'] = True
        except asyncio.TimeoutError:
            STATE['c_ran_concurrently_with_a'] = False
        return x


class A2(ProcessorBase):
    name = 'a2'

    async def process(self, x: Input(Inp)) -> int:
        return x


class B(ProcessorBase):
    name = 'b'

    async def process(self, x: Input(A)) -> int:
        return x


class C(ProcessorBase):
    name = 'c'

    async def process(self, x: Input(A2)) -> int:
        c_started().set()
        return x


class Out1(ProcessorBase):
    name = 'out'

    async def process(self, c: Input(C), b: Input(B)) -> int:
        return b + c


class Out2(ProcessorBase):
    name = 'out'

    async def process(self, b: Input(B), c: Input(C)) -> int:
        return b + c


dag1, dag2 = build_dag(Inp, Out1), build_dag(Inp, Out2)
same = edges(dag1) == edges(dag2) and set(dag1.graph.nodes) == set(dag2.graph.nodes)
print('the two builds have the same nodes and edges:', same)

seen = []
for title, dag in (('Out1(c, b)', dag1), ('Out2(b, c)', dag2)):
    STATE.clear()
    result = run(dag, x=1)
    seen.append(STATE.get('c_ran_concurrently_with_a'))
    print(f'{title}: node order {list(dag.graph.nodes)}: result {result}, C started while A was running: {seen[-1]}')

print('expected: C (ready as soon as A2 is done) starts while A is running, whatever the declaration order')
bad = seen != [True, True]
print('DEFECT: the independent node C is held back until A has finished in one of the two declaration orders' if bad else 'ok')
raise SystemExit(1 if bad else 0)
