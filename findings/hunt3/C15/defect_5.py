"""
Defect 5 (minor): the builder reads every entry of process.__annotations__, including 'return'. Input(X) is typed as
"the type of the result of X" (marks.Input returns t.Type[NodeResultT]), so `-> Input(Inp)` is a legal way of saying
"returns what Inp returns". The builder translates it into a dependency that delivers to a parameter named 'return'.

    C.process(self, x: Input(A)) -> Input(Inp)
"""
from common import edges, run

from ml_pipeline_engine.dag_builders.annotation import build_dag
from ml_pipeline_engine.dag_builders.annotation.marks import Input
from ml_pipeline_engine.node import ProcessorBase


class Inp(ProcessorBase):
    name = 'inp'

    async def process(self, x: int) -> int:
        return x


class A(ProcessorBase):
    name = 'a'

    async def process(self, x: Input(Inp)) -> int:
        return x + 1


class C(ProcessorBase):
    name = 'c'

    async def process(self, x: Input(A)) -> Input(Inp):
        return x + 1


dag = build_dag(Inp, C)
into_c = [e for e in edges(dag) if e[1] == 'processor__c']
got = run(dag, x=1)
print("expected: one dependency of C (a -> c, kwarg 'x'), value 3")
print('dependencies of C:', into_c)
print('run:', got)
bad = len(into_c) != 1 or got != ('value', 3)
print("DEFECT: the return annotation became a dependency delivering to a parameter named 'return'" if bad else 'ok')
raise SystemExit(1 if bad else 0)
