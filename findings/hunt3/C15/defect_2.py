"""
Defect 2: the settings of a recurrent subgraph (start node, max_iterations) are stored as attributes of the DEST NODE,
not of the dependency that declares them. Two consumers that declare a recurrent subgraph on the same dest node
(different start node / max_iterations) are merged silently: the declaration visited last wins for BOTH consumers,
and which one is visited last depends on the order of the parameters of an unrelated node (the output).

    A: d = RecurrentSubGraph(start=S1, dest=Dest, max_iterations=5)
    B: d = RecurrentSubGraph(start=S2, dest=Dest, max_iterations=1)
    Out1(a: Input(A), b: Input(B))   vs   Out2(b: Input(B), a: Input(A))       (same declarations, other order)
"""
import typing as t

from common import run

from ml_pipeline_engine.dag_builders.annotation import build_dag
from ml_pipeline_engine.dag_builders.annotation.marks import Input
from ml_pipeline_engine.dag_builders.annotation.marks import RecurrentSubGraph
from ml_pipeline_engine.node import ProcessorBase
from ml_pipeline_engine.node import RecurrentProcessor


class Inp(ProcessorBase):
    name = 'inp'

    async def process(self, x: int) -> int:
        return x


class S1(RecurrentProcessor):
    name = 's1'

    async def process(self, x: Input(Inp), additional_data: t.Any = None) -> int:
        return x + (additional_data or 0)


class S2(RecurrentProcessor):
    name = 's2'

    async def process(self, x: Input(S1), additional_data: t.Any = None) -> int:
        return x + (additional_data or 0)


class Dest(RecurrentProcessor):
    name = 'dest'
    use_default = True

    def get_default(self, **kwargs: t.Any) -> int:
        return -1

    async def process(self, x: Input(S2)) -> t.Any:
        if x < 3:
            return self.next_iteration(x + 1)
        return x


class A(ProcessorBase):
    name = 'a'

    async def process(self, d: RecurrentSubGraph(S1, Dest, 5)) -> int:
        return d


class B(ProcessorBase):
    name = 'b'

    async def process(self, d: RecurrentSubGraph(S2, Dest, 1)) -> int:
        return d


class Out1(ProcessorBase):
    name = 'out'

    async def process(self, a: Input(A), b: Input(B)) -> t.Any:
        return a, b


class Out2(ProcessorBase):
    name = 'out'

    async def process(self, b: Input(B), a: Input(A)) -> t.Any:
        return a, b


def attrs(dag):
    return {str(k.value): v for k, v in dag.graph.nodes['processor__dest'].items()}


dag1, dag2 = build_dag(Inp, Out1), build_dag(Inp, Out2)
a1, a2 = attrs(dag1), attrs(dag2)
r1, r2 = run(dag1, x=0), run(dag2, x=0)

print('expected: both builds give the same DAG and the same result; neither declaration is replaced by the other')
print('Out1(a, b): dest attributes', a1, '-> result', r1)
print('Out2(b, a): dest attributes', a2, '-> result', r2)

bad = a1 != a2 or r1 != r2
print('DEFECT: the DAG and the value depend on the parameter order of the output node' if bad else 'ok')
raise SystemExit(1 if bad else 0)
