"""
Defect 1: a switch keeps ONE graph edge per (node, switch) pair, the role of the node (decider / case label)
is an attribute of that edge.

 (a) one case node listed under two labels: cases=[('a', Small), ('b', Small), ('c', Big)]
     -> the edge Small->switch keeps only the last label, label 'a' is dropped from the DAG.
 (b) the decider is also one of the cases: SwitchCase(switch=Inp, cases=[('raw', Inp), ('scaled', Scaled)])
     -> the decider edge and the case edge are the same edge {is_switch, case_branch='raw'}:
        the case is lost and the scheduler filters the edge out as a case edge -> the run hangs for every label.
"""
from common import edges, run

from ml_pipeline_engine.dag_builders.annotation import build_dag
from ml_pipeline_engine.dag_builders.annotation.marks import Input
from ml_pipeline_engine.dag_builders.annotation.marks import SwitchCase
from ml_pipeline_engine.node import ProcessorBase


class Inp(ProcessorBase):
    name = 'inp'

    async def process(self, mode: str) -> str:
        return mode


class Small(ProcessorBase):
    name = 'small'

    async def process(self, m: Input(Inp)) -> str:
        return 'small:' + m


class Big(ProcessorBase):
    name = 'big'

    async def process(self, m: Input(Inp)) -> str:
        return 'big:' + m


class OutA(ProcessorBase):
    name = 'out_a'

    async def process(self, v: SwitchCase(Inp, [('a', Small), ('b', Small), ('c', Big)], name='sw_a')) -> str:
        return v


class OutB(ProcessorBase):
    name = 'out_b'

    async def process(self, v: SwitchCase(Inp, [('raw', Inp), ('big', Big)], name='sw_b')) -> str:
        return v


bad = False

print('(a) cases=[(a, Small), (b, Small), (c, Big)]')
dag = build_dag(Inp, OutA)
labels = sorted(d['case_branch'] for _, v, d in dag.graph.edges(data=True) if v == 'switch__sw_a' and 'case_branch' in d)
print('   expected case labels in the DAG: a, b, c; found:', labels)
for mode, expected in (('a', 'small:a'), ('b', 'small:b'), ('c', 'big:c')):
    got = run(dag, mode=mode)
    print(f'   mode={mode}: expected value {expected!r}, got {got}')
    bad |= got != ('value', expected)

print('(b) SwitchCase(switch=Inp, cases=[(raw, Inp), (big, Big)])')
dag = build_dag(Inp, OutB)
print('   edges into the switch:', [e for e in edges(dag) if e[1] == 'switch__sw_b'])
for mode, expected in (('raw', 'raw'), ('big', 'big:big')):
    got = run(dag, timeout=3, mode=mode)
    print(f'   mode={mode}: expected value {expected!r}, got {got}')
    bad |= got != ('value', expected)

print('DEFECT' if bad else 'ok')
raise SystemExit(1 if bad else 0)
