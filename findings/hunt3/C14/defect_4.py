"""
Defect 4: a recurrent destination node that never stops asking for another iteration (no default value) produces
no value - the run fails with RecurrentSubgraphDoesNotHaveResultError (or, inside a one-of candidate, the candidate
is treated as failed) - but every on_node_complete of that node, including the last one, reports error=None.
The error is never attached to any node event: the history shows a node that completed successfully N times and a
pipeline that failed "out of nothing".

Run from the repository root:  /venv/bin/python _hunt/defect_4.py
"""
import asyncio
import logging
import os
import sys
import typing as t

sys.path.insert(0, os.getcwd())
logging.disable(logging.CRITICAL)

from ml_pipeline_engine.chart import PipelineChart  # noqa: E402
from ml_pipeline_engine.dag_builders.annotation import build_dag  # noqa: E402
from ml_pipeline_engine.dag_builders.annotation.marks import Input  # noqa: E402
from ml_pipeline_engine.dag_builders.annotation.marks import InputOneOf  # noqa: E402
from ml_pipeline_engine.dag_builders.annotation.marks import RecurrentSubGraph  # noqa: E402
from ml_pipeline_engine.node import ProcessorBase  # noqa: E402
from ml_pipeline_engine.node import RecurrentProcessor  # noqa: E402

LOG = []
DELIVERED = []


class Recorder:
    async def on_pipeline_start(self, ctx):
        LOG.append(('pipeline_start',))

    async def on_pipeline_complete(self, ctx, result):
        LOG.append(('pipeline_complete', result))

    async def on_node_start(self, ctx, node_id):
        LOG.append(('node_start', node_id))

    async def on_node_complete(self, ctx, node_id, error):
        LOG.append(('node_complete', node_id, error))


class Inp(ProcessorBase):
    name = 'inp'

    async def process(self, x: int) -> int:
        return x


class Start(ProcessorBase):
    name = 'start'

    async def process(self, i: Input(Inp), additional_data: t.Optional[int] = None) -> int:
        return additional_data or 0


class Dest(RecurrentProcessor):
    name = 'dest'

    async def process(self, s: Input(Start)) -> int:
        return self.next_iteration(s + 1)  # never satisfied


class Consumer(ProcessorBase):
    name = 'consumer'

    async def process(self, d: RecurrentSubGraph(start_node=Start, dest_node=Dest, max_iterations=2)) -> int:
        DELIVERED.append(d)
        return d


class Fallback(ProcessorBase):
    name = 'fallback'

    async def process(self, i: Input(Inp)) -> str:
        return 'fallback'


class OneOfOut(ProcessorBase):
    name = 'oneof_out'

    async def process(self, v: InputOneOf([Consumer, Fallback])) -> t.Any:
        return v


async def scenario(label: str, dag) -> bool:
    LOG.clear()
    DELIVERED.clear()
    chart = PipelineChart('m', dag, event_managers=[Recorder])
    result = await asyncio.wait_for(chart.run(input_kwargs={'x': 1}), 3)

    print(f'--- {label}')
    print('    run returned:', result)
    for e in LOG:
        print('      ', e)

    dest_completes = [e for e in LOG if e[0] == 'node_complete' and e[1] == 'processor__dest']
    last = dest_completes[-1]
    consumer_started = any(e == ('node_start', 'processor__consumer') for e in LOG)

    print('    values of dest delivered to its consumer:', DELIVERED, '| consumer started:', consumer_started)
    print('    last on_node_complete of dest: error =', repr(last[2]))

    # the node produced no value (nothing was, or could be, delivered) <=> the last on_node_complete has an error
    produced_value = bool(DELIVERED)
    return (last[2] is None) == produced_value


async def main() -> int:
    ok = await scenario('plain dag: the run fails', build_dag(Inp, Consumer))
    ok &= await scenario('inside a one-of candidate: the candidate fails, the fallback wins', build_dag(Inp, OneOfOut))

    print()
    print('expected: the last on_node_complete of a node reports error=None iff the node produced a value;')
    print('          dest produced none (its consumer never ran), so its last event must carry an error')
    if not ok:
        print('DEFECT: dest ends without a value (RecurrentSubgraphDoesNotHaveResultError) '
              'but its last on_node_complete reports error=None')
        return 1

    print('ok')
    return 0


if __name__ == '__main__':
    sys.exit(asyncio.run(main()))
