"""
Defect 2: the lifecycle history is only closed for errors derived from Exception.

(a) A node body raising a BaseException subclass that is not an Exception (a custom BaseException, GeneratorExit,
    a BaseExceptionGroup, ...) - the engine explicitly supports such classes in the retry setting - gets
    on_node_start but no on_node_complete, the pipeline gets on_pipeline_start but no on_pipeline_complete, and
    PipelineChart.run raises instead of returning a PipelineResult.
(b) Cancelling PipelineChart.run from the outside (asyncio.wait_for around the run - the usual request timeout)
    leaves on_pipeline_start without on_pipeline_complete.

Run from the repository root:  /venv/bin/python _hunt/defect_2.py
"""
import asyncio
import logging
import os
import sys

sys.path.insert(0, os.getcwd())
logging.disable(logging.CRITICAL)

from ml_pipeline_engine.chart import PipelineChart  # noqa: E402
from ml_pipeline_engine.dag_builders.annotation import build_dag  # noqa: E402
from ml_pipeline_engine.dag_builders.annotation.marks import Input  # noqa: E402
from ml_pipeline_engine.node import ProcessorBase  # noqa: E402
from ml_pipeline_engine.parallelism import threads_pool_registry  # noqa: E402

LOG = []


class Recorder:
    async def on_pipeline_start(self, ctx):
        LOG.append(('pipeline_start',))

    async def on_pipeline_complete(self, ctx, result):
        LOG.append(('pipeline_complete', result))

    async def on_node_start(self, ctx, node_id):
        LOG.append(('node_start', node_id))

    async def on_node_complete(self, ctx, node_id, error):
        LOG.append(('node_complete', node_id, error))


class Abort(BaseException):
    """A control-flow style error, deliberately not derived from Exception."""


class A(ProcessorBase):
    name = 'a'

    async def process(self, x: int) -> int:
        return x


class BAsync(ProcessorBase):
    name = 'b_async'

    async def process(self, a: Input(A)) -> int:
        raise Abort('stop')


class BThread(ProcessorBase):
    name = 'b_thread'

    def process(self, a: Input(A)) -> int:
        raise Abort('stop')


class Slow(ProcessorBase):
    name = 'slow'

    async def process(self, a: Input(A)) -> int:
        await asyncio.sleep(30)
        return a


def make_out(dep):
    class Out(ProcessorBase):
        name = f'out_{dep.name}'

        async def process(self, b: Input(dep)) -> int:
            return b

    return Out


def check(label: str, returned, raised) -> bool:
    """True when the history is well formed"""
    print(f'--- {label}')
    print('    run returned:', returned, '| run raised:', repr(raised))
    for e in LOG:
        print('      ', e)

    starts = [e[1] for e in LOG if e[0] == 'node_start']
    completes = [e[1] for e in LOG if e[0] == 'node_complete']
    n_pipeline_complete = sum(1 for e in LOG if e[0] == 'pipeline_complete')
    problems = []

    if n_pipeline_complete != 1:
        problems.append(f'on_pipeline_complete emitted {n_pipeline_complete} times after on_pipeline_start')

    for node_id in starts:
        if node_id not in completes:
            problems.append(f'{node_id}: on_node_start without on_node_complete')

    if raised is not None and not isinstance(raised, asyncio.TimeoutError):
        problems.append(f'run raised {raised!r} instead of returning a PipelineResult with that error')

    for p in problems:
        print('    PROBLEM:', p)

    return not problems


async def main() -> int:
    threads_pool_registry.auto_init()
    ok = True

    for node in (BAsync, BThread):
        LOG.clear()
        chart = PipelineChart('m', build_dag(A, make_out(node)), event_managers=[Recorder])
        returned = raised = None
        try:
            returned = await asyncio.wait_for(chart.run(input_kwargs={'x': 1}), 2)
        except BaseException as ex:  # noqa: BLE001
            raised = ex
        ok &= check(f'(a) node {node.name} raises a BaseException subclass', returned, raised)

    LOG.clear()
    chart = PipelineChart('m', build_dag(A, make_out(Slow)), event_managers=[Recorder])
    returned = raised = None
    try:
        returned = await asyncio.wait_for(chart.run(input_kwargs={'x': 1}), 0.2)
    except asyncio.TimeoutError as ex:
        raised = ex
    await asyncio.sleep(0.1)
    well_formed = check('(b) the caller cancels the run (wait_for timeout)', returned, raised)
    ok &= well_formed

    print()
    print('expected: every on_pipeline_start is followed by exactly one on_pipeline_complete, every on_node_start')
    print('          by an on_node_complete carrying the error, and run returns a PipelineResult')
    if not ok:
        print('DEFECT: see PROBLEM lines above')
        return 1

    print('ok')
    return 0


if __name__ == '__main__':
    sys.exit(asyncio.run(main()))
