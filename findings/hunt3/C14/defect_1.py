"""
Defect 1: a node failing with an exception object that is *falsy* (an exception class defining __len__ or
__bool__, e.g. a collection of validation problems that happens to be empty) is never recognised as a failure
by the run method: the run hangs forever, on_pipeline_complete is never emitted.

Run from the repository root:  /venv/bin/python _hunt/defect_1.py
"""
import asyncio
import logging
import os
import sys

sys.path.insert(0, os.getcwd())
logging.disable(logging.CRITICAL)

from ml_pipeline_engine.chart import PipelineChart  # noqa: E402
from ml_pipeline_engine.dag_builders.annotation import build_dag  # noqa: E402
from ml_pipeline_engine.dag_builders.annotation.marks import Input  # noqa: E402
from ml_pipeline_engine.node import ProcessorBase  # noqa: E402

LOG = []


class Recorder:
    async def on_pipeline_start(self, ctx):
        LOG.append(('pipeline_start',))

    async def on_pipeline_complete(self, ctx, result):
        LOG.append(('pipeline_complete', result))

    async def on_node_start(self, ctx, node_id):
        LOG.append(('node_start', node_id))

    async def on_node_complete(self, ctx, node_id, error):
        LOG.append(('node_complete', node_id, error))


class Problems(Exception):
    """An ordinary 'collection of problems' exception: len() is the number of collected problems."""

    def __init__(self, *problems):
        super().__init__(*problems)
        self.problems = list(problems)

    def __len__(self):
        return len(self.problems)


class A(ProcessorBase):
    name = 'a'

    async def process(self, x: int) -> int:
        return x


class B(ProcessorBase):
    name = 'b'

    async def process(self, a: Input(A)) -> int:
        raise Problems()  # bool(Problems()) is False


class C(ProcessorBase):
    name = 'c'

    async def process(self, b: Input(B)) -> int:
        return b


async def main() -> int:
    chart = PipelineChart('m', build_dag(A, C), event_managers=[Recorder])

    hung = False
    result = None
    try:
        result = await asyncio.wait_for(chart.run(input_kwargs={'x': 1}), 2)
    except asyncio.TimeoutError:
        hung = True

    print('expected: run returns PipelineResult(error=Problems()), history ends with pipeline_complete')
    print('observed: ', 'run did not return within 2 s (hang)' if hung else result)
    for e in LOG:
        print('   ', e)

    n_complete = sum(1 for e in LOG if e[0] == 'pipeline_complete')
    if hung or n_complete != 1:
        print('DEFECT: the failure of node b (a falsy exception) never ends the run; no on_pipeline_complete')
        return 1

    print('ok')
    return 0


if __name__ == '__main__':
    sys.exit(asyncio.run(main()))
