"""
Defect 3: a requester of a shared node that merely WAITS for the node (the node is being executed by another scope)
releases the node's "execution finished" event when it is cancelled. Every other waiting requester then wakes up,
reads the - not yet existing - result as None and publishes None as the value of the node: consumers of the node are
started with None while the node is still running (on_node_start, no on_node_complete yet), and the pipeline
"succeeds" with a value computed from None.

Shape (all legal, no node is a candidate and a plain input at the same time):

    inp -> p -> x (slow) ; x is needed by three one-of candidates c1, c2, c3 and by the plain node m
    out(m, u1, u2, u3)   u1 = InputOneOf([c1, f1])  c1(x, z), z(y), y fails while x is running
                         u2 = InputOneOf([c2, f2])  c2(x)
                         u3 = InputOneOf([c3, f3])  c3(x)

x is not ready when the three candidate sub-dags are started (p is still running), so each of them keeps x in its
launch list. When p finishes each sub-dag creates a task for x: the first one executes x, the other two wait for the
execution event. y fails, the launch loop of c1's sub-dag takes its error exit and cancels its own tasks - among them
its (waiting) requester of x.

Run from the repository root:  /venv/bin/python _hunt/defect_3.py
"""
import asyncio
import logging
import os
import sys
import typing as t

sys.path.insert(0, os.getcwd())
logging.disable(logging.CRITICAL)

from ml_pipeline_engine.chart import PipelineChart  # noqa: E402
from ml_pipeline_engine.dag_builders.annotation import build_dag  # noqa: E402
from ml_pipeline_engine.dag_builders.annotation.marks import Input  # noqa: E402
from ml_pipeline_engine.dag_builders.annotation.marks import InputOneOf  # noqa: E402
from ml_pipeline_engine.node import ProcessorBase  # noqa: E402

LOG = []
STATE = {'x_started': False, 'x_finished': False, 'x_cancelled': False}
RECEIVED = []  # (consumer, value of x, state of x at that moment)


class Recorder:
    async def on_pipeline_start(self, ctx):
        LOG.append(('pipeline_start',))

    async def on_pipeline_complete(self, ctx, result):
        LOG.append(('pipeline_complete', result))

    async def on_node_start(self, ctx, node_id):
        LOG.append(('node_start', node_id))

    async def on_node_complete(self, ctx, node_id, error):
        LOG.append(('node_complete', node_id, error))


def received(consumer: str, value: t.Any) -> None:
    x_completed = ('node_complete', 'processor__x', None) in LOG
    RECEIVED.append((consumer, value, dict(STATE), x_completed))
    LOG.append((f'   {consumer} is called with x =', value))


class Inp(ProcessorBase):
    name = 'inp'

    async def process(self, x: int) -> int:
        return x


class P(ProcessorBase):
    name = 'p'

    async def process(self, i: Input(Inp)) -> str:
        await asyncio.sleep(0.05)  # x is not ready when the candidate sub-dags are started
        return 'p'


class X(ProcessorBase):
    name = 'x'

    async def process(self, p: Input(P)) -> str:
        STATE['x_started'] = True
        try:
            await asyncio.sleep(0.5)
        except asyncio.CancelledError:
            STATE['x_cancelled'] = True
            raise
        STATE['x_finished'] = True
        return 'x-value'


class Y(ProcessorBase):
    name = 'y'

    async def process(self, i: Input(Inp)) -> str:
        while not STATE['x_started']:
            await asyncio.sleep(0.01)
        await asyncio.sleep(0.05)  # the other requesters of x are parked by now
        raise ValueError('y fails')


class Z(ProcessorBase):
    name = 'z'

    async def process(self, y: Input(Y)) -> str:
        return 'z'


class C1(ProcessorBase):
    name = 'c1'

    async def process(self, x: Input(X), z: Input(Z)) -> str:
        received('c1', x)
        return f'c1({x})'


class C2(ProcessorBase):
    name = 'c2'

    async def process(self, x: Input(X)) -> str:
        received('c2', x)
        return f'c2({x})'


class C3(ProcessorBase):
    name = 'c3'

    async def process(self, x: Input(X)) -> str:
        received('c3', x)
        return f'c3({x})'


def fallback(name: str) -> t.Type[ProcessorBase]:
    async def process(self, i: Input(Inp)) -> str:
        return name

    return type(name.upper(), (ProcessorBase,), {'name': name, 'process': process})


F1, F2, F3 = fallback('f1'), fallback('f2'), fallback('f3')


class U1(ProcessorBase):
    name = 'u1'

    async def process(self, v: InputOneOf([C1, F1])) -> str:
        return v


class U2(ProcessorBase):
    name = 'u2'

    async def process(self, v: InputOneOf([C2, F2])) -> str:
        return v


class U3(ProcessorBase):
    name = 'u3'

    async def process(self, v: InputOneOf([C3, F3])) -> str:
        return v


class M(ProcessorBase):
    name = 'm'

    async def process(self, x: Input(X)) -> str:
        received('m', x)
        return f'm({x})'


class Out(ProcessorBase):
    name = 'out'

    async def process(self, m: Input(M), u1: Input(U1), u2: Input(U2), u3: Input(U3)) -> tuple:
        return m, u1, u2, u3


async def main() -> int:
    chart = PipelineChart('m', build_dag(Inp, Out), event_managers=[Recorder])

    try:
        result = await asyncio.wait_for(chart.run(input_kwargs={'x': 1}), 5)
    except asyncio.TimeoutError:
        print('the run hangs (not the symptom this script is about)')
        return 1

    print('expected: m, c2 and c3 are called with "x-value" after on_node_complete(x, None);')
    print("          result ('m(x-value)', 'f1', 'c2(x-value)', 'c3(x-value)')")
    print('observed:', result)
    for e in LOG:
        print('   ', e)

    early = [r for r in RECEIVED if not r[3]]
    executor_untouched = [r for r in early if r[2]['x_started'] and not r[2]['x_finished'] and not r[2]['x_cancelled']]

    if executor_untouched:
        for consumer, value, state, _ in executor_untouched:
            print(f'DEFECT: {consumer} got x={value!r} while x was still running '
                  f'(its executing task was neither finished nor cancelled: {state}), before on_node_complete(x)')
        return 1

    if early:
        print('a consumer got the value early, but the executing task of x had been cancelled: this is the known '
              'defect (error exit cancels the executing task), the launch order differs from the expected one')
        return 1

    print('ok')
    return 0


if __name__ == '__main__':
    sys.exit(asyncio.run(main()))
