"""
Additional observation (not counted among the four defects, the trigger is a misdeclaration): an exception that
escapes one of the scheduler's own coroutines (_run_dag, _run_oneof, _run_switch, _run_recurrent_subgraph -
everything that is not a node body) kills that helper task silently. The exception is
kept in the task, the error scan of DAGRunConcurrentManager.run would find it, but nobody notifies the condition
run() waits on: the run hangs forever instead of returning the error (on_pipeline_start without
on_pipeline_complete).

Trigger: a RecurrentProcessor that asks for the next iteration, reused in a dag where it is consumed through a
         plain Input (no RecurrentSubGraph is declared for it in this dag, so the graph node has neither start_node
         nor max_iterations): the 'rec-...' helper task dies with NodeNotFound('source node None not in graph').
         The same happens for RecurrentSubGraph(..., max_iterations=None): range(None) raises TypeError in that task.

Run from the repository root:  /venv/bin/python _hunt/extra_helper_task.py
"""
import asyncio
import logging
import os
import sys

sys.path.insert(0, os.getcwd())
logging.disable(logging.CRITICAL)

from ml_pipeline_engine.chart import PipelineChart  # noqa: E402
from ml_pipeline_engine.dag import manager as manager_module  # noqa: E402
from ml_pipeline_engine.dag_builders.annotation import build_dag  # noqa: E402
from ml_pipeline_engine.dag_builders.annotation.marks import Input  # noqa: E402
from ml_pipeline_engine.node import ProcessorBase  # noqa: E402
from ml_pipeline_engine.node import RecurrentProcessor  # noqa: E402

LOG = []
MANAGERS = []


class Recorder:
    async def on_pipeline_start(self, ctx):
        LOG.append(('pipeline_start',))

    async def on_pipeline_complete(self, ctx, result):
        LOG.append(('pipeline_complete', result))

    async def on_node_start(self, ctx, node_id):
        LOG.append(('node_start', node_id))

    async def on_node_complete(self, ctx, node_id, error):
        LOG.append(('node_complete', node_id, error))


class ObservedManager(manager_module.DAGRunConcurrentManager):
    """The unmodified manager; the instance is only remembered to look at its helper tasks afterwards."""

    def __post_init__(self) -> None:
        super().__post_init__()
        MANAGERS.append(self)


class Inp(ProcessorBase):
    name = 'inp'

    async def process(self, x: int) -> int:
        return x


class Refine(RecurrentProcessor):
    name = 'refine'

    async def process(self, i: Input(Inp)) -> int:
        return self.next_iteration(i)


class Out1(ProcessorBase):
    name = 'out1'

    async def process(self, r: Input(Refine)) -> int:
        return r


async def scenario(label: str, dag) -> bool:
    LOG.clear()
    MANAGERS.clear()
    dag.run_manager = ObservedManager
    chart = PipelineChart('m', dag, event_managers=[Recorder])
    run_task = asyncio.ensure_future(chart.run(input_kwargs={'x': 1}))
    await asyncio.sleep(0.5)

    print(f'--- {label}')
    hung = not run_task.done()
    print('    chart.run finished after 0.5 s:', not hung)
    for e in LOG:
        print('      ', e)

    for mgr in MANAGERS:
        for task in mgr._coro_tasks:
            if task.done() and not task.cancelled() and task.exception() is not None:
                print(f'    helper task {task.get_name()!r} is dead: {task.exception()!r}')

    if hung:
        run_task.cancel()
        try:
            await run_task
        except BaseException:  # noqa: BLE001
            pass
    else:
        print('    result:', run_task.result())

    n_complete = sum(1 for e in LOG if e[0] == 'pipeline_complete')
    return not hung and n_complete == 1


async def main() -> int:
    ok = await scenario('next_iteration() of a node consumed through a plain Input', build_dag(Inp, Out1))

    print()
    print('expected: the run ends with PipelineResult(error=<the exception of the helper task>) and on_pipeline_complete')
    if not ok:
        print('DEFECT: a helper task died with an exception, run() was never woken up: the run hangs')
        return 1

    print('ok')
    return 0


if __name__ == '__main__':
    sys.exit(asyncio.run(main()))
