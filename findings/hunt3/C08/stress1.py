import os, sys; sys.path.insert(0, os.getcwd())
import asyncio
import random
import sys
import typing as t

from ml_pipeline_engine.chart import PipelineChart
from ml_pipeline_engine.dag_builders.annotation import build_dag
from ml_pipeline_engine.dag_builders.annotation.marks import Input, InputOneOf, SwitchCase, RecurrentSubGraph
from ml_pipeline_engine.node import ProcessorBase, RecurrentProcessor
from ml_pipeline_engine.node.enums import NodeTag
from ml_pipeline_engine.parallelism import threads_pool_registry, process_pool_registry

threads_pool_registry.auto_init()


async def nap(cfg, key):
    d = cfg.get('delay', {}).get(key, 0)
    for _ in range(d):
        await asyncio.sleep(0)


class Inp(ProcessorBase):
    name = 'inp'

    async def process(self, cfg: dict, additional_data: t.Any = None) -> dict:
        await nap(cfg, 'inp')
        return dict(cfg, extra=additional_data)


class A(ProcessorBase):
    name = 'a'

    async def process(self, cfg: Input(Inp)) -> int:
        await nap(cfg, 'a')
        if 'a' in cfg.get('fail', ()):
            raise ValueError('a failed %s' % cfg['id'])
        return cfg['x'] + 1


class B(ProcessorBase):
    name = 'b'
    tags = ()

    def process(self, cfg: Input(Inp)) -> int:
        if 'b' in cfg.get('fail', ()):
            raise ValueError('b failed %s' % cfg['id'])
        return cfg['x'] + 2


class C1(ProcessorBase):
    name = 'c1'

    async def process(self, cfg: Input(Inp), a: Input(A)) -> t.Any:
        await nap(cfg, 'c1')
        if 'c1' in cfg.get('fail', ()):
            raise ValueError('c1 failed %s' % cfg['id'])
        return ('c1', a)


class C2(ProcessorBase):
    name = 'c2'

    async def process(self, cfg: Input(Inp), b: Input(B)) -> t.Any:
        await nap(cfg, 'c2')
        if 'c2' in cfg.get('fail', ()):
            raise ValueError('c2 failed %s' % cfg['id'])
        return ('c2', b)


class Sw(ProcessorBase):
    name = 'sw'

    async def process(self, cfg: Input(Inp)) -> str:
        await nap(cfg, 'sw')
        return cfg.get('case', 'one')


class S1(ProcessorBase):
    name = 's1'

    async def process(self, cfg: Input(Inp), a: Input(A)) -> t.Any:
        await nap(cfg, 's1')
        return ('s1', a)


class S2(ProcessorBase):
    name = 's2'
    attempts = 3
    use_default = True

    def get_default(self, **kw):
        return ('s2-default',)

    async def process(self, cfg: Input(Inp), b: Input(B)) -> t.Any:
        await nap(cfg, 's2')
        if 's2' in cfg.get('fail', ()):
            raise ValueError('s2')
        return ('s2', b)


class R(RecurrentProcessor):
    name = 'r'
    use_default = True

    def get_default(self, **kw):
        return ('r-default',)

    async def process(self, cfg: Input(Inp), a: Input(A)) -> t.Any:
        await nap(cfg, 'r')
        if cfg['extra'] is None and cfg.get('rec'):
            return self.next_iteration(cfg['id'])
        if cfg.get('rec') == 'always':
            return self.next_iteration(cfg['id'])
        return ('r', cfg['extra'], a)


class Out(ProcessorBase):
    name = 'out'

    async def process(
        self,
        cfg: Input(Inp),
        o: InputOneOf([C1, C2]),
        s: SwitchCase(name='swx', switch=Sw, cases=[('one', S1), ('two', S2)]),
        r: RecurrentSubGraph(start_node=Inp, dest_node=R, max_iterations=2),
    ) -> t.Any:
        await nap(cfg, 'out')
        if 'out' in cfg.get('fail', ()):
            raise ValueError('out failed %s' % cfg['id'])
        return (cfg['id'], o, s, r)


chart = PipelineChart('m', build_dag(input_node=Inp, output_node=Out))

KEYS = ['inp', 'a', 'c1', 'c2', 'sw', 's1', 's2', 'r', 'out']


def make_cfg(rnd, i):
    return dict(
        id=i,
        x=rnd.randint(0, 100),
        fail=tuple(rnd.sample(['a', 'b', 'c1', 'c2', 's2', 'out'], rnd.choice([0, 0, 1, 1, 2]))),
        case=rnd.choice(['one', 'two', 'three']),
        rec=rnd.choice([None, True, 'always']),
        delay={k: rnd.randint(0, 6) for k in KEYS},
    )


def norm(res):
    return (repr(res.value), type(res.error).__name__, str(res.error))


async def solo(cfg):
    try:
        return norm(await asyncio.wait_for(chart.run(input_kwargs=dict(cfg=cfg)), 5))
    except asyncio.TimeoutError:
        return 'HANG'


async def main():
    seed = int(sys.argv[1]) if len(sys.argv) > 1 else 0
    rnd = random.Random(seed)
    bad = 0
    for rounds in range(200):
        cfgs = [make_cfg(rnd, i) for i in range(rnd.randint(2, 6))]
        expected = [await solo(c) for c in cfgs]
        cancel_idx = rnd.choice([None, 0])

        async def one(i):
            return await solo(cfgs[i])

        tasks = [asyncio.ensure_future(one(i)) for i in range(len(cfgs))]
        if cancel_idx is not None:
            for _ in range(rnd.randint(0, 15)):
                await asyncio.sleep(0)
            tasks[cancel_idx].cancel()
        got = await asyncio.gather(*tasks, return_exceptions=True)
        for i, (e, g) in enumerate(zip(expected, got)):
            if i == cancel_idx:
                continue
            if e != g:
                bad += 1
                print('MISMATCH round', rounds, 'i', i, cfgs[i], '\n  expected', e, '\n  got     ', g)
    print('bad', bad)


asyncio.run(main())
