"""
Defect 1: build_node registers every generated class in the globals of ml_pipeline_engine.node.node under its class
name (default 'Generic<Base>'), so two charts that specialise the same generic node class share ONE global name.
The last build_node call wins: the class of the chart built earlier cannot be pickled any more, and every run of that
chart that reaches the process pool fails with PicklingError - although nothing in that chart changed.

Scenarios (each in a fresh interpreter so that the process-wide pools are fresh):
  solo1 / solo2 : only one chart exists in the process -> the reference outcome of a run "alone"
  both          : both charts exist (built before any run), their runs overlap on one loop
  clobber       : a generated class is named like an engine global of node.py ('asyncio'): every later run of every
                  chart in the process fails (same line, same root cause)
"""
import os
import sys

sys.path.insert(0, os.getcwd())

import asyncio
import json
import logging
import subprocess

from ml_pipeline_engine.chart import PipelineChart
from ml_pipeline_engine.dag_builders.annotation import build_dag
from ml_pipeline_engine.dag_builders.annotation.marks import GenericInput
from ml_pipeline_engine.dag_builders.annotation.marks import Input
from ml_pipeline_engine.node import ProcessorBase
from ml_pipeline_engine.node import build_node
from ml_pipeline_engine.node.enums import NodeTag
from ml_pipeline_engine.parallelism import process_pool_registry
from ml_pipeline_engine.parallelism import threads_pool_registry

logging.disable(logging.CRITICAL)


class Inp(ProcessorBase):
    name = 'inp'

    async def process(self, x: int) -> int:
        return x


class Scale(ProcessorBase):
    """The generic node both charts specialise (the documented build_node usage)"""
    name = 'scale'
    tags = (NodeTag.process,)
    factor = 1

    def process(self, x: GenericInput(Inp)) -> int:
        return x * self.factor


class Plain(ProcessorBase):
    name = 'plain'

    def process(self, x: Input(Inp)) -> int:  # thread pool node
        return x + 1


def make_chart(tag: str, factor: int, **kw) -> PipelineChart:
    node = build_node(Scale, node_name=f'scale_{tag}', attrs={'factor': factor}, x=Input(Inp), **kw)

    class Out(ProcessorBase):
        name = f'out_{tag}'

        async def process(self, v: Input(node)) -> int:
            return v

    return PipelineChart(f'model_{tag}', build_dag(input_node=Inp, output_node=Out))


async def run(chart: PipelineChart, x: int):
    try:
        res = await asyncio.wait_for(chart.run(input_kwargs=dict(x=x)), 30)
        return [res.value, type(res.error).__name__ if res.error else None]
    except asyncio.TimeoutError:
        return ['HANG', None]


async def scenario(name: str):
    threads_pool_registry.auto_init()
    process_pool_registry.auto_init()

    if name == 'solo1':
        return {'one': await run(make_chart('one', 10), 1)}

    if name == 'solo2':
        return {'two': await run(make_chart('two', 100), 1)}

    if name == 'both':
        one, two = make_chart('one', 10), make_chart('two', 100)
        r1, r2 = await asyncio.gather(run(one, 1), run(two, 1))
        return {'one': r1, 'two': r2}

    if name == 'clobber':
        plain = PipelineChart('plain', build_dag(input_node=Inp, output_node=Plain))
        before = await run(plain, 1)
        build_node(Scale, node_name='scale_x', class_name='asyncio', x=Input(Inp))  # a legal class name
        after = await run(plain, 1)
        return {'plain_before': before, 'plain_after': after}


if __name__ == '__main__':
    if len(sys.argv) > 1:
        print('RESULT ' + json.dumps(asyncio.run(scenario(sys.argv[1]))))
        sys.exit(0)

    def sub(name: str) -> dict:
        out = subprocess.run(
            [sys.executable, __file__, name], capture_output=True, text=True, timeout=120, cwd=os.getcwd(),
        ).stdout
        line = [ln for ln in out.splitlines() if ln.startswith('RESULT ')][-1]
        return json.loads(line[len('RESULT '):])

    solo = {**sub('solo1'), **sub('solo2')}
    both = sub('both')
    clobber = sub('clobber')

    print('expected (each chart alone in the process):', solo)
    print('observed (both charts built, runs overlap):', both)
    print('a generated class named "asyncio": run of an unrelated thread-pool chart before / after:', clobber)

    defect = both != solo or clobber['plain_before'] != clobber['plain_after']
    if defect:
        print('DEFECT: building the second chart changed the outcome of the first one '
              '(the generated classes share one global name in ml_pipeline_engine.node.node)')
        sys.exit(1)

    print('no defect')
