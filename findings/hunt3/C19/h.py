import asyncio, sys, typing as t
sys.path.insert(0, '.')
from ml_pipeline_engine.chart import PipelineChart
from ml_pipeline_engine.dag_builders.annotation import build_dag
from ml_pipeline_engine.dag_builders.annotation.marks import Input, InputOneOf, SwitchCase, RecurrentSubGraph
from ml_pipeline_engine.node.base_nodes import ProcessorBase, RecurrentProcessor
from ml_pipeline_engine.artifact_store.store.base import ArtifactStore
from ml_pipeline_engine.artifact_store.errors import ArtifactAlreadyExists
from ml_pipeline_engine.parallelism import threads_pool_registry, process_pool_registry
threads_pool_registry.auto_init()

class Rec:
    saves = []
    events = []
    received = {}

def reset():
    Rec.saves = []; Rec.events = []; Rec.received = {}

class Store(ArtifactStore):
    async def save(self, node_id, data):
        if any(n == node_id for n, _ in Rec.saves):
            Rec.saves.append((node_id, data))
            raise ArtifactAlreadyExists(node_id)
        Rec.saves.append((node_id, data))
    async def load(self, node_id):
        for n, d in Rec.saves:
            if n == node_id: return d
        raise KeyError(node_id)

class Ev:
    async def on_node_start(self, ctx, node_id): Rec.events.append(('start', node_id))
    async def on_node_complete(self, ctx, node_id, error): Rec.events.append(('done', node_id, error))
    async def on_pipeline_start(self, ctx): pass
    async def on_pipeline_complete(self, ctx, result): pass

async def run(inp, out, timeout=5, store=Store, **kw):
    dag = build_dag(input_node=inp, output_node=out)
    chart = PipelineChart('m', dag, artifact_store=store, event_managers=[Ev])
    res = await asyncio.wait_for(chart.run(input_kwargs=kw), timeout)
    return res

def report(res):
    print('result', res.value, 'error', repr(res.error))
    print('saves', Rec.saves)
    print('events', Rec.events)

class LogStore(ArtifactStore):
    """records every save, never fails"""
    async def save(self, node_id, data):
        Rec.saves.append((node_id, data))
    async def load(self, node_id): raise KeyError
