import sys, logging
from _hunt.fuzz import *
logging.disable(logging.CRITICAL)
n = int(sys.argv[1]); kind = sys.argv[2]; lim = int(sys.argv[3])
c = 0
for seed in range(0, 3000):
    r, desc = asyncio.run(one(seed, n, float(sys.argv[4]) if len(sys.argv) > 4 else 0))
    if r and r.startswith(kind):
        print('seed', seed, r[:200]); print('\n'.join('   ' + d for d in desc)); c += 1
        if c >= lim: break
