"""
Defect 2: a node is announced as successfully completed (on_node_complete(error=None)) BEFORE its value is
handed to the artifact store (and before it is published).  on_node_complete carries no value, so the only way
an event manager can get "the results of the nodes" (docs: events let one track payload, results and errors)
is ctx.artifact_store.load(node_id) - which fails for every node because the artifact does not exist yet.
When the save then fails, the node has already been reported as completed without error and no event ever
reports the failure, although the run fails because of this node.

Plain chain a -> b -> c, recording write-once store, no shared nodes, no one-of / recurrent.
"""
import asyncio
import sys

sys.path.insert(0, '.')

from ml_pipeline_engine.artifact_store.store.base import ArtifactStore
from ml_pipeline_engine.chart import PipelineChart
from ml_pipeline_engine.dag_builders.annotation import build_dag
from ml_pipeline_engine.dag_builders.annotation.marks import Input
from ml_pipeline_engine.node.base_nodes import ProcessorBase

SAVED = {}
SEEN_AT_COMPLETE = {}
EVENTS = []
FAIL_ON = set()


class Store(ArtifactStore):
    async def save(self, node_id, data):
        if node_id in FAIL_ON:
            raise OSError(f'disk full while saving {node_id}')
        if node_id in SAVED:
            raise RuntimeError(f'{node_id} saved twice')
        SAVED[node_id] = data

    async def load(self, node_id):
        return SAVED[node_id]


class Events:
    async def on_node_start(self, ctx, node_id):
        EVENTS.append(('start', node_id))

    async def on_node_complete(self, ctx, node_id, error):
        EVENTS.append(('complete', node_id, repr(error)))
        if error is None:
            try:
                SEEN_AT_COMPLETE[node_id] = ('artifact', await ctx.artifact_store.load(node_id))
            except KeyError:
                SEEN_AT_COMPLETE[node_id] = 'NO ARTIFACT'


class A(ProcessorBase):
    name = 'a'

    async def process(self, x: int) -> int:
        return x + 1


class B(ProcessorBase):
    name = 'b'

    async def process(self, a: Input(A)) -> int:
        return a * 10


class C(ProcessorBase):
    name = 'c'

    async def process(self, b: Input(B)) -> int:
        return b + 5


async def main() -> int:
    bad = 0
    chart = PipelineChart('m', build_dag(input_node=A, output_node=C), artifact_store=Store, event_managers=[Events])

    print('--- part 1: the artifact of a node that completed successfully can be loaded in on_node_complete')
    result = await asyncio.wait_for(chart.run(input_kwargs=dict(x=1)), 10)
    print(f'run: value={result.value!r} error={result.error!r}; saved after the run: {SAVED}')
    print("expected at on_node_complete(error=None): {'processor__a': ('artifact', 2), 'processor__b': ('artifact', 20), "
          "'processor__c': ('artifact', 25)}")
    print(f'observed at on_node_complete(error=None): {SEEN_AT_COMPLETE}')
    if any(v == 'NO ARTIFACT' for v in SEEN_AT_COMPLETE.values()):
        bad = 1

    print('--- part 2: the store rejects the value of b')
    SAVED.clear(); EVENTS.clear(); SEEN_AT_COMPLETE.clear(); FAIL_ON.add('processor__b')
    result = await asyncio.wait_for(chart.run(input_kwargs=dict(x=1)), 10)
    print(f'run: value={result.value!r} error={result.error!r}')
    print("expected: b is not reported as completed without error (its value never reached the store); "
          "some event carries the error that fails the run")
    print(f'observed events: {EVENTS}')
    print(f'observed saved: {SAVED}')
    if ('complete', 'processor__b', 'None') in EVENTS and not any(
        e[0] == 'complete' and e[1] == 'processor__b' and e[2] != 'None' for e in EVENTS
    ):
        bad = 1
    return bad


if __name__ == '__main__':
    sys.exit(asyncio.run(main()))
