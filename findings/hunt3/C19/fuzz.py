import random, logging
from _hunt.h import *
from collections import Counter

def make(seed, n=8, fail_p=0.0, store_delay=False):
    rnd = random.Random(seed)
    nodes = []
    role = {}
    desc = []
    def mk(i, ann, delay, fail):
        async def process(self, **kw):
            await asyncio.sleep(delay)
            Rec.received.setdefault(f'n{i}', []).append(dict(kw))
            if fail: raise ValueError(f'n{i} failed')
            return (i, Rec.tick())
        process.__annotations__ = ann
        return type(f'N{i}', (ProcessorBase,), {'name': f'n{i}', 'process': process})
    async def p0(self, x: int):
        return (0, Rec.tick())
    nodes.append(type('N0', (ProcessorBase,), {'name': 'n0', 'process': p0}))
    desc.append('n0: input')
    for i in range(1, n):
        ann = {}
        k = rnd.randint(1, 3)
        parts = []
        used = set()
        for j in range(k):
            kind = rnd.random()
            pool = [x for x in nodes if x.name not in used]
            if not pool: break
            plain = [x for x in pool if role.get(x.name, 'plain') == 'plain']
            cands = [x for x in pool[1:] if role.get(x.name, 'cand') == 'cand']
            if kind < 0.5 or len(pool) < 3 or (kind < 0.75 and not cands) or (kind >= 0.75 and len(plain) < 3):
                if not plain: continue
                d = rnd.choice(plain)
                role[d.name] = 'plain'; used.add(d.name)
                ann[f'a{j}'] = Input(d); parts.append(f'a{j}=In({d.name})')
            elif kind < 0.75:
                c = rnd.sample(cands, min(len(cands), rnd.randint(1,3)))
                for x in c: role[x.name] = 'cand'
                ann[f'a{j}'] = InputOneOf(c); parts.append(f'a{j}=OneOf({[x.name for x in c]})')
            else:
                pl = [x for x in plain if x is not nodes[0]]
                if len(pl) < 2: continue
                c = rnd.sample(pl, 2)
                for x in c: role[x.name] = 'plain'
                lab = mklabel(i, j, len(c), rnd, plain)
                ann[f'a{j}'] = SwitchCase(switch=lab, cases=[(str(q), cn) for q, cn in enumerate(c)], name=f'sw{i}_{j}')
                parts.append(f'a{j}=Switch({lab.name}->{[x.name for x in c]})')
        if not ann: ann['a0'] = Input(nodes[0])
        fail = rnd.random() < fail_p
        nodes.append(mk(i, ann, rnd.choice([0, 0, 0.001, 0.002, 0.005]), fail))
        desc.append(f'n{i}: ' + ', '.join(parts) + (' FAIL' if fail else ''))
    return nodes, desc

def mklabel(i, j, ncases, rnd, nodes):
    dep = rnd.choice(nodes)
    pick = str(rnd.randrange(ncases))
    async def process(self, d: Input(dep)):
        await asyncio.sleep(rnd.choice([0, 0.001]))
        return pick
    return type(f'L{i}_{j}', (ProcessorBase,), {'name': f'l{i}_{j}({pick})<{dep.name}', 'process': process})

IGN_DUP = True
_t = [0]
def tick():
    _t[0] += 1; return _t[0]
Rec.tick = staticmethod(tick)

async def one(seed, n, fail_p):
    reset()
    nodes, desc = make(seed, n, fail_p)
    try:
        res = await run(nodes[0], nodes[-1], timeout=3, store=LogStore, x=1)
    except asyncio.TimeoutError:
        return 'HANG', desc
    except Exception as e:
        return f'EXC {e!r}', desc
    if res.error is not None:
        return f'ERR {res.error!r}', desc
    cnt = Counter(n for n, _ in Rec.saves)
    done = Counter(e[1] for e in Rec.events if e[0] == 'done' and e[2] is None)
    probs = []
    for n_, c in cnt.items():
        if c != 1: probs.append(f'dup {n_} x{c} {[d for q,d in Rec.saves if q==n_]}')
    for n_ in done:
        if n_ not in cnt: probs.append(f'missing {n_}')
    for n_, d in Rec.saves:
        if isinstance(d, BaseException): probs.append(f'exc saved {n_}')
    probs = [p for p in probs if not p.startswith('dup')] if IGN_DUP else probs
    starts = Counter(e[1] for e in Rec.events if e[0] == 'start')
    for n_, c in starts.items():
        if c != 1: probs.append(f'executed {n_} x{c}')
    saved = set((n_, repr(d)) for n_, d in Rec.saves)
    for cons, lst in Rec.received.items():
        for kw in lst:
            for k, v in kw.items():
                if isinstance(v, tuple) and len(v) == 2:
                    if (f'processor__n{v[0]}', repr(v)) not in saved: probs.append(f'{cons}.{k} received {v!r} not saved')
                elif not isinstance(v, str):
                    probs.append(f'{cons}.{k} received {v!r}')
    if probs: return 'PROB ' + '; '.join(probs), desc
    return None, desc

if __name__ == '__main__':
    import sys
    fail_p = float(sys.argv[1]); n = int(sys.argv[2]); lo = int(sys.argv[3]); hi = int(sys.argv[4])
    logging.disable(logging.CRITICAL)
    out = Counter()
    for seed in range(lo, hi):
        r, desc = asyncio.run(one(seed, n, fail_p))
        if r:
            key = r.split(' ')[0]
            out[key] += 1
            print(seed, r[:300])
    print(out)
