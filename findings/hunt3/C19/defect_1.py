"""
Defect 1: the shipped FileSystemArtifactStore cannot be configured the way docs/usage_examples.md shows
(`artifact_store=FileSystemArtifactStore`): the context instantiates the configured class with `ctx` only,
but FileSystemArtifactStore.__init__ has a second required parameter `artifact_dir`.

Expected: a chart configured as documented runs and every node's value is saved once (or at least the run
          reports the problem through PipelineResult.error like every other failure of a run).
Observed: PipelineChart.run() raises TypeError before the first node runs; nothing is saved, no
          PipelineResult is produced and on_pipeline_start / on_pipeline_complete are never emitted.
"""
import asyncio
import sys

sys.path.insert(0, '.')

from ml_pipeline_engine.artifact_store.store.filesystem import FileSystemArtifactStore
from ml_pipeline_engine.chart import PipelineChart
from ml_pipeline_engine.dag_builders.annotation import build_dag
from ml_pipeline_engine.dag_builders.annotation.marks import Input
from ml_pipeline_engine.node.base_nodes import ProcessorBase

EVENTS = []


class Events:
    async def on_pipeline_start(self, ctx): EVENTS.append('pipeline_start')
    async def on_pipeline_complete(self, ctx, result): EVENTS.append('pipeline_complete')
    async def on_node_start(self, ctx, node_id): EVENTS.append(('start', node_id))
    async def on_node_complete(self, ctx, node_id, error): EVENTS.append(('complete', node_id, error))


# the pipeline of the documentation example (docs/usage_examples.md, "Пример запуска чарта с хранилищем артефактов")
class InvertNumber(ProcessorBase):
    name = 'invert_number'

    async def process(self, num: float) -> float:
        return -num


class AddConst(ProcessorBase):
    name = 'add_const'

    async def process(self, num: Input(InvertNumber), const: float = 0.1) -> float:
        return num + const


class DoubleNumber(ProcessorBase):
    name = 'double_number'

    async def process(self, num: Input(AddConst)) -> float:
        return num * 2


async def main() -> int:
    chart = PipelineChart(
        model_name='name',
        entrypoint=build_dag(input_node=InvertNumber, output_node=DoubleNumber),
        artifact_store=FileSystemArtifactStore,   # exactly as documented
        event_managers=[Events],
    )

    print('expected: chart.run() returns PipelineResult(value=-5.8, error=None) and 3 artifacts are written')
    try:
        result = await asyncio.wait_for(chart.run(input_kwargs=dict(num=3.0)), 10)
    except TypeError as ex:
        print(f'observed: chart.run() RAISED {ex!r}')
        print(f'          events emitted: {EVENTS}')
        return 1

    print(f'observed: value={result.value!r} error={result.error!r}')
    return 0 if result.error is None else 1


if __name__ == '__main__':
    sys.exit(asyncio.run(main()))
