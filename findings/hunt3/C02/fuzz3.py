"""fuzz with collaborators failing, retries, defaults, thread-mode bodies"""
import sys, time
from _hunt.fuzz import *
from ml_pipeline_engine.artifact_store.store.base import SerializedArtifactStore

class Gen3(Gen):
    def mk(self, name, ann, plain=True, label=None):
        cls = super().mk(name, ann, plain, label)
        r = self.r
        beh = self.behaviour[name]
        if name == 'In':
            return cls
        # retry configuration
        if r.random() < 0.3:
            cls.attempts = r.choice([1, 2, 3])
            cls.delay = r.choice([None, 0, 0.001])
            beh['attempts'] = cls.attempts
        if r.random() < 0.2:
            cls.use_default = True
            dv = r.choice([None, 0, 'd'])
            cls.get_default = lambda self, **kw: dv
            beh['default'] = dv
        if r.random() < 0.25:
            # thread-mode body
            fail, retval = beh['fail'], beh['ret'] if label is None else label
            def process(self, **kwargs):
                time.sleep(0.001)
                if fail:
                    raise ValueError(name)
                return retval
            old = cls.process
            process.__annotations__ = old.__annotations__
            process.__signature__ = old.__signature__
            cls.process = process
            beh['thread'] = True
        return cls

def make_collabs(seed):
    r = random.Random(seed * 31 + 1)
    p_store = r.choice([0, 0, 0.1, 0.3])
    p_ev = r.choice([0, 0, 0.1, 0.3])
    class Store:
        def __init__(self, ctx, *a, **k): pass
        async def save(self, node_id, data):
            await asyncio.sleep(0)
            if r.random() < p_store:
                raise RuntimeError(f'store {node_id}')
        async def load(self, node_id): raise KeyError
    class Ev:
        async def on_pipeline_start(self, ctx): pass
        async def on_pipeline_complete(self, ctx, result): pass
        async def on_node_start(self, ctx, node_id):
            if r.random() < p_ev: raise RuntimeError(f'ev start {node_id}')
        async def on_node_complete(self, ctx, node_id, error):
            if r.random() < p_ev: raise RuntimeError(f'ev complete {node_id}')
    return Store, Ev

def one3(seed):
    r = random.Random(seed * 7919)
    g = Gen3(seed, p_fail=r.choice([0.1, 0.25, 0.4]))
    i, o = g.build(size=r.randint(2, 5), depth=r.randint(1, 3))
    dag = build_dag(i, o)
    Store, Ev = make_collabs(seed)
    chart = PipelineChart('m', dag, artifact_store=Store, event_managers=[Ev])
    kind, val = run_chart(chart, timeout=4.0, input_kwargs={'x': 1})
    return kind, val, g

if __name__ == '__main__':
    lo, hi = int(sys.argv[1]), int(sys.argv[2])
    hangs = []
    for s in range(lo, hi):
        kind, val, g = one3(s)
        if kind == 'hang':
            hangs.append(s)
            print('hang', s, flush=True)
    print('HANGS', hangs)
