from _hunt.common import *

class In(ProcessorBase):
    async def process(self, x: int) -> int:
        return x

class Decide(ProcessorBase):
    async def process(self, x: Input(In)) -> str:
        return 'a'

class InnerDecide(ProcessorBase):
    async def process(self, x: Input(In)) -> str:
        return 'unknown-label'

class P(ProcessorBase):
    async def process(self, x: Input(In)) -> int:
        return 1

class CaseA(ProcessorBase):
    async def process(self, f: SwitchCase(name='inner', switch=InnerDecide, cases=[('p', P)])) -> int:
        return f + 1

class CaseB(ProcessorBase):
    async def process(self, x: Input(In)) -> int:
        return 2

class Primary(ProcessorBase):
    async def process(self, v: SwitchCase(name='outer', switch=Decide, cases=[('a', CaseA), ('b', CaseB)])) -> int:
        return v

class Fallback(ProcessorBase):
    async def process(self, x: Input(In)) -> int:
        return 42

class Out(ProcessorBase):
    async def process(self, v: InputOneOf([Primary, Fallback])) -> int:
        return v

chart = PipelineChart('m', build_dag(In, Out))
print(run_chart(chart, input_kwargs={'x': 1}))
