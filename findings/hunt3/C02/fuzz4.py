"""concurrent + repeated runs of one chart"""
import sys
from _hunt.fuzz3 import *

def one4(seed):
    r = random.Random(seed * 7919)
    g = Gen3(seed, p_fail=r.choice([0.1, 0.25]))
    i, o = g.build(size=r.randint(2, 4), depth=r.randint(1, 2))
    chart = PipelineChart('m', build_dag(i, o))
    async def main():
        try:
            a = await asyncio.wait_for(asyncio.gather(*[chart.run(input_kwargs={'x': 1}) for _ in range(3)]), 6)
            b = await asyncio.wait_for(chart.run(input_kwargs={'x': 1}), 6)
            return 'ok', [(x.value, repr(x.error)) for x in a + [b]]
        except asyncio.TimeoutError:
            return 'hang', None
    return asyncio.run(main())

if __name__ == '__main__':
    lo, hi = int(sys.argv[1]), int(sys.argv[2])
    for s in range(lo, hi):
        k, v = one4(s)
        if k == 'hang':
            print('hang', s, flush=True)
        elif len(set(v)) != 1:
            print('differ', s, v, flush=True)
    print('DONE')
