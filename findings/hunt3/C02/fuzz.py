import random, sys, asyncio, logging
from _hunt.common import *

logging.disable(logging.CRITICAL)
import os
if os.environ.get("PATCH_D1"): import _hunt.patch_d1

class Gen:
    def __init__(self, seed, p_fail=0.2, allow=('input', 'oneof', 'switch')):
        self.r = random.Random(seed)
        self.n = 0
        self.p_fail = p_fail
        self.allow = allow
        self.desc = []
        self.behaviour = {}
        self.In = self.mk('In', {'x': int}, plain=False)
        self.plain = [self.In]   # nodes usable as plain Input anywhere

    def mk(self, name, ann, plain=True, label=None):
        r = self.r
        fail = r.random() < self.p_fail and name != 'In'
        yields = r.randint(0, 3)
        retval = label if label is not None else r.choice([None, 0, 1, 'v'])
        beh = dict(fail=fail, yields=yields, ret=retval)
        self.behaviour[name] = beh

        async def process(self, **kwargs):
            for _ in range(yields):
                await asyncio.sleep(0)
            if fail:
                raise ValueError(name)
            return retval
        process.__annotations__ = dict(ann)
        process.__annotations__['return'] = t.Any
        # explicit signature
        import inspect
        params = [inspect.Parameter('self', inspect.Parameter.POSITIONAL_OR_KEYWORD)] + [
            inspect.Parameter(k, inspect.Parameter.KEYWORD_ONLY, annotation=v) for k, v in ann.items()]
        process.__signature__ = inspect.Signature(params)
        cls = type(name, (ProcessorBase,), {'process': process, 'name': name})
        self.desc.append((name, {k: self.show(v) for k, v in ann.items()}, beh))
        return cls

    def show(self, v):
        from ml_pipeline_engine.dag_builders.annotation.marks import InputMark, InputOneOfMark, SwitchCaseMark
        if isinstance(v, InputMark): return f'Input({v.node.name})'
        if isinstance(v, InputOneOfMark): return f'OneOf({[n.name for n in v.nodes]})'
        if isinstance(v, SwitchCaseMark): return f'Switch({v.switch.name},{[(l, n.name) for l, n in v.cases]})'
        return str(v)

    def fresh(self, depth, private):
        """make a fresh node (not registered as plain) whose inputs come from plain pool / private nodes / constructs"""
        self.n += 1
        name = f'N{self.n}'
        ann = {}
        used = set()
        for i in range(self.r.randint(1, 2)):
            kind = self.r.choice(self.allow) if depth > 0 else 'input'
            if kind == 'input':
                pool = [p for p in self.plain + private if p.name not in used]
                if not pool: continue
                src = self.r.choice(pool)
                used.add(src.name)
                ann[f'p{i}'] = Input(src)
            elif kind == 'oneof':
                cands = [self.fresh(depth - 1, list(private)) for _ in range(self.r.randint(1, 3))]
                ann[f'p{i}'] = InputOneOf(cands)
            else:
                labels = ['a', 'b', 'c'][: self.r.randint(1, 3)]
                lab = self.r.choice(labels + ['zz'] if self.r.random() < 0.15 else labels)
                self.n += 1
                dec_src = self.r.choice(self.plain + private)
                dec = self.mk(f'D{self.n}', {'q': Input(dec_src)}, label=lab)
                cases = [(l, self.fresh(depth - 1, list(private))) for l in labels]
                ann[f'p{i}'] = SwitchCase(name=f'sw{self.n}', switch=dec, cases=cases)
        if not ann:
            ann['p0'] = Input(self.In)
        return self.mk(name, ann)

    def build(self, size=4, depth=2):
        for _ in range(size):
            node = self.fresh(depth, [])
            self.plain.append(node)
        self.n += 1
        ann = {}
        # output consumes the last plain node plus maybe another
        ann['o0'] = Input(self.plain[-1])
        if len(self.plain) > 2 and self.r.random() < 0.5:
            ann['o1'] = Input(self.plain[-2])
        out = self.mk('Out', ann)
        self.behaviour['Out']['fail'] = False
        return self.In, out


def one(seed, verbose=False, **kw):
    g = Gen(seed, **kw)
    i, o = g.build()
    try:
        dag = build_dag(i, o)
    except Exception as ex:
        return 'builderr', repr(ex), g
    chart = PipelineChart('m', dag)
    kind, val = run_chart(chart, timeout=2.0, input_kwargs={'x': 1})
    return kind, val, g


if __name__ == '__main__':
    lo, hi = int(sys.argv[1]), int(sys.argv[2])
    hangs = []
    for s in range(lo, hi):
        kind, val, g = one(s)
        if kind != 'result':
            print(s, kind, val)
        if kind == 'hang':
            hangs.append(s)
    print('HANGS', hangs)
