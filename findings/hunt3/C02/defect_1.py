"""
Defect 1: a failure inside the sub-dag of the selected switch case of a one-of candidate hangs the run.

Shape:   Out <- InputOneOf([Primary, Fallback])
         Primary <- SwitchCase(Decide, a -> CaseA, b -> CaseB)
         CaseA <- Feature (raises)                      [variant 1]
         CaseA <- SwitchCase(InnerDecide -> no branch)  [variant 2]
Expected: the candidate Primary fails, Fallback is used, run returns 42.
Run from /tmp/hunt_C02:  /venv/bin/python _hunt/defect_1.py
"""
import asyncio
import logging
import os
import sys

sys.path.insert(0, os.getcwd())
logging.disable(logging.CRITICAL)

from ml_pipeline_engine.chart import PipelineChart  # noqa: E402
from ml_pipeline_engine.dag_builders.annotation import build_dag  # noqa: E402
from ml_pipeline_engine.dag_builders.annotation.marks import Input, InputOneOf, SwitchCase  # noqa: E402
from ml_pipeline_engine.node.base_nodes import ProcessorBase  # noqa: E402


class In(ProcessorBase):
    async def process(self, x: int) -> int:
        return x


class Decide(ProcessorBase):
    async def process(self, x: Input(In)) -> str:
        return 'a'


class Fallback(ProcessorBase):
    async def process(self, x: Input(In)) -> int:
        return 42


class CaseB(ProcessorBase):
    async def process(self, x: Input(In)) -> int:
        return 2


# ---- variant 1: a plain dependency of the selected case raises
class Feature(ProcessorBase):
    async def process(self, x: Input(In)) -> int:
        raise ValueError('feature failed')


class CaseA1(ProcessorBase):
    async def process(self, f: Input(Feature)) -> int:
        return f + 1


class Primary1(ProcessorBase):
    async def process(self, v: SwitchCase(name='sw1', switch=Decide, cases=[('a', CaseA1), ('b', CaseB)])) -> int:
        return v


class Out1(ProcessorBase):
    async def process(self, v: InputOneOf([Primary1, Fallback])) -> int:
        return v


# ---- variant 2: the selected case contains a switch whose label matches no case
class InnerDecide(ProcessorBase):
    async def process(self, x: Input(In)) -> str:
        return 'unknown-label'


class P(ProcessorBase):
    async def process(self, x: Input(In)) -> int:
        return 1


class CaseA2(ProcessorBase):
    async def process(self, f: SwitchCase(name='inner', switch=InnerDecide, cases=[('p', P)])) -> int:
        return f + 1


class Primary2(ProcessorBase):
    async def process(self, v: SwitchCase(name='sw2', switch=Decide, cases=[('a', CaseA2), ('b', CaseB)])) -> int:
        return v


class Out2(ProcessorBase):
    async def process(self, v: InputOneOf([Primary2, Fallback])) -> int:
        return v


async def attempt(out_node: type) -> str:
    chart = PipelineChart('defect_1', build_dag(In, out_node))
    try:
        result = await asyncio.wait_for(chart.run(input_kwargs={'x': 1}), 3)
    except asyncio.TimeoutError:
        return 'HANG (no result after 3s, every node body has returned long ago)'
    return f'value={result.value!r} error={result.error!r}'


def main() -> int:
    bad = False
    for title, out in (
        ('variant 1 (dependency of the selected case raises)', Out1),
        ('variant 2 (switch without a branch inside the selected case)', Out2),
    ):
        observed = asyncio.run(attempt(out))
        print(f'{title}\n  expected: value=42 error=None (Primary fails, Fallback is used)\n  observed: {observed}')
        bad = bad or observed.startswith('HANG')
    print('DEFECT REPRODUCED' if bad else 'defect not reproduced')
    return 1 if bad else 0


if __name__ == '__main__':
    sys.exit(main())
