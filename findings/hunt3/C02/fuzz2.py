import sys
from _hunt.fuzz import *

def one2(seed):
    r = random.Random(seed * 7919)
    g = Gen(seed, p_fail=r.choice([0.1, 0.25, 0.4]))
    i, o = g.build(size=r.randint(2, 6), depth=r.randint(1, 3))
    try:
        dag = build_dag(i, o)
    except Exception as ex:
        return 'builderr', repr(ex), g
    chart = PipelineChart('m', dag)
    kind, val = run_chart(chart, timeout=3.0, input_kwargs={'x': 1})
    return kind, val, g

if __name__ == '__main__':
    lo, hi = int(sys.argv[1]), int(sys.argv[2])
    hangs = []
    for s in range(lo, hi):
        kind, val, g = one2(s)
        if kind == 'hang':
            hangs.append(s)
    print('HANGS', hangs)
