from _hunt.common import *
import logging; logging.disable(logging.CRITICAL)

class In(ProcessorBase):
    async def process(self, x: int) -> int:
        return x
class A(ProcessorBase):
    async def process(self, x: Input(In)) -> int:
        await asyncio.sleep(0.01); raise ValueError('A')
class B(ProcessorBase):
    async def process(self, x: Input(In)) -> int:
        await asyncio.sleep(0.01); return 2
class D(ProcessorBase):
    async def process(self, x: Input(In)) -> str:
        return 'a'

def show(title, out, inp=In):
    try:
        chart = PipelineChart('m', build_dag(inp, out))
    except Exception as ex:
        print(title, 'BUILD', repr(ex)); return
    k, v = run_chart(chart, input_kwargs={'x': 1})
    print(title, k, (v.value, repr(v.error)) if k == 'result' else v)

# same candidate in two one-ofs
class P1(ProcessorBase):
    async def process(self, v: InputOneOf([A, B])) -> int: return v
class Q1(ProcessorBase):
    async def process(self, v: InputOneOf([A, B])) -> int: return v
class O1(ProcessorBase):
    async def process(self, p: Input(P1), q: Input(Q1)) -> int: return p + q
show('same candidates in two one-ofs', O1)

# same case node in two switches
class P2(ProcessorBase):
    async def process(self, v: SwitchCase(name='s1', switch=D, cases=[('a', B)])) -> int: return v
class Q2(ProcessorBase):
    async def process(self, v: SwitchCase(name='s2', switch=D, cases=[('a', B)])) -> int: return v
class O2(ProcessorBase):
    async def process(self, p: Input(P2), q: Input(Q2)) -> int: return p + q
show('same case in two switches', O2)

# case node == input node
class O3(ProcessorBase):
    async def process(self, v: SwitchCase(name='s3', switch=D, cases=[('a', In), ('b', B)])) -> int: return v
show('case node is the input node', O3)

class O4(ProcessorBase):
    async def process(self, v: InputOneOf([])) -> int: return v
show('empty one-of', O4)

class O5(ProcessorBase):
    async def process(self, v: SwitchCase(name='s5', switch=D, cases=[])) -> int: return v
show('switch without cases', O5)

# max_iterations = 0
class S6(ProcessorBase):
    async def process(self, x: Input(In), additional_data: t.Any = None) -> int: return 1
class R6(RecurrentProcessor):
    async def process(self, s: Input(S6)) -> int: return self.next_iteration(1)
class O6(ProcessorBase):
    async def process(self, v: RecurrentSubGraph(S6, R6, 0)) -> int: return v
show('max_iterations=0', O6)

# custom BaseException
class Abort(BaseException): pass
class X7(ProcessorBase):
    async def process(self, x: Input(In)) -> int: raise Abort()
class O7(ProcessorBase):
    async def process(self, v: Input(X7)) -> int: return v
show('custom BaseException', O7)
class O8(ProcessorBase):
    async def process(self, v: InputOneOf([X7, B])) -> int: return v
show('custom BaseException in candidate', O8)
