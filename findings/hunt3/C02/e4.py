from _hunt.common import *

class In(ProcessorBase):
    async def process(self, x: int) -> int:
        return x

class Primary(ProcessorBase):
    async def process(self, x: Input(In)) -> int:
        return 1

class Fallback(ProcessorBase):
    async def process(self, x: Input(In)) -> int:
        return 2

class Other(ProcessorBase):
    async def process(self, x: Input(In)) -> int:
        return 3

class Decide(ProcessorBase):
    async def process(self, x: Input(In)) -> str:
        return 'fb'

class UsesOneOf(ProcessorBase):
    async def process(self, v: InputOneOf([Primary, Fallback])) -> int:
        return v

class UsesSwitch(ProcessorBase):
    async def process(self, v: SwitchCase(name='sw', switch=Decide, cases=[('fb', Fallback), ('o', Other)])) -> int:
        return v

class Out(ProcessorBase):
    async def process(self, a: Input(UsesOneOf), b: Input(UsesSwitch)) -> int:
        return a * 10 + b

enable_debug()
chart = PipelineChart('m', build_dag(In, Out))
print(run_chart(chart, input_kwargs={'x': 1}))
