"""In-memory patch (fuzzing aid only): makes a failure inside a case sub-dag visible to the enclosing one-of dag."""
from ml_pipeline_engine.dag.manager import DAGRunConcurrentManager as M

async def _run_switch(self, dag, node_id):
    try:
        self._add_case_result(node_id)
    except Exception as ex:
        if dag.is_oneof:
            self._node_storage.set_node_result(node_id, ex)
            await self._DAGRunConcurrentManager__unlock_descendants(node_id)
            await self._DAGRunConcurrentManager__unlock_itself(dag.dest)
            return None
        await self._DAGRunConcurrentManager__raise_exc(ex)
    case_node = self._node_storage.get_switch_result(node_id).node_id
    case_dag = self._get_reduced_dag(self.dag.input_node, case_node, is_oneof=dag.is_oneof)
    try:
        res = await self._run_dag(dag=case_dag)
        if dag.is_oneof and self._DAGRunConcurrentManager__has_subgraph_error(case_dag):
            err = next(self._node_storage.get_node_result(n) for n in case_dag.nodes if self._node_storage.exists_node_error(n))
            if not self._node_storage.exists_node_result(case_node):
                self._node_storage.set_node_result(case_node, err)
            self._node_storage.set_node_result(node_id, err)
            await self._DAGRunConcurrentManager__unlock_itself(dag.dest)
        return res
    finally:
        await self._DAGRunConcurrentManager__unlock_descendants(node_id)

M._run_switch = _run_switch
