"""
Defect 4: a recurrent subgraph whose start node is not an ancestor of the destination node (accepted by the
builder) hangs the run as soon as the destination asks for another iteration: the connected subgraph is empty,
_run_dag() returns None for an empty node list and _run_recurrent_subgraph() takes that None for the final
(non-Recurrent, error free) result of the iteration.  The Recurrent marker stays the result of the node for ever.

Shape:   In -> Side (has additional_data) -> Out
         In -> Dest (RecurrentProcessor)  -> Out     Out: RecurrentSubGraph(start_node=Side, dest_node=Dest, 3)
Expected: an error result (RecurrentSubgraphDoesNotHaveResultError / a build error), or the default value.

Second trigger of the same "empty sub-dag counts as finished work" exit (overlaps with the known hidden-candidate
defect, shown for completeness): the selected case of a switch is also a candidate of a one-of that has not started
it.  The case sub-dag is empty (the case node is filtered out), _run_switch() is "done", the consumer waits for ever.
         UsesOneOf <- InputOneOf([Primary, Shared]);  UsesSwitch <- SwitchCase(Decide, fb -> Shared, o -> Other)
Run from /tmp/hunt_C02:  /venv/bin/python _hunt/defect_4.py
"""
import asyncio
import logging
import os
import sys
import typing as t

sys.path.insert(0, os.getcwd())
logging.disable(logging.CRITICAL)

from ml_pipeline_engine.chart import PipelineChart  # noqa: E402
from ml_pipeline_engine.dag_builders.annotation import build_dag  # noqa: E402
from ml_pipeline_engine.dag_builders.annotation.marks import Input, InputOneOf, RecurrentSubGraph, SwitchCase  # noqa: E402,E501
from ml_pipeline_engine.node.base_nodes import ProcessorBase, RecurrentProcessor  # noqa: E402

CALLS: t.List[str] = []


class In(ProcessorBase):
    async def process(self, x: int) -> int:
        return x


class Side(ProcessorBase):
    async def process(self, x: Input(In), additional_data: t.Any = None) -> int:
        CALLS.append(f'Side({additional_data})')
        return 5


class Dest(RecurrentProcessor):
    use_default = True

    async def process(self, x: Input(In)) -> int:
        CALLS.append('Dest')
        if CALLS.count('Dest') < 2:
            return self.next_iteration({'again': 1})
        return 10

    def get_default(self, **kwargs: t.Any) -> int:
        return -1


class Out(ProcessorBase):
    async def process(
        self,
        s: Input(Side),
        y: RecurrentSubGraph(start_node=Side, dest_node=Dest, max_iterations=3),
    ) -> int:
        return y + s


# ---- second trigger
class Primary(ProcessorBase):
    async def process(self, x: Input(In)) -> int:
        return 1


class Shared(ProcessorBase):
    async def process(self, x: Input(In)) -> int:
        return 2


class Other(ProcessorBase):
    async def process(self, x: Input(In)) -> int:
        return 3


class Decide(ProcessorBase):
    async def process(self, x: Input(In)) -> str:
        return 'fb'


class UsesOneOf(ProcessorBase):
    async def process(self, v: InputOneOf([Primary, Shared])) -> int:
        return v


class UsesSwitch(ProcessorBase):
    async def process(self, v: SwitchCase(name='sw', switch=Decide, cases=[('fb', Shared), ('o', Other)])) -> int:
        return v


class Out2(ProcessorBase):
    async def process(self, a: Input(UsesOneOf), b: Input(UsesSwitch)) -> int:
        return a * 10 + b


async def attempt(out_node: type = Out) -> str:
    chart = PipelineChart('defect_4', build_dag(In, out_node))  # the builder accepts the declaration
    try:
        result = await asyncio.wait_for(chart.run(input_kwargs={'x': 1}), 3)
    except asyncio.TimeoutError:
        return f'HANG (no result after 3s); node executions: {CALLS}'
    return f'value={result.value!r} error={result.error!r}'


def main() -> int:
    observed = asyncio.run(attempt())
    print(f'recurrent subgraph whose start node is not an ancestor of the destination\n'
          f'  expected: an error result (or a value); the run ends\n  observed: {observed}')
    bad = observed.startswith('HANG')
    CALLS.clear()
    observed = asyncio.run(attempt(Out2))
    print(f'selected switch case that is also a not yet started one-of candidate\n'
          f'  expected: value=12 error=None\n  observed: {observed}')
    bad = bad or observed.startswith('HANG')
    print('DEFECT REPRODUCED' if bad else 'defect not reproduced')
    return 1 if bad else 0


if __name__ == '__main__':
    sys.exit(main())
