from _hunt.common import *

class In(ProcessorBase):
    async def process(self, x: int) -> int:
        return x

class Side(ProcessorBase):
    async def process(self, x: Input(In), additional_data: t.Any = None) -> int:
        return 5

CALLS = []
class Dest(RecurrentProcessor):
    use_default = True
    async def process(self, x: Input(In)) -> int:
        CALLS.append(1)
        if len(CALLS) < 2:
            return self.next_iteration({'again': 1})
        return 10
    def get_default(self, **kwargs):
        return -1

class Out(ProcessorBase):
    async def process(self, s: Input(Side), y: RecurrentSubGraph(start_node=Side, dest_node=Dest, max_iterations=3)) -> int:
        return y + s

chart = PipelineChart('m', build_dag(In, Out))
print(run_chart(chart, input_kwargs={'x': 1}), CALLS)
