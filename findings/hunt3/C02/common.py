import asyncio
import os
import sys
import typing as t

sys.path.insert(0, os.getcwd())

from ml_pipeline_engine.chart import PipelineChart  # noqa: E402
from ml_pipeline_engine.dag_builders.annotation import build_dag  # noqa: E402
from ml_pipeline_engine.dag_builders.annotation.marks import Input, InputOneOf, SwitchCase, RecurrentSubGraph  # noqa
from ml_pipeline_engine.node.base_nodes import ProcessorBase, RecurrentProcessor  # noqa: E402
from ml_pipeline_engine.parallelism import threads_pool_registry  # noqa: E402

threads_pool_registry.auto_init()

TIMEOUT = 3.0


def run_chart(chart: PipelineChart, timeout: float = TIMEOUT, **run_kwargs: t.Any):
    """Returns ('hang', None) | ('result', PipelineResult) | ('raised', exc)"""

    async def main():
        try:
            res = await asyncio.wait_for(chart.run(**run_kwargs), timeout)
            return 'result', res
        except asyncio.TimeoutError:
            return 'hang', None
        except BaseException as ex:  # noqa
            return 'raised', ex

    return asyncio.run(main())


def enable_debug():
    import logging
    logging.basicConfig(level=logging.DEBUG, format='%(name)s %(message)s')
