import sys, os
from _hunt.fuzz import *
seed = int(sys.argv[1])
r = random.Random(seed * 7919)
g = Gen(seed, p_fail=r.choice([0.1, 0.25, 0.4]))
i, o = g.build(size=r.randint(2, 6), depth=r.randint(1, 3))
for name, ann, beh in g.desc:
    print(name, ann, 'FAIL' if beh['fail'] else f"ret={beh['ret']!r}", f"y={beh['yields']}")
if len(sys.argv) > 2:
    logging.disable(logging.NOTSET)
    enable_debug()
    chart = PipelineChart('m', build_dag(i, o))
    print(run_chart(chart, timeout=2.0, input_kwargs={'x': 1})[0])
