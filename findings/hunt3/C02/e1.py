from _hunt.common import *

class In(ProcessorBase):
    async def process(self, x: int) -> int:
        return x

class Flaky(RecurrentProcessor):
    # reusable node: asks for another iteration; here it is consumed by a plain Input
    async def process(self, x: Input(In)) -> int:
        return self.next_iteration({'again': 1})

class Out(ProcessorBase):
    async def process(self, y: Input(Flaky)) -> int:
        return y

chart = PipelineChart('m', build_dag(In, Out))
print(run_chart(chart, input_kwargs={'x': 1}))
