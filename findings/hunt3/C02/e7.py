from _hunt.common import *

class Violations(Exception):
    """aggregate error: a container of messages (len() == number of messages)"""
    def __init__(self, *messages):
        super().__init__(*messages)
        self.messages = list(messages)
    def __len__(self):
        return len(self.messages)

class In(ProcessorBase):
    async def process(self, x: int) -> int:
        return x

class Validate(ProcessorBase):
    async def process(self, x: Input(In)) -> int:
        raise Violations()          # falsy exception instance

class Out(ProcessorBase):
    async def process(self, y: Input(Validate)) -> int:
        return y

chart = PipelineChart('m', build_dag(In, Out))
print(run_chart(chart, input_kwargs={'x': 1}))
