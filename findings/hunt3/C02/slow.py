import sys, time
from _hunt.fuzz import *
seed = int(sys.argv[1])
r = random.Random(seed * 7919)
g = Gen(seed, p_fail=r.choice([0.1, 0.25, 0.4]))
i, o = g.build(size=r.randint(2, 6), depth=r.randint(1, 3))
chart = PipelineChart('m', build_dag(i, o))
t0 = time.time()
k, v = run_chart(chart, timeout=120.0, input_kwargs={'x': 1})
print(seed, k, round(time.time() - t0, 1), v if k != 'result' else (v.value, repr(v.error)))
