"""
Defect 2: an exception that ends one of the scheduler's own helper tasks (_run_dag, _run_recurrent_subgraph, ...)
is never noticed: nobody notifies the 'run' condition, so run() keeps waiting although a failed task sits in
_coro_tasks and the loop is idle.

Trigger A: a RecurrentProcessor asks for another iteration (self.next_iteration) but is consumed through a plain
           Input (the node carries no start_node / max_iterations metadata) -> the 'rec-<node>' task dies with
           networkx.NodeNotFound.
Trigger B: RecurrentSubGraph(start, dest, max_iterations=None) ("no limit") is accepted by the builder -> the
           'rec-<node>' task dies with TypeError in range(None).
Expected: run() returns an error result (the failed task is the first error of the run).
Run from /tmp/hunt_C02:  /venv/bin/python _hunt/defect_2.py
"""
import asyncio
import dataclasses
import logging
import os
import sys
import typing as t

sys.path.insert(0, os.getcwd())
logging.disable(logging.CRITICAL)

from ml_pipeline_engine.chart import PipelineChart  # noqa: E402
from ml_pipeline_engine.dag.manager import DAGRunConcurrentManager  # noqa: E402
from ml_pipeline_engine.dag_builders.annotation import build_dag  # noqa: E402
from ml_pipeline_engine.dag_builders.annotation.marks import Input, RecurrentSubGraph  # noqa: E402
from ml_pipeline_engine.node.base_nodes import ProcessorBase, RecurrentProcessor  # noqa: E402

MANAGERS: t.List[DAGRunConcurrentManager] = []


class SpyManager(DAGRunConcurrentManager):
    """Only records the manager instance so that the script can look at the tasks after the time-out."""

    def __post_init__(self) -> None:
        super().__post_init__()
        MANAGERS.append(self)


# ---- trigger A
class In(ProcessorBase):
    async def process(self, x: int) -> int:
        return x


class Refine(RecurrentProcessor):
    async def process(self, x: Input(In)) -> int:
        return self.next_iteration({'hint': 1})


class OutA(ProcessorBase):
    async def process(self, y: Input(Refine)) -> int:
        return y


# ---- trigger B
class Start(ProcessorBase):
    async def process(self, x: Input(In), additional_data: t.Any = None) -> int:
        return x if additional_data is None else x + 1


class Dest(RecurrentProcessor):
    async def process(self, s: Input(Start)) -> int:
        return self.next_iteration({'hint': 1}) if s == 1 else s


class OutB(ProcessorBase):
    async def process(self, y: RecurrentSubGraph(start_node=Start, dest_node=Dest, max_iterations=None)) -> int:
        return y


async def attempt(input_node: type, output_node: type) -> str:
    dag = dataclasses.replace(build_dag(input_node, output_node), run_manager=SpyManager)
    chart = PipelineChart('defect_2', dag)
    MANAGERS.clear()
    try:
        result = await asyncio.wait_for(chart.run(input_kwargs={'x': 1}), 3)
    except asyncio.TimeoutError:
        failed = [
            f'{task.get_name()}: {task.exception()!r}'
            for task in MANAGERS[0]._coro_tasks
            if task.done() and not task.cancelled() and task.exception() is not None
        ]
        return f'HANG (no result after 3s); failed scheduler tasks nobody looked at: {failed}'
    return f'value={result.value!r} error={result.error!r}'


def main() -> int:
    bad = False
    for title, nodes in (
        ('trigger A (next_iteration() from a node consumed by a plain Input)', (In, OutA)),
        ('trigger B (RecurrentSubGraph(..., max_iterations=None))', (In, OutB)),
    ):
        observed = asyncio.run(attempt(*nodes))
        print(f'{title}\n  expected: an error result\n  observed: {observed}')
        bad = bad or observed.startswith('HANG')
    print('DEFECT REPRODUCED' if bad else 'defect not reproduced')
    return 1 if bad else 0


if __name__ == '__main__':
    sys.exit(main())
