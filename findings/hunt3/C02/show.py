import sys
from _hunt.fuzz import *
seed = int(sys.argv[1])
g = Gen(seed); g.build()
for name, ann, beh in g.desc:
    print(name, ann, 'FAIL' if beh['fail'] else f"ret={beh['ret']!r}", f"y={beh['yields']}")
