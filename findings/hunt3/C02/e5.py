from _hunt.common import *

class Cfg(ProcessorBase):
    async def process(self) -> int:
        return 7

class In(ProcessorBase):
    async def process(self, x: int, c: Input(Cfg)) -> int:
        return x + c

class Out(ProcessorBase):
    async def process(self, y: Input(In)) -> int:
        return y

chart = PipelineChart('m', build_dag(In, Out))
print(run_chart(chart, input_kwargs={'x': 1}))
