"""
Defect 3: a node failing with an exception instance that is falsy (an error container with __len__ == 0, or any
exception class defining __bool__) hangs the run: run() tests the first task error by truth value.

Shape:   In -> Validate (raises Violations()) -> Out      (no construct needed)
Expected: an error result carrying the Violations instance.
Run from /tmp/hunt_C02:  /venv/bin/python _hunt/defect_3.py
"""
import asyncio
import logging
import os
import sys

sys.path.insert(0, os.getcwd())
logging.disable(logging.CRITICAL)

from ml_pipeline_engine.chart import PipelineChart  # noqa: E402
from ml_pipeline_engine.dag_builders.annotation import build_dag  # noqa: E402
from ml_pipeline_engine.dag_builders.annotation.marks import Input  # noqa: E402
from ml_pipeline_engine.node.base_nodes import ProcessorBase  # noqa: E402


class Violations(Exception):
    """An aggregate error: behaves like the collection of its messages."""

    def __init__(self, *messages: str) -> None:
        super().__init__(*messages)
        self.messages = list(messages)

    def __len__(self) -> int:
        return len(self.messages)


class In(ProcessorBase):
    async def process(self, x: int) -> int:
        return x


class Validate(ProcessorBase):
    async def process(self, x: Input(In)) -> int:
        raise Violations(*['bad'] * self.n_messages)

    n_messages = 0


class ValidateNonEmpty(Validate):
    name = 'validate_non_empty'
    n_messages = 1


class Out(ProcessorBase):
    async def process(self, y: Input(Validate)) -> int:
        return y


class OutNonEmpty(ProcessorBase):
    async def process(self, y: Input(ValidateNonEmpty)) -> int:
        return y


async def attempt(out_node: type) -> str:
    chart = PipelineChart('defect_3', build_dag(In, out_node))
    try:
        result = await asyncio.wait_for(chart.run(input_kwargs={'x': 1}), 3)
    except asyncio.TimeoutError:
        return 'HANG (no result after 3s)'
    return f'value={result.value!r} error={result.error!r}'


def main() -> int:
    control = asyncio.run(attempt(OutNonEmpty))
    print(f'control (Violations("bad"), truthy)\n  expected: error=Violations(...)\n  observed: {control}')
    observed = asyncio.run(attempt(Out))
    print(f'falsy exception (Violations(), len() == 0)\n  expected: error=Violations()\n  observed: {observed}')
    bad = observed.startswith('HANG')
    print('DEFECT REPRODUCED' if bad else 'defect not reproduced')
    return 1 if bad else 0


if __name__ == '__main__':
    sys.exit(main())
