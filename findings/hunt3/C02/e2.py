from _hunt.common import *

class In(ProcessorBase):
    async def process(self, x: int) -> int:
        return x

CALLS = []
class Self(RecurrentProcessor):
    use_default = True
    async def process(self, x: Input(In), additional_data: t.Any = None) -> int:
        CALLS.append(additional_data)
        if additional_data is None:
            return self.next_iteration({'again': 1})
        return 10
    def get_default(self, **kwargs):
        return -1

class Out(ProcessorBase):
    async def process(self, y: RecurrentSubGraph(start_node=Self, dest_node=Self, max_iterations=3)) -> int:
        return y

chart = PipelineChart('m', build_dag(In, Out))
print(run_chart(chart, input_kwargs={'x': 1}), CALLS)
