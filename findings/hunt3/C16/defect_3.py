"""
Defect 3: the start node named by a RecurrentSubGraph mark is never registered / validated by the traversal.

_traverse_breadth_first_to_dag only runs _check_base_class(start_node): the class is neither put into the node map
nor pushed on the traversal stack. It is validated only if it happens to be reached a second time through the Input
marks of the destination. _validate_recurrent_nodes_params then reads self._node_map[start id] unconditionally.

Consequences (all shown below, expected = the specific builder error, happened = bare KeyError):
  * start node without additional_data            -> expected IncorrectParamsRecurrentNode
  * start node with an un-annotated parameter     -> expected UndefinedParamAnnotation
  * start node without a callable process         -> expected RunMethodExpectedError
  * start node with an un-rebound generic input   -> expected NonRedefinedGenericTypeError
  * a start node that has none of these defects   -> expected: builds (or a builder error), happened KeyError
whenever the start class named in the mark is not ALSO an Input-ancestor of the destination.
Control: the same defective classes placed as an Input ancestor of the destination give the specific errors.
"""
import sys, os; sys.path.insert(0, os.getcwd())
import typing as t

from ml_pipeline_engine.dag_builders.annotation import build_dag
from ml_pipeline_engine.dag_builders.annotation import errors
from ml_pipeline_engine.dag_builders.annotation.marks import Input
from ml_pipeline_engine.dag_builders.annotation.marks import InputGeneric
from ml_pipeline_engine.dag_builders.annotation.marks import RecurrentSubGraph
from ml_pipeline_engine.node import ProcessorBase
from ml_pipeline_engine.node import RecurrentProcessor
from ml_pipeline_engine.node.errors import RunMethodExpectedError
from ml_pipeline_engine.types import NodeBase


class In(ProcessorBase):
    def process(self, x: int) -> int:
        return x


class GoodStart(ProcessorBase):
    def process(self, a: Input(In), additional_data: t.Any = None) -> int:
        return a


class StartNoAdditionalData(ProcessorBase):
    def process(self, a: Input(In)) -> int:
        return a


class StartUnannotated(ProcessorBase):
    def process(self, a: Input(In), b, additional_data: t.Any = None) -> int:  # noqa
        return a


class StartNoProcess(NodeBase):
    pass


class StartGeneric(ProcessorBase):
    def process(self, a: InputGeneric(NodeBase), additional_data: t.Any = None) -> int:
        return a


class OtherGoodStart(ProcessorBase):
    def process(self, a: Input(In), additional_data: t.Any = None) -> int:
        return a


CASES = [
    (StartNoAdditionalData, errors.IncorrectParamsRecurrentNode),
    (StartUnannotated, errors.UndefinedParamAnnotation),
    (StartNoProcess, RunMethodExpectedError),
    (StartGeneric, errors.NonRedefinedGenericTypeError),
    (OtherGoodStart, None),
]


def pipeline(start: t.Any, upstream: t.Any) -> t.Any:
    """Out <- RecurrentSubGraph(start -> Dest), Dest <- Input(upstream)"""

    class Dest(RecurrentProcessor):
        def process(self, a: Input(upstream)) -> int:
            return a

    class Out(ProcessorBase):
        def process(self, a: RecurrentSubGraph(start_node=start, dest_node=Dest, max_iterations=2)) -> int:
            return a

    return Out


def attempt(start: t.Any, upstream: t.Any) -> str:
    try:
        build_dag(In, pipeline(start, upstream))
    except Exception as ex:  # noqa
        return type(ex).__name__
    return 'BUILT'


def main() -> int:
    shown = False

    # sanity: the valid program builds
    assert attempt(GoodStart, GoodStart) == 'BUILT'

    for start, expected in CASES:
        exp_name = expected.__name__ if expected else 'BUILT (or a builder error)'

        control = attempt(start, start)           # the defective class is also the Input ancestor of Dest
        got = attempt(start, GoodStart)           # the defective class is named only by the mark

        print(f'{start.__name__:24s} expected: {exp_name:32s} control (also Input ancestor): {control:30s} '
              f'named by the mark only: {got}')

        if got == 'KeyError':
            shown = True

    return 1 if shown else 0


if __name__ == '__main__':
    sys.exit(main())
