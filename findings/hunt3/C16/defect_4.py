"""
Defect 4: the "start node has an additional_data parameter" rule is decided by a key of __annotations__, not by the
signature.

_validate_recurrent_nodes_params accepts the start node when 'additional_data' is a key of process.__annotations__.
An annotated *additional_data (VAR_POSITIONAL) or **additional_data (VAR_KEYWORD) produces that key although the
method has no parameter that can receive the keyword argument additional_data=... the scheduler passes on a
re-iteration (manager._get_node_kwargs: kwargs[NodeField.additional_data] = ...).

 * `*additional_data: Any`  -> accepted at build time; the first re-iteration fails with
                               TypeError "got an unexpected keyword argument"
 * `**additional_data: Any` -> accepted; the node receives {'additional_data': <data>} instead of <data>
Control: the same start node with `*rest: Any` is rejected with IncorrectParamsRecurrentNode.
"""
import sys, os; sys.path.insert(0, os.getcwd())
import asyncio
import logging
import typing as t

from ml_pipeline_engine.chart import PipelineChart
from ml_pipeline_engine.dag_builders.annotation import build_dag
from ml_pipeline_engine.dag_builders.annotation import errors
from ml_pipeline_engine.dag_builders.annotation.marks import Input
from ml_pipeline_engine.dag_builders.annotation.marks import RecurrentSubGraph
from ml_pipeline_engine.node import ProcessorBase
from ml_pipeline_engine.node import RecurrentProcessor
from ml_pipeline_engine.parallelism import threads_pool_registry


class In(ProcessorBase):
    def process(self, x: int) -> int:
        return x


class StartControl(ProcessorBase):
    def process(self, *rest: t.Any, a: Input(In)) -> int:
        return a


class StartVarPositional(ProcessorBase):
    def process(self, *additional_data: t.Any, a: Input(In)) -> int:
        return a


SEEN = []


class StartVarKeyword(ProcessorBase):
    def process(self, a: Input(In), **additional_data: t.Any) -> int:
        SEEN.append(additional_data)
        return a + (100 if additional_data else 0)


def pipeline(start: t.Any) -> t.Any:
    class Dest(RecurrentProcessor):
        def process(self, a: Input(start)) -> int:
            if a < 100:
                return self.next_iteration(5)
            return a

    class Out(ProcessorBase):
        def process(self, a: RecurrentSubGraph(start_node=start, dest_node=Dest, max_iterations=2)) -> int:
            return a

    return Out


def main() -> int:
    logging.disable(logging.CRITICAL)
    threads_pool_registry.auto_init()

    try:
        build_dag(In, pipeline(StartControl))
    except errors.IncorrectParamsRecurrentNode:
        pass
    else:
        print('control failed')
        return 2

    shown = False
    print('expected: IncorrectParamsRecurrentNode for a start node that has no `additional_data` parameter')

    for start in (StartVarPositional, StartVarKeyword):
        try:
            dag = build_dag(In, pipeline(start))
        except errors.IncorrectParamsRecurrentNode:
            print(f'happened [{start.__name__}]: rejected')
            continue

        shown = True
        result = asyncio.run(asyncio.wait_for(PipelineChart('m', dag).run(input_kwargs={'x': 1}), 10))
        print(f'happened [{start.__name__}]: DAG returned; run: value = {result.value}, error = {result.error!r}')

    if SEEN:
        print('          what **additional_data received on the re-iteration:', SEEN[-1], '(the data sent was 5)')

    return 1 if shown else 0


if __name__ == '__main__':
    sys.exit(main())
