"""
Defect 6 (minor): a fully annotated, executable process is rejected with UndefinedAnnotation when it is not a plain
function (functools.partialmethod, callable object).

_check_annotations takes the parameter list from inspect.signature(run_method) (which understands partial objects
and __call__) but the annotations from run_method.__annotations__ (which those objects do not have), so
`not annotations and parameters` is true although every parameter is annotated. run_node would execute both nodes.
A non-class output node that is unhashable ([Out]) is hashed (`visited = {output_node}`) before it is validated and
gives a bare TypeError instead of IncorrectTypeClass.
"""
import sys, os; sys.path.insert(0, os.getcwd())
import functools

from ml_pipeline_engine.dag_builders.annotation import build_dag
from ml_pipeline_engine.dag_builders.annotation.marks import Input
from ml_pipeline_engine.node import ProcessorBase


class In(ProcessorBase):
    def process(self, x: int) -> int:
        return x


class PartialNode(ProcessorBase):
    def _impl(self, const: int, a: Input(In)) -> int:
        return a + const

    process = functools.partialmethod(_impl, 3)


class _Call:
    def __call__(self, a: Input(In)) -> int:
        return a


class CallableObjectNode(ProcessorBase):
    process = _Call()


class Out(ProcessorBase):
    def process(self, a: Input(In)) -> int:
        return a


def main() -> int:
    shown = False
    print('expected: both declarations build (every parameter is annotated, process is callable); '
          'build_dag(In, [Out]) -> IncorrectTypeClass')
    for node in (PartialNode, CallableObjectNode):
        assert PartialNode().process(a=1) == 4
        try:
            build_dag(In, node)
            print(f'happened [{node.__name__}]: built')
        except Exception as ex:  # noqa
            shown = True
            print(f'happened [{node.__name__}]: {type(ex).__name__}')

    try:
        build_dag(In, [Out])
    except Exception as ex:  # noqa
        print(f'happened [output_node=[Out]]: {type(ex).__name__}: {ex}')
        shown = shown or type(ex).__name__ != 'IncorrectTypeClass'

    return 1 if shown else 0


if __name__ == '__main__':
    sys.exit(main())
