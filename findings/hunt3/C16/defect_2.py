"""
Defect 2: a node without its own process method is accepted when it derives from the library's ProcessorBase /
RecurrentProcessor (the bases every example and test uses).

ProcessorBase.process(*args, **kwargs) is a stub that raises NotImplementedError. Because of that stub
 - callable(getattr(node, 'process')) is always true -> RunMethodExpectedError can never be raised,
 - the stub has only *args / **kwargs              -> the annotation check has nothing to check,
so deleting / misspelling `process` at ANY position of a pipeline (plain input, one-of candidate, switch, recurrent
destination ...) and in build_node is not rejected at build time; the run fails with NotImplementedError.
The same declaration on top of NodeBase is rejected with RunMethodExpectedError (control).
"""
import sys, os; sys.path.insert(0, os.getcwd())
import asyncio
import typing as t

from ml_pipeline_engine.chart import PipelineChart
from ml_pipeline_engine.dag_builders.annotation import build_dag
from ml_pipeline_engine.dag_builders.annotation.marks import Input
from ml_pipeline_engine.dag_builders.annotation.marks import InputOneOf
from ml_pipeline_engine.dag_builders.annotation.marks import RecurrentSubGraph
from ml_pipeline_engine.node import ProcessorBase
from ml_pipeline_engine.node import RecurrentProcessor
from ml_pipeline_engine.node import build_node
from ml_pipeline_engine.node.errors import RunMethodExpectedError
from ml_pipeline_engine.parallelism import threads_pool_registry
from ml_pipeline_engine.types import NodeBase


class In(ProcessorBase):
    def process(self, x: int) -> int:
        return x


class Ok(ProcessorBase):
    def process(self, a: Input(In)) -> int:
        return a


# ---- the defective node: `process` is misspelled --------------------------------------------------------------
class Forgot(ProcessorBase):
    def proces(self, a: Input(In)) -> int:
        return a


class ForgotRec(RecurrentProcessor):
    def proces(self, a: Input(In)) -> int:
        return a


class ForgotPlainBase(NodeBase):  # control: same defect, base = NodeBase
    def proces(self, a: Input(In)) -> int:
        return a


class Start(ProcessorBase):
    def process(self, a: Input(In), additional_data: t.Any = None) -> int:
        return a


def shapes() -> t.Dict[str, t.Callable[[t.Any], t.Any]]:
    def plain(bad):
        class Out(ProcessorBase):
            def process(self, a: Input(bad)) -> int:
                return a
        return Out

    def oneof(bad):
        class Out(ProcessorBase):
            def process(self, a: InputOneOf([Ok, bad])) -> int:
                return a
        return Out

    def output(bad):
        return bad

    return {'plain input': plain, 'one-of candidate': oneof, 'output node': output}


def main() -> int:
    shown = False

    for name, make in shapes().items():
        try:
            build_dag(In, make(ForgotPlainBase))
        except RunMethodExpectedError:
            pass
        else:
            print('control failed: NodeBase-based node without process accepted at', name)
            return 2

    print('expected: build_dag / build_node raise RunMethodExpectedError for a node that has no process of its own')
    for name, make in shapes().items():
        try:
            dag = build_dag(In, make(Forgot))
        except RunMethodExpectedError:
            print(f'happened [{name}]: rejected')
        else:
            shown = True
            print(f'happened [{name}]: DAG returned, nodes = {list(dag.graph.nodes)}')

    class OutRec(ProcessorBase):
        def process(self, a: RecurrentSubGraph(start_node=Start, dest_node=ForgotRec, max_iterations=2)) -> int:
            return a

    try:
        build_dag(In, OutRec)
    except RunMethodExpectedError:
        print('happened [recurrent destination]: rejected')
    except KeyError as ex:
        # the stub hides the marks of the destination, so the start node is never registered (see defect_3)
        shown = True
        print('happened [recurrent destination]: not RunMethodExpectedError but a bare KeyError:', ex)
    else:
        shown = True
        print('happened [recurrent destination]: DAG returned')

    try:
        build_node(Forgot, node_name='forgot_generic')
    except RunMethodExpectedError:
        print('happened [build_node]: rejected')
    else:
        shown = True
        print('happened [build_node]: wrapper class returned')

    # what the run does with such a DAG
    class Out(ProcessorBase):
        def process(self, a: Input(Forgot)) -> int:
            return a

    try:
        dag = build_dag(In, Out)
    except Exception:
        return 1 if shown else 0

    import logging
    logging.disable(logging.CRITICAL)
    threads_pool_registry.auto_init()
    result = asyncio.run(PipelineChart('m', dag).run(input_kwargs={'x': 1}))
    print('run of the accepted DAG: value =', result.value, 'error =', repr(result.error))
    return 1 if shown else 0


if __name__ == '__main__':
    sys.exit(main())
