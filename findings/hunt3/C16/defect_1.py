"""
Defect 1: build_dag(input_node=X, output_node=None) is not rejected.

A non-class object (None) in the output-node position must be rejected with IncorrectTypeClass (every other
non-class value - 0, '', a function, an instance - is). None is used by AnnotationDAGBuilder.build as the private
sentinel of build_dag_single, so the public build_dag silently returns a ONE-NODE dag made of the input node only,
and the chart "succeeds" by returning the input node's value.
"""
import sys, os; sys.path.insert(0, os.getcwd())
import asyncio

from ml_pipeline_engine.chart import PipelineChart
from ml_pipeline_engine.dag_builders.annotation import build_dag
from ml_pipeline_engine.dag_builders.annotation import errors
from ml_pipeline_engine.dag_builders.annotation.marks import Input
from ml_pipeline_engine.node import ProcessorBase
from ml_pipeline_engine.parallelism import threads_pool_registry


class In(ProcessorBase):
    def process(self, x: int) -> int:
        return x


class Out(ProcessorBase):
    def process(self, a: Input(In)) -> int:
        return a + 100


def make_output(flag: bool):  # a factory with a forgotten return: the classic source of a None "node"
    if flag:
        return Out


def main() -> int:
    # control: other non-class outputs are rejected with the specific error
    for bad in (0, '', Out(), lambda x: x):
        try:
            build_dag(input_node=In, output_node=bad)
        except errors.IncorrectTypeClass:
            pass
        else:
            print('control failed for', bad)
            return 2

    print('expected: build_dag(In, None) raises IncorrectTypeClass, no DAG returned')
    try:
        dag = build_dag(input_node=In, output_node=make_output(False))
    except errors.IncorrectTypeClass as ex:
        print('happened: rejected with IncorrectTypeClass:', ex)
        return 0

    print('happened: a DAG was returned: nodes =', list(dag.graph.nodes), 'output_node =', dag.output_node)
    threads_pool_registry.auto_init()
    result = asyncio.run(PipelineChart('m', dag).run(input_kwargs={'x': 1}))
    print('          the chart runs "successfully": value =', result.value, 'error =', result.error)
    return 1


if __name__ == '__main__':
    sys.exit(main())
