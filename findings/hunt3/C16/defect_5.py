"""
Defect 5 (extra; an un-executable declaration that is outside the enumerated defect kinds of the property):
an input node that itself declares Input dependencies yields a CYCLIC graph that build_dag returns without any error.

Every leaf (node without marks) gets the synthetic edge input_node -> leaf. When the input node has marks, its own
leaf ancestors get that edge too: In2 -> Z (synthetic) and Z -> In2 (declared). Nothing in build() / DAG checks that the
graph is acyclic, so the DAG is returned and PipelineChart.run never finishes.
Typical trigger: passing a middle node of the pipeline as input_node.
"""
import sys, os; sys.path.insert(0, os.getcwd())
import asyncio
import logging

import networkx as nx

from ml_pipeline_engine.chart import PipelineChart
from ml_pipeline_engine.dag_builders.annotation import build_dag
from ml_pipeline_engine.dag_builders.annotation.marks import Input
from ml_pipeline_engine.node import ProcessorBase
from ml_pipeline_engine.parallelism import threads_pool_registry


class Z(ProcessorBase):
    def process(self, z: int = 0) -> int:
        return z


class Middle(ProcessorBase):
    def process(self, a: Input(Z)) -> int:
        return a


class Out(ProcessorBase):
    def process(self, a: Input(Middle)) -> int:
        return a


async def run(dag) -> str:
    try:
        result = await asyncio.wait_for(PipelineChart('m', dag).run(input_kwargs={'z': 1}), 5)
    except asyncio.TimeoutError:
        return 'HANG (no result after 5s)'
    return f'value = {result.value}, error = {result.error!r}'


def main() -> int:
    logging.disable(logging.CRITICAL)
    threads_pool_registry.auto_init()

    print('expected: build_dag(input_node=Middle, output_node=Out) is rejected (the declaration cannot be executed)')
    try:
        dag = build_dag(input_node=Middle, output_node=Out)
    except Exception as ex:  # noqa
        print('happened: rejected with', type(ex).__name__, ex)
        return 0

    cyclic = not nx.is_directed_acyclic_graph(dag.graph)
    print('happened: DAG returned; edges =', list(dag.graph.edges), '; cyclic =', cyclic)
    print('          run:', asyncio.run(run(dag)))
    return 1 if cyclic else 0


if __name__ == '__main__':
    code = main()
    sys.stdout.flush()
    os._exit(code)
