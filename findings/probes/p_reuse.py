from common import *
T=('non_async',)
seen=[]
class Inp(ProcessorBase):
    tags=T
    def process(self, x: int, additional_data=None):
        seen.append(additional_data); return x
Inp.process.__annotations__['additional_data']=object
class Dest(RecurrentProcessor):
    tags=T
    n=0
    def process(self, v: Input(Inp)):
        Dest.n+=1
        if Dest.n==1: return self.next_iteration('again')
        return v
class Out(ProcessorBase):
    tags=T
    def process(self, v: RecurrentSubGraph(start_node=Inp, dest_node=Dest, max_iterations=3)): return v
chart=PipelineChart('m', build_dag(Inp, Out))
kw={'x':1}
async def go():
    r1=await chart.run(input_kwargs=kw)
    print('C07 run1', r1.value, r1.error, 'input node saw additional_data:', list(seen), 'caller dict now:', kw); seen.clear()
    r2=await chart.run(input_kwargs={'x':2})
    print('C07 run2', r2.value, r2.error, 'input node saw additional_data:', list(seen))
asyncio.run(go())
