from common import *
import tempfile, functools, warnings
warnings.simplefilter('ignore')
from ml_pipeline_engine.artifact_store.store.filesystem import FileSystemArtifactStore
from ml_pipeline_engine.artifact_store.enums import DataFormat
T=('non_async',)
d=tempfile.mkdtemp()
class Store(FileSystemArtifactStore):
    def __init__(self, ctx): super().__init__(ctx, d)
class Inp(ProcessorBase):
    tags=T
    def process(self, x: int, additional_data=None): return x
Inp.process.__annotations__['additional_data']=object
class Dest(RecurrentProcessor):
    tags=T
    n=0
    def process(self, v: Input(Inp)):
        Dest.n+=1
        if Dest.n==1: return self.next_iteration('again')
        return v
class Out(ProcessorBase):
    tags=T
    def process(self, v: RecurrentSubGraph(start_node=Inp, dest_node=Dest, max_iterations=3)): return v
print('C19 recurrent + write-once store:', asyncio.run(run(PipelineChart('m', build_dag(Inp, Out), artifact_store=Store), x=1)))
Dest.n=0
print('C19 same without store:', asyncio.run(run(PipelineChart('m', build_dag(Inp, Out)), x=1)))

# C18
class Ctx: model_name='m'; pipeline_id='p'
async def c18():
    st=FileSystemArtifactStore(Ctx(), tempfile.mkdtemp())
    try:
        await st.save('j', {'a':1}, fmt=DataFormat.JSON)
    except Exception as e: print('C18 json save:', repr(e))
    try: print('C18 json load after failed save:', await st.load('j'))
    except Exception as e: print('C18 json load after failed save:', repr(e))
    try: await st.save('j', {'a':1}); print('resave ok')
    except Exception as e: print('C18 resave after failed save:', repr(e))
    await st.save('x.y', 'XY')
    try: print('C18 load x ->', await st.load('x'))
    except Exception as e: print('C18 load x:', repr(e))
    await st.save('a[1]', 'v')
    try: print('C18 load a[1] ->', await st.load('a[1]'))
    except Exception as e: print('C18 load a[1]:', repr(e))
asyncio.run(c18())
