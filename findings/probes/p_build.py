from common import *
from ml_pipeline_engine.dag_builders.annotation.marks import GenericInput, InputGeneric
T=('non_async',)
class Inp(ProcessorBase):
    tags=T
    def process(self, x: int): return x
class G(ProcessorBase):
    tags=T
    def process(self, v: GenericInput(ProcessorBase)): return v
class G2(ProcessorBase):
    tags=T
    def process(self, v: InputGeneric(ProcessorBase)): return v
class Out(ProcessorBase):
    tags=T
    def process(self, v: Input(G)): return v
class Out2(ProcessorBase):
    tags=T
    def process(self, v: Input(G2)): return v
try:
    dag=build_dag(Inp, Out); print('C16 GenericInput un-rebound: BUILT', asyncio.run(run(PipelineChart('m',dag), x=1)))
except Exception as e: print('C16 GenericInput un-rebound rejected:', type(e).__name__)
try:
    dag=build_dag(Inp, Out2); print('C16 InputGeneric un-rebound: BUILT')
except Exception as e: print('C16 InputGeneric un-rebound rejected:', type(e).__name__)
class Two(ProcessorBase):
    tags=T
    def process(self, a: Input(Inp), b: Input(Inp)): return (a,b)
dag=build_dag(Inp, Two)
print('C15 edges:', list(dag.graph.edges(data=True)))
print('C15 run:', asyncio.run(run(PipelineChart('m',dag), x=1)))
