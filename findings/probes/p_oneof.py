from common import *
T=('non_async',)
class Inp(ProcessorBase):
    tags=T
    def process(self, x: int): return x
class A1(ProcessorBase):
    tags=T
    def process(self, x: Input(Inp)): raise ValueError('A1')
class A2(ProcessorBase):
    tags=T
    def process(self, x: Input(A1)): return 1
class A3(ProcessorBase):
    tags=T
    def process(self, x: Input(A2)): return 1
class C1(ProcessorBase):
    tags=T
    def process(self, x: Input(A3)): return 'c1'
class C2(ProcessorBase):
    tags=T
    def process(self, x: Input(Inp)): return 'c2'
class Out(ProcessorBase):
    tags=T
    def process(self, v: InputOneOf([C1, C2])): return v
chart = PipelineChart('m', build_dag(Inp, Out))
print('oneof 3 hops fail:', asyncio.run(run(chart, x=1)))

class N1(ProcessorBase):
    tags=T
    def process(self, x: Input(Inp)): return None
class N2(ProcessorBase):
    tags=T
    def process(self, x: Input(Inp)): return 'n2'
class OutN(ProcessorBase):
    tags=T
    def process(self, v: InputOneOf([N1, N2])): return ('got', v)
chart = PipelineChart('m', build_dag(Inp, OutN))
print('oneof None candidate:', asyncio.run(run(chart, x=1)))

class F1(ProcessorBase):
    tags=T
    def process(self, x: Input(Inp)): raise ValueError('F1')
class OutF(ProcessorBase):
    tags=T
    def process(self, v: InputOneOf([F1, N2])): return ('got', v)
chart = PipelineChart('m', build_dag(Inp, OutF))
print('fallback run 1:', asyncio.run(run(chart, x=1)))
print('fallback run 2:', asyncio.run(run(chart, x=1)))
d={'x':1}
