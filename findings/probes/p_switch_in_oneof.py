from common import *
T=('non_async',)
got=[]
class Inp(ProcessorBase):
    tags=T
    def process(self, x: int): return x
class Sw(ProcessorBase):
    tags=T
    def process(self, x: Input(Inp)): return 'a'
class A(ProcessorBase):
    tags=T
    def process(self, x: Input(Inp)): raise ValueError('case A fails')
class B(ProcessorBase):
    tags=T
    def process(self, x: Input(Inp)): return 2
SC = SwitchCase(name='sc', switch=Sw, cases=[('a',A),('b',B)])
class C1(ProcessorBase):
    tags=T
    def process(self, v: SC): got.append(v); return ('c1', v)
class C2(ProcessorBase):
    tags=T
    def process(self, x: Input(Inp)): return 'c2'
class Out(ProcessorBase):
    tags=T
    def process(self, v: InputOneOf([C1, C2])): return v
chart = PipelineChart('m', build_dag(Inp, Out))
print('switch-in-oneof:', asyncio.run(run(chart, x=1)), 'C1 received:', got)
