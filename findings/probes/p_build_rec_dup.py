from common import *
T=('non_async',)
class Inp(ProcessorBase):
    tags=T
    def process(self, x: int, additional_data=None): return x
Inp.process.__annotations__['additional_data']=object
class Dest(RecurrentProcessor):
    tags=T
    def process(self, v: Input(Inp)): return v+1
class Out(ProcessorBase):
    tags=T
    def process(self, a: Input(Dest), b: RecurrentSubGraph(start_node=Inp, dest_node=Dest, max_iterations=2)): return (a,b)
dag=build_dag(Inp, Out)
print('edges into Out:', [(u,v,d) for u,v,d in dag.graph.edges(data=True) if v.endswith('Out')])
print('run:', asyncio.run(run(PipelineChart('m',dag), x=1)))
