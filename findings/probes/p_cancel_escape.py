from common import *
class Inp(ProcessorBase):
    async def process(self, x: int): return x
class Slow(ProcessorBase):
    async def process(self, x: Input(Inp)):
        await asyncio.sleep(0.05); return 1
class Fail(ProcessorBase):
    async def process(self, x: Input(Inp)):
        raise ValueError('boom')
class F2(ProcessorBase):
    async def process(self, x: Input(Fail)): return 2
class C1(ProcessorBase):
    async def process(self, a: Input(Slow), b: Input(F2)): return 'c1'
class C2(ProcessorBase):
    async def process(self, x: Input(Inp)): return 'c2'
class Out(ProcessorBase):
    async def process(self, v: InputOneOf([C1, C2])): return v
chart = PipelineChart('m', build_dag(Inp, Out))
print('cancel-escape:', asyncio.run(run(chart, x=1)))
