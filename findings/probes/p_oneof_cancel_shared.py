from common import *
import itertools
def build(order_ab, share_first):
    calls=[]
    class Inp(ProcessorBase):
        async def process(self, x: int): return x
    class X(ProcessorBase):
        async def process(self, x: Input(Inp)): calls.append('X'); raise ValueError('X fails fast')
    class S(ProcessorBase):
        async def process(self, x: Input(Inp)):
            calls.append('S:start'); await asyncio.sleep(0.05); calls.append('S:done'); return 10
    class A(ProcessorBase):
        async def process(self, x: Input(X)): calls.append('A'); return x
    class B(ProcessorBase):
        async def process(self, s: Input(S)): calls.append('B'); return s
    if order_ab:
        class Cand1(ProcessorBase):
            async def process(self, a: Input(A), b: Input(B)): return a+b
    else:
        class Cand1(ProcessorBase):
            async def process(self, b: Input(B), a: Input(A)): return a+b
    class Cand2(ProcessorBase):
        async def process(self, s: Input(S)): calls.append('Cand2'); return s+1
    if share_first:
        class Out(ProcessorBase):
            async def process(self, w: Input(S), v: InputOneOf([Cand1, Cand2])): return v
    else:
        class Out(ProcessorBase):
            async def process(self, v: InputOneOf([Cand1, Cand2])): return v
    return PipelineChart('m', build_dag(Inp, Out)), calls
for o, sf in itertools.product((True, False), repeat=2):
    chart, calls = build(o, sf)
    r = asyncio.run(run(chart, timeout=2, x=1))
    print('oneof cancel shared:', o, sf, r if r == 'HANG' else (r.value, r.error), calls)
