"""Probe: outer one-of [X, Y], both consume N; N consumes an inner one-of [A (fails), B (ok)].
X fails for its own reasons AFTER the inner one-of resolved; Y should then succeed (N has a value).
Run: /venv/bin/python p_oneof_inner_loser_poisons_outer.py"""
import asyncio, logging, sys, typing as t
sys.path.insert(0, '/repo')
from ml_pipeline_engine.chart import PipelineChart
from ml_pipeline_engine.dag_builders.annotation import build_dag
from ml_pipeline_engine.dag_builders.annotation.marks import Input, InputOneOf
from ml_pipeline_engine.node import ProcessorBase
logging.disable(logging.CRITICAL)
calls = []
class Start(ProcessorBase):
    name = 'start'
    async def process(self, num: int) -> int:
        return num
class A(ProcessorBase):
    name = 'a'
    async def process(self, num: Input(Start)) -> int:
        calls.append('a'); raise ValueError('a fails')
class B(ProcessorBase):
    name = 'b'
    async def process(self, num: Input(Start)) -> int:
        calls.append('b'); return 10
class N(ProcessorBase):
    name = 'n'
    async def process(self, v: InputOneOf([A, B])) -> int:
        calls.append('n'); return v + 1
class X(ProcessorBase):
    name = 'x'
    async def process(self, v: Input(N)) -> int:
        calls.append('x'); raise ValueError('x fails')
class Y(ProcessorBase):
    name = 'y'
    async def process(self, v: Input(N)) -> int:
        calls.append('y'); return v * 2
class Out(ProcessorBase):
    name = 'out'
    async def process(self, v: InputOneOf([X, Y])) -> int:
        return v
async def main():
    chart = PipelineChart('p', build_dag(input_node=Start, output_node=Out))
    try:
        r = await asyncio.wait_for(chart.run(input_kwargs={'num': 1}), 3)
        print('value', r.value, 'error', repr(r.error), 'calls', calls)
    except asyncio.TimeoutError:
        print('HANG', calls)
asyncio.run(main())
