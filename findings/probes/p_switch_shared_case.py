from common import *
T=('non_async',)
class Inp(ProcessorBase):
    tags=T
    def process(self, x: int): return x
class Sw(ProcessorBase):
    tags=T
    def process(self, x: Input(Inp)): return 'a' if x==1 else 'b'
class A(ProcessorBase):
    tags=T
    def process(self, x: Input(Inp)): return 10
class B(ProcessorBase):
    tags=T
    def process(self, x: Input(Inp)): return 20
SC = SwitchCase(name='sc', switch=Sw, cases=[('a',A),('b',B)])
class Out(ProcessorBase):
    tags=T
    def process(self, v: SC, direct: Input(A)): return (v, direct)
chart = PipelineChart('m', build_dag(Inp, Out))
print('label a (shared case selected):', asyncio.run(run(chart, x=1)))
print('label b:', asyncio.run(run(chart, x=2)))
