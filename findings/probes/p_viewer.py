from common import *
import types, json
sys.modules.setdefault('importlib_resources', types.ModuleType('importlib_resources'))  # not installed in this sandbox; only copy_resources needs it
from ml_pipeline_viewer.visualization.dag import GraphConfigImpl
T=('non_async',)
class Inp(ProcessorBase):
    tags=T
    def process(self, x: int): return x
class Model(ProcessorBase):
    node_type='ml_model'   # custom node type, as in docs/usage_examples.md
    tags=T
    def process(self, v: Input(Inp)): return v
dag=build_dag(Inp, Model)
try:
    cfg=GraphConfigImpl(dag).generate(name='x'); print('C20 custom node_type: ok', list(cfg.node_types))
except Exception as e: print('C20 custom node_type:', repr(e))
class Plain(ProcessorBase):
    tags=T
    def process(self, v: Input(Inp)): return v
cfg=GraphConfigImpl(build_dag(Inp, Plain)).generate(name='x')
print('C20 plain: nodes', len(cfg.nodes), 'edges', len(cfg.edges), 'json ok', bool(json.dumps(cfg.as_dict())))
