from common import *
T=('non_async',)
calls=[]
class Inp(ProcessorBase):
    tags=T
    def process(self, x: int): return x
class Start(ProcessorBase):
    tags=T
    def process(self, x: Input(Inp), additional_data=None): 
        calls.append(('Start', additional_data)); return x
Start.process.__annotations__['additional_data']=object
class Sw(ProcessorBase):
    tags=T
    def process(self, x: Input(Start)): return 'a'
class A(ProcessorBase):
    tags=T
    def process(self, x: Input(Start)): calls.append('A'); return 10
class B(ProcessorBase):
    tags=T
    def process(self, x: Input(Start)): calls.append('B'); raise ValueError('B must never run')
SC = SwitchCase(name='sc', switch=Sw, cases=[('a',A),('b',B)])
class Dest(RecurrentProcessor):
    tags=T
    n=0
    def process(self, v: SC):
        Dest.n+=1
        if Dest.n==1: return self.next_iteration('again')
        return v
class Out(ProcessorBase):
    tags=T
    def process(self, v: RecurrentSubGraph(start_node=Start, dest_node=Dest, max_iterations=3)): return v
chart = PipelineChart('m', build_dag(Inp, Out))
print('rec-switch:', asyncio.run(run(chart, x=1)), calls)
