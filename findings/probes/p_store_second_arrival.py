from common import *
got=[]
class Inp(ProcessorBase):
    async def process(self, x: int): return x
class Start(ProcessorBase):
    async def process(self, x: Input(Inp), additional_data=None):
        await asyncio.sleep(0.01); return (x, additional_data)
Start.process.__annotations__['additional_data']=object
class Dest(RecurrentProcessor):
    n=0
    async def process(self, v: Input(Start)):
        await asyncio.sleep(0.01); Dest.n+=1
        if Dest.n==1: return self.next_iteration('again')
        return ('dest', v)
class Sw(ProcessorBase):
    async def process(self, x: Input(Inp)): return 'a'
class CaseA(ProcessorBase):
    async def process(self, d: Input(Dest)): got.append(('CaseA', d)); return ('caseA', d)
class CaseB(ProcessorBase):
    async def process(self, x: Input(Inp)): return 'b'
SC = SwitchCase(name='sc', switch=Sw, cases=[('a',CaseA),('b',CaseB)])
class Out(ProcessorBase):
    async def process(self, r: RecurrentSubGraph(start_node=Start, dest_node=Dest, max_iterations=3), s: SC):
        got.append(('Out', r, s)); return (r, s)
import collections
from ml_pipeline_engine.artifact_store.store.base import ArtifactStore
saved=collections.defaultdict(list)
class Rec(ArtifactStore):
    async def save(self, node_id, data): saved[node_id].append(data)
    async def load(self, node_id): raise KeyError
chart=PipelineChart('m', build_dag(Inp, Out), artifact_store=Rec)
print('dup-republish:', asyncio.run(run(chart, x=1)), got)

for k,v in saved.items(): print('   saved', k.split('_')[-1], v)
