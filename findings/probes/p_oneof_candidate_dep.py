"""Probe: a one-of candidate that depends (plain Input) on a node which is itself a candidate of another one-of,
when the dependent one-of is scheduled first.  Run: /venv/bin/python p_oneof_candidate_dep.py"""
import asyncio, logging, sys, typing as t
sys.path.insert(0, '/repo')
from ml_pipeline_engine.chart import PipelineChart
from ml_pipeline_engine.dag_builders.annotation import build_dag
from ml_pipeline_engine.dag_builders.annotation.marks import Input, InputOneOf
from ml_pipeline_engine.node import ProcessorBase
logging.disable(logging.CRITICAL)

class Start(ProcessorBase):
    name = 'start'
    async def process(self, num: int) -> int:
        return num
class Source(ProcessorBase):
    name = 'source'
    async def process(self, num: Input(Start)) -> int:
        return num + 1
class LeftFallback(ProcessorBase):
    name = 'left_fallback'
    async def process(self, num: Input(Start)) -> int:
        return -1
class Derived(ProcessorBase):
    name = 'derived'
    async def process(self, value: Input(Source)) -> int:
        return value * 100
class RightFallback(ProcessorBase):
    name = 'right_fallback'
    async def process(self, num: Input(Start)) -> int:
        return -2
class Left(ProcessorBase):
    name = 'left'
    async def process(self, value: InputOneOf([Source, LeftFallback])) -> int:
        return value
class Right(ProcessorBase):
    name = 'right'
    async def process(self, value: InputOneOf([Derived, RightFallback])) -> int:
        return value
class OutA(ProcessorBase):
    name = 'out_a'
    async def process(self, right: Input(Right), left: Input(Left)) -> t.Tuple[int, int]:
        return left, right
class OutB(ProcessorBase):
    name = 'out_b'
    async def process(self, left: Input(Left), right: Input(Right)) -> t.Tuple[int, int]:
        return left, right

async def run(out):
    chart = PipelineChart('p', build_dag(input_node=Start, output_node=out))
    try:
        r = await asyncio.wait_for(chart.run(input_kwargs={'num': 1}), 3)
        return f'value={r.value} error={r.error!r}'
    except asyncio.TimeoutError:
        return 'HANG'
for o in (OutA, OutB):
    print(o.name, asyncio.run(run(o)))
