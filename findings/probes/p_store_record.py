from common import *
import collections
from ml_pipeline_engine.artifact_store.store.base import ArtifactStore
T=('non_async',)
saved=collections.defaultdict(list)
class Rec(ArtifactStore):
    async def save(self, node_id, data): saved[node_id].append(data)
    async def load(self, node_id): raise KeyError
# (a)+(d): recurrent pipeline
class Inp(ProcessorBase):
    tags=T
    def process(self, x: int, additional_data=None): return x
Inp.process.__annotations__['additional_data']=object
class Dest(RecurrentProcessor):
    tags=T
    n=0
    def process(self, v: Input(Inp)):
        Dest.n+=1
        if Dest.n==1: return self.next_iteration('again')
        return v
class Out(ProcessorBase):
    tags=T
    def process(self, v: RecurrentSubGraph(start_node=Inp, dest_node=Dest, max_iterations=3)): return v
r=asyncio.run(run(PipelineChart('m', build_dag(Inp, Out), artifact_store=Rec), x=1))
print('C19 recurrent:', r.value, r.error)
for k,v in saved.items(): print('   saved', k.split('_')[-1], v)
# (b): contained failure in a one-of
saved.clear()
class I2(ProcessorBase):
    tags=T
    def process(self, x: int): return x
class Bad(ProcessorBase):
    tags=T
    def process(self, x: Input(I2)): raise ValueError('candidate fails')
class Good(ProcessorBase):
    tags=T
    def process(self, x: Input(I2)): return 'good'
class O2(ProcessorBase):
    tags=T
    def process(self, v: InputOneOf([Bad, Good])): return v
r=asyncio.run(run(PipelineChart('m', build_dag(I2, O2), artifact_store=Rec), x=1))
print('C19 one-of:', r.value, r.error)
for k,v in saved.items(): print('   saved', k.split('_')[-1], v)
