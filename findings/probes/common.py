import asyncio, sys, logging
sys.path.insert(0, __import__('os').environ.get('REPO', '/repo'))
from ml_pipeline_engine.chart import PipelineChart
from ml_pipeline_engine.dag_builders.annotation import build_dag
from ml_pipeline_engine.dag_builders.annotation.marks import Input, InputOneOf, SwitchCase, RecurrentSubGraph
from ml_pipeline_engine.node import ProcessorBase, RecurrentProcessor
from ml_pipeline_engine.parallelism import threads_pool_registry
threads_pool_registry.auto_init()

async def run(chart, timeout=3, **kw):
    try:
        return await asyncio.wait_for(chart.run(input_kwargs=kw), timeout)
    except asyncio.TimeoutError:
        return 'HANG'
    except BaseException as e:
        return ('RAISED', repr(e))
