from common import *
class Inp(ProcessorBase):
    tags=('non_async',)
    def process(self, x: int): return x
class Sw(ProcessorBase):
    tags=('non_async',)
    def process(self, x: Input(Inp)): return 'zzz'
class A(ProcessorBase):
    tags=('non_async',)
    def process(self, x: Input(Inp)): return 1
class B(ProcessorBase):
    tags=('non_async',)
    def process(self, x: Input(Inp)): return 2
SC = SwitchCase(name='sc', switch=Sw, cases=[('a',A),('b',B)])
class Out(ProcessorBase):
    tags=('non_async',)
    def process(self, v: SC): return v
chart = PipelineChart('m', build_dag(Inp, Out))
print('unknown label:', asyncio.run(run(chart, x=1)))
