from common import *
got=[]
class Inp(ProcessorBase):
    async def process(self, x: int): return x
class Start(ProcessorBase):
    async def process(self, x: Input(Inp), additional_data=None): return additional_data or 'x'
Start.process.__annotations__['additional_data']=object
class D(ProcessorBase):
    async def process(self, label: Input(Start)): return label
class X(ProcessorBase):
    async def process(self, x: Input(Inp)): await asyncio.sleep(0.01); return 'value-of-X'
class Y(ProcessorBase):
    async def process(self, x: Input(Inp)): await asyncio.sleep(0.01); return 'value-of-Y'
SC = SwitchCase(name='sc', switch=D, cases=[('x',X),('y',Y)])
class Dest(RecurrentProcessor):
    n=0
    async def process(self, v: SC):
        got.append(v); Dest.n+=1
        if Dest.n==1: return self.next_iteration('y')
        return v
class Out(ProcessorBase):
    async def process(self, r: RecurrentSubGraph(start_node=Start, dest_node=Dest, max_iterations=3)): return r
chart=PipelineChart('m', build_dag(Inp, Out))
print('rec-switch-relabel:', asyncio.run(run(chart, x=1)), 'Dest received:', got, "(expected ['value-of-X', 'value-of-Y'])")
