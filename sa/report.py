"""Rule instances, verdicts, known findings, evidence files."""
from __future__ import annotations

import json
import os
import time
from dataclasses import dataclass, field
from typing import Callable, Dict, List, Optional

VERIF = os.path.dirname(os.path.dirname(os.path.abspath(__file__)))
KNOWN_FILE = os.path.join(VERIF, 'known_findings.json')
EVIDENCE_DIR = os.path.join(VERIF, 'evidence')


@dataclass
class Instance:
    rule: str
    construct: str                 # module::qualname::normalised construct (never a line number)
    verdict: str                   # PASS | VIOLATION
    where: str = ''                # file:line, orientation only
    msg: str = ''
    path: List[str] = field(default_factory=list)
    props: Optional[set] = None    # None = every property that lists the rule
    data: dict = field(default_factory=dict)

    def as_json(self) -> dict:
        d = {'rule': self.rule, 'construct': self.construct, 'verdict': self.verdict, 'where': self.where}
        if self.msg:
            d['msg'] = self.msg
        if self.path:
            d['path'] = self.path
        if self.data:
            d['data'] = self.data
        return d


class Collector:
    def __init__(self) -> None:
        self.instances: List[Instance] = []
        self.notes: List[str] = []
        self.counters: Dict[str, int] = {}

    def ok(self, rule: str, construct: str, where: str = '', msg: str = '', props=None, **data) -> None:
        self.instances.append(Instance(rule, construct, 'PASS', where, msg, [], props, data))

    def bad(self, rule: str, construct: str, where: str = '', msg: str = '', path=None, props=None, **data) -> None:
        self.instances.append(Instance(rule, construct, 'VIOLATION', where, msg, list(path or []), props, data))

    def count(self, key: str, n: int = 1) -> None:
        self.counters[key] = self.counters.get(key, 0) + n

    def note(self, text: str) -> None:
        self.notes.append(text)


def load_known() -> dict:
    if not os.path.exists(KNOWN_FILE):
        return {'known': [], 'fixed': []}
    with open(KNOWN_FILE, encoding='utf-8') as fh:
        return json.load(fh)


def known_index(known: dict) -> Dict[tuple, dict]:
    out = {}
    for entry in known.get('known', []):
        out[(entry['property'], entry['rule'], entry['construct'])] = entry
    return out
