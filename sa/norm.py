"""Semantics-preserving normalisations shared by the rules, so that a rule written against one spelling of
an idiom sees the other spellings too.

* accumulate loops        `acc = []; for t in it: [if c:] acc.append(x); ...`  ==  `[x for t in it if c]`
  (also set / dict accumulators, `if not c: continue` guards, nested loops, loop-local pure temporaries)
* early exits             `if c: continue` + rest                              ==  `if not c: rest`

Only forms whose equivalence is unconditional are rewritten; anything else returns None and the caller keeps
the variable opaque (never its initial empty value).
"""
from __future__ import annotations

import ast
import copy
from typing import Dict, List, Optional, Tuple

from .program import FuncEnv, FuncUnit, Program, unparse

_LOGGERS = ('logger', 'lock_logger', 'logging', 'log')


def is_empty_container(e: Optional[ast.AST]) -> Optional[str]:
    if isinstance(e, ast.List) and not e.elts:
        return 'list'
    if isinstance(e, ast.Dict) and not e.keys:
        return 'dict'
    if isinstance(e, ast.Call) and not e.args and not e.keywords and isinstance(e.func, ast.Name) and e.func.id in ('list', 'set', 'dict'):
        return e.func.id
    return None


def _is_logging(st: ast.stmt) -> bool:
    if isinstance(st, ast.Expr) and isinstance(st.value, ast.Constant):
        return True
    if isinstance(st, ast.Expr) and isinstance(st.value, ast.Call) and isinstance(st.value.func, ast.Attribute):
        base = st.value.func.value
        return isinstance(base, ast.Name) and base.id in _LOGGERS
    return isinstance(st, ast.Pass)


class _Subst(ast.NodeTransformer):
    def __init__(self, table: Dict[str, ast.AST]) -> None:
        self.table = table

    def visit_Name(self, node: ast.Name):
        if isinstance(node.ctx, ast.Load) and node.id in self.table:
            return copy.deepcopy(self.table[node.id])
        return node


def _subst(e: ast.AST, table: Dict[str, ast.AST]) -> ast.AST:
    if not table:
        return e
    return _Subst(table).visit(copy.deepcopy(e))


def _pure(e: ast.AST) -> bool:
    for n in ast.walk(e):
        if isinstance(n, (ast.Await, ast.Yield, ast.YieldFrom, ast.NamedExpr)):
            return False
    return True


def _neg(e: ast.AST) -> ast.AST:
    if isinstance(e, ast.UnaryOp) and isinstance(e.op, ast.Not):
        return e.operand
    return ast.UnaryOp(op=ast.Not(), operand=e)


def _body_to_clauses(body: List[ast.stmt], acc: str, kind: str, gens: List[ast.comprehension],
                     table: Dict[str, ast.AST]) -> Optional[Tuple[ast.AST, Optional[ast.AST]]]:
    """Walks one loop body; appends `if` clauses to the innermost generator; returns (element, value-or-None)."""
    body = [s for s in body if not _is_logging(s)]
    table = dict(table)
    i = 0
    while i < len(body):
        st = body[i]
        rest = body[i + 1:]
        # loop-local pure temporary
        if isinstance(st, (ast.Assign, ast.AnnAssign)) and rest:
            tgt = st.targets[0] if isinstance(st, ast.Assign) and len(st.targets) == 1 else getattr(st, 'target', None)
            if isinstance(tgt, ast.Name) and st.value is not None and _pure(st.value) and tgt.id != acc:
                table[tgt.id] = _subst(st.value, table)
                i += 1
                continue
            return None
        # guard with early continue
        if isinstance(st, ast.If) and not st.orelse and len([s for s in st.body if not _is_logging(s)]) == 1 \
                and isinstance([s for s in st.body if not _is_logging(s)][0], ast.Continue) and rest:
            gens[-1].ifs.append(_neg(_subst(st.test, table)))
            i += 1
            continue
        if rest:
            return None
        # the last statement: guarded append / nested loop / the append itself
        if isinstance(st, ast.If) and not st.orelse:
            gens[-1].ifs.append(_subst(st.test, table))
            return _body_to_clauses(st.body, acc, kind, gens, table)
        if isinstance(st, ast.For) and not st.orelse:
            if any(isinstance(n, (ast.Break,)) for n in ast.walk(st)):
                return None
            gens.append(ast.comprehension(target=st.target, iter=_subst(st.iter, table), ifs=[], is_async=0))
            return _body_to_clauses(st.body, acc, kind, gens, table)
        if isinstance(st, ast.Expr) and isinstance(st.value, ast.Call) and isinstance(st.value.func, ast.Attribute) \
                and isinstance(st.value.func.value, ast.Name) and st.value.func.value.id == acc and len(st.value.args) == 1 \
                and not st.value.keywords:
            m = st.value.func.attr
            if (kind == 'list' and m == 'append') or (kind == 'set' and m == 'add'):
                return _subst(st.value.args[0], table), None
            return None
        if isinstance(st, ast.Assign) and len(st.targets) == 1 and isinstance(st.targets[0], ast.Subscript) \
                and isinstance(st.targets[0].value, ast.Name) and st.targets[0].value.id == acc and kind == 'dict':
            return _subst(st.targets[0].slice, table), _subst(st.value, table)
        return None
    return None


_cache: Dict[Tuple[int, str], object] = {}
_keep_units: List[object] = []      # ids are cache keys: the objects must stay alive
_MUTATORS = {'append', 'add', 'extend', 'update', 'insert', 'remove', 'pop', 'clear', 'discard', 'setdefault', 'popitem',
             'sort', 'reverse', 'appendleft', 'extendleft', '__setitem__'}


def mutations_of(unit: FuncUnit, env: FuncEnv, name: str) -> List[ast.AST]:
    out = []
    for n in env.own_nodes():
        if isinstance(n, ast.Call) and isinstance(n.func, ast.Attribute) and isinstance(n.func.value, ast.Name) \
                and n.func.value.id == name and n.func.attr in _MUTATORS:
            out.append(n)
        elif isinstance(n, ast.Subscript) and isinstance(n.ctx, (ast.Store, ast.Del)) and isinstance(n.value, ast.Name) \
                and n.value.id == name:
            out.append(n)
        elif isinstance(n, ast.AugAssign) and isinstance(n.target, ast.Name) and n.target.id == name:
            out.append(n)
    return out


def accumulated_value(p: Program, unit: FuncUnit, name: str, init: ast.AST):
    """`name` is initialised once with an empty container.  Returns
       ('same', init)            - never mutated in the function: the initial value stands;
       ('comp', comprehension)   - filled by exactly one accumulate loop: the equivalent comprehension;
       ('opaque', None)          - mutated in some other way: the variable must not be folded."""
    key = (id(unit), name)
    if key in _cache:
        return _cache[key]
    env = FuncEnv.of(p, unit)
    kind = is_empty_container(init)
    muts = mutations_of(unit, env, name)
    if not muts:
        res = ('same', init)
    else:
        res = ('opaque', None)
        body = unit.node.body if not isinstance(unit.node, ast.Lambda) else []
        loops = [s for s in body if isinstance(s, ast.For) and any(m is n for n in ast.walk(s) for m in muts)]
        if kind is not None and len(loops) == 1 and not loops[0].orelse \
                and not any(isinstance(n, ast.Break) for n in ast.walk(loops[0])) \
                and all(any(m is n for n in ast.walk(loops[0])) for m in muts) and len(muts) == 1:
            lp = loops[0]
            gens = [ast.comprehension(target=lp.target, iter=lp.iter, ifs=[], is_async=0)]
            r = _body_to_clauses(lp.body, name, 'set' if kind == 'set' else kind, gens, {})
            if r is not None:
                elt, val = r
                if kind == 'list':
                    comp: ast.AST = ast.ListComp(elt=elt, generators=gens)
                elif kind == 'set':
                    comp = ast.SetComp(elt=elt, generators=gens)
                else:
                    comp = ast.DictComp(key=elt, value=val, generators=gens)
                ast.copy_location(comp, lp)
                ast.fix_missing_locations(comp)
                res = ('comp', comp)
    _cache[key] = res
    _keep_units.append(unit)
    return res


# ---------------------------------------------------------------------------------------------
# `if c: x = A else: x = B`  ==  `x = A if c else B`

_merge_cache: Dict[Tuple[int, str], object] = {}


def _merged(stmts: List[ast.stmt], name: str):
    stmts = [s for s in stmts if not _is_logging(s)]
    if len(stmts) != 1:
        return None, 0
    st = stmts[0]
    if isinstance(st, ast.Assign) and len(st.targets) == 1 and isinstance(st.targets[0], ast.Name) and st.targets[0].id == name:
        return st.value, 1
    if isinstance(st, ast.AnnAssign) and isinstance(st.target, ast.Name) and st.target.id == name and st.value is not None:
        return st.value, 1
    if isinstance(st, ast.If) and st.orelse:
        a, na = _merged(st.body, name)
        b, nb = _merged(st.orelse, name)
        if a is not None and b is not None:
            e = ast.IfExp(test=st.test, body=a, orelse=b)
            ast.copy_location(e, st)
            ast.fix_missing_locations(e)
            return e, na + nb
    return None, 0


def merged_if_value(p: Program, unit: FuncUnit, name: str, ndefs: int) -> Optional[ast.AST]:
    """All `ndefs` definitions of `name` are the arms of one if / elif / else statement that does nothing else:
    the equivalent conditional expression, else None."""
    key = (id(unit), name)
    if key in _merge_cache:
        return _merge_cache[key]
    res = None
    env = FuncEnv.of(p, unit)
    for n in env.own_nodes():
        if isinstance(n, ast.If) and n.orelse:
            e, cnt = _merged([n], name)
            if e is not None and cnt == ndefs:
                res = e
                break
    _merge_cache[key] = res
    _keep_units.append(unit)
    return res


# ---------------------------------------------------------------------------------------------
# outlined statement blocks: `self._helper(a, b, callback)` as a statement, where the helper is a method of the
# same class made of plain statements (no value returned), is the helper's body with the arguments substituted.

import dataclasses

_view_cache: Dict[object, object] = {}


def _simple_arg(e: ast.AST) -> bool:
    if isinstance(e, (ast.Constant, ast.Name)):
        return True
    if isinstance(e, ast.Attribute):
        return _simple_arg(e.value)
    return False


def _inlinable_call(p: Program, unit: FuncUnit, st: ast.stmt):
    if not (isinstance(st, ast.Expr) and isinstance(st.value, ast.Call)):
        return None
    c = st.value
    if not (isinstance(c.func, ast.Attribute) and isinstance(c.func.value, ast.Name) and c.func.value.id == 'self'):
        return None
    if unit.cls is None:
        return None
    m = p.lookup_method(unit.cls, c.func.attr, unit.cls)
    if m is None or m.is_async or m.is_property or m.is_static or m.is_classmethod or m is unit or isinstance(m.node, ast.Lambda):
        return None
    if any(isinstance(a, ast.Starred) for a in c.args) or any(k.arg is None for k in c.keywords):
        return None
    a = m.node.args
    if a.vararg or a.kwarg or a.kwonlyargs or getattr(a, 'posonlyargs', None):
        return None
    params = [x.arg for x in a.args][1:]
    if len(c.args) > len(params):
        return None
    table: Dict[str, ast.AST] = {}
    prelude: List[ast.stmt] = []

    def bind(name: str, arg: ast.AST) -> None:
        if _simple_arg(arg):
            table[name] = arg
            return
        # an argument that is computed (`self._expand(worklist.take(), ...)`): evaluated once, before the spliced body
        tmp = f'{name}__arg_{m.name.strip("_")}'
        asg = ast.Assign(targets=[ast.Name(id=tmp, ctx=ast.Store())], value=arg, type_comment=None)
        ast.copy_location(asg, st)
        ast.fix_missing_locations(asg)
        prelude.append(asg)
        table[name] = ast.copy_location(ast.Name(id=tmp, ctx=ast.Load()), st)
    for name, arg in zip(params, c.args):
        bind(name, arg)
    for k in c.keywords:
        if k.arg not in params or k.arg in table:
            return None
        bind(k.arg, k.value)
    defaults = dict(zip(reversed(params), reversed(a.defaults)))
    for name in params:
        if name not in table:
            if name not in defaults or not _simple_arg(defaults[name]):
                return None
            table[name] = defaults[name]
    body = list(m.node.body)
    if body and isinstance(body[0], ast.Expr) and isinstance(body[0].value, ast.Constant):
        body = body[1:]
    for n in ast.walk(ast.Module(body=body, type_ignores=[])):
        if isinstance(n, (ast.Return, ast.Yield, ast.YieldFrom, ast.Await, ast.Global, ast.Nonlocal, ast.FunctionDef,
                          ast.AsyncFunctionDef, ast.Lambda, ast.ClassDef)):
            return None
        if isinstance(n, ast.Name) and isinstance(n.ctx, (ast.Store, ast.Del)) and n.id in table:
            return None
    if len(body) < 2:
        return None          # thin wrappers keep their identity (accessor-like helpers are handled symbolically)
    return m, body, table, prelude


def _names_stored(stmts: List[ast.stmt]) -> set:
    return {n.id for s in stmts for n in ast.walk(s) if isinstance(n, ast.Name) and isinstance(n.ctx, (ast.Store, ast.Del))}


class _Rename(ast.NodeTransformer):
    def __init__(self, table: Dict[str, ast.AST], renames: Dict[str, str]) -> None:
        self.table = table
        self.renames = renames

    def visit_Name(self, node: ast.Name):
        if node.id in self.renames:
            return ast.copy_location(ast.Name(id=self.renames[node.id], ctx=node.ctx), node)
        if isinstance(node.ctx, ast.Load) and node.id in self.table:
            return ast.copy_location(copy.deepcopy(self.table[node.id]), node)
        return node


def _inline_block(p: Program, unit: FuncUnit, stmts: List[ast.stmt], caller_names: set, depth: int, log: List[str],
                  only: Optional[set] = None):
    out: List[ast.stmt] = []
    changed = False
    for st in stmts:
        hit = _inlinable_call(p, unit, st) if depth < 2 and (only is None or id(st) in only) else None
        if hit is not None:
            m, body, table, prelude = hit
            stored = _names_stored(body)
            renames = {n: f'{n}__{m.name.strip("_")}' for n in stored if n in caller_names}
            new_body = list(prelude)
            for b in body:
                nb = _Rename(table, renames).visit(copy.deepcopy(b))
                ast.copy_location(nb, st)
                for x in ast.walk(nb):
                    if hasattr(x, 'lineno'):
                        x.lineno = st.lineno
                        x.end_lineno = getattr(st, 'end_lineno', st.lineno)
                    elif isinstance(x, (ast.expr, ast.stmt)):
                        ast.copy_location(x, st)
                ast.fix_missing_locations(nb)
                new_body.append(nb)
            if only is None:
                new_body, _ = _inline_block(p, unit, new_body, caller_names | stored, depth + 1, log)
            out.extend(new_body)
            log.append(m.qualname)
            changed = True
            continue
        new = None
        for fld in ('body', 'orelse', 'finalbody'):
            sub = getattr(st, fld, None)
            if isinstance(sub, list) and sub and isinstance(sub[0], ast.stmt) and not isinstance(st, (ast.FunctionDef, ast.AsyncFunctionDef, ast.ClassDef)):
                nsub, ch = _inline_block(p, unit, sub, caller_names, depth, log, only)
                if ch:
                    if new is None:
                        new = copy.copy(st)
                    setattr(new, fld, nsub)
        if isinstance(st, ast.Try):
            hs = []
            hch = False
            for h in st.handlers:
                nb, ch = _inline_block(p, unit, h.body, caller_names, depth, log, only)
                if ch:
                    nh = copy.copy(h)
                    nh.body = nb
                    hs.append(nh)
                    hch = True
                else:
                    hs.append(h)
            if hch:
                if new is None:
                    new = copy.copy(st)
                new.handlers = hs
        if new is not None:
            out.append(new)
            changed = True
        else:
            out.append(st)
    return out, changed


def inline_view(p: Program, unit: FuncUnit, only: Optional[set] = None) -> Tuple[FuncUnit, List[str]]:
    """A view of `unit` in which outlined statement blocks (methods of the same class called as statements with
    plain arguments) are spliced back in; `only` restricts the splice to the given statements (by id).
    Returns (unit or its view, names of the spliced helpers)."""
    key = (id(unit), frozenset(only) if only is not None else None)
    if key in _view_cache:
        return _view_cache[key]
    res = (unit, [])
    if not isinstance(unit.node, ast.Lambda):
        env = FuncEnv.of(p, unit)
        names = set(env.local_defs())
        log: List[str] = []
        body, changed = _inline_block(p, unit, list(unit.node.body), names, 0, log, only)
        if changed:
            node = copy.copy(unit.node)
            node.body = body
            res = (dataclasses.replace(unit, node=node), log)
    _view_cache[key] = res
    _keep_units.append(unit)
    return res
