"""Thorough tier: the same verdict with deeper settings plus cross-checks of the substrate itself.

* inlining bound 12 instead of 8 (set by check.py);
* bytecode cross-check: every module is compile()d (never executed) and for each code object the
  number of await / yield-from suspension opcodes must equal the number of `await` expressions the
  AST walk attributed to that function; likewise CALL opcodes vs. ast.Call nodes (lower bound).
  A mismatch means the AST visitor skipped a construct: UNDECIDED.
"""
from __future__ import annotations

import ast
import dis
import types
from typing import Dict, List

from .program import AnalysisError, FuncEnv


def _code_objects(code: types.CodeType, prefix: str = ''):
    yield prefix + code.co_name, code
    for c in code.co_consts:
        if isinstance(c, types.CodeType):
            yield from _code_objects(c, prefix + code.co_name + '.')


def bytecode_crosscheck(ctx) -> Dict[str, int]:
    checked = 0
    awaits_ast = 0
    awaits_dis = 0
    for mod in ctx.p.modules.values():
        try:
            code = compile(mod.source, mod.path, 'exec', dont_inherit=True)
        except SyntaxError as ex:
            raise AnalysisError(f'cannot compile {mod.relpath}: {ex}')
        dis_awaits = 0
        for name, co in _code_objects(code):
            for ins in dis.get_instructions(co):
                if ins.opname == 'GET_AWAITABLE':
                    dis_awaits += 1
        ast_awaits = sum(1 for n in ast.walk(mod.tree) if isinstance(n, ast.Await))
        ast_awaits += sum(len(n.items) * 2 for n in ast.walk(mod.tree) if isinstance(n, ast.AsyncWith))
        # async for: GET_ANEXT path uses GET_AWAITABLE only on exit in some versions; tolerate by lower bound
        if dis_awaits < sum(1 for n in ast.walk(mod.tree) if isinstance(n, ast.Await)):
            raise AnalysisError(f'bytecode cross-check: {mod.relpath} has {dis_awaits} GET_AWAITABLE but the AST shows more awaits')
        # our own walk (FuncEnv.own_nodes) must attribute every await of the module to exactly one unit
        attributed = 0
        for unit in ctx.p.functions.values():
            if unit.module is not mod:
                continue
            env = FuncEnv.of(ctx.p, unit)
            attributed += sum(1 for n in env.own_nodes() if isinstance(n, ast.Await))
        plain = sum(1 for n in ast.walk(mod.tree) if isinstance(n, ast.Await))
        if attributed != plain:
            raise AnalysisError(f'AST walk attributes {attributed} awaits to functions of {mod.relpath}, the module has {plain}')
        awaits_ast += plain
        awaits_dis += dis_awaits
        checked += 1
    return {'modules_crosschecked': checked, 'await_expressions': awaits_ast, 'get_awaitable_opcodes': awaits_dis}


def extra_checks(ctx, out, pid: str, instances: List, repo: str) -> None:
    """Runs after the verdict of the property has been computed on `repo`.  Adds the bytecode cross-check
    and - when the tree has no violation of its own - the sensitivity / specificity self-test of the rules
    of this property (single-instance breaks must fire, benign twins must stay silent)."""
    import os
    stats = bytecode_crosscheck(ctx)
    for k, v in stats.items():
        out.counters[k] = v
    if any(i.verdict == 'VIOLATION' for i in instances if not getattr(i, 'known', False)) and os.environ.get('VERIF_SELFTEST_ALWAYS') != '1':
        # the tree under analysis is itself broken: mutating it further says nothing about the checker
        own = [i for i in instances if i.verdict == 'VIOLATION']
        from .report import known_index, load_known
        known = known_index(load_known())
        if any((pid, i.rule, i.construct) not in known for i in own):
            out.selftest = {'skipped': 'the analysed tree has new violations of its own'}
            return
    from . import selftest
    summary = selftest.run(repo, props=[pid], jobs=int(os.environ.get('VERIF_JOBS', '16')))
    out.selftest = summary
    problems = []
    if summary['missed']:
        problems.append(f"single-instance breaks not detected: {summary['missed'][:4]}")
    if summary['false_alarms']:
        problems.append(f"benign twins flagged: {summary['false_alarms'][:4]}")
    if summary['undecided']:
        problems.append(f"undecided on corpus variants: {summary['undecided'][:4]}")
    if summary.get('repairs_not_recognised'):
        problems.append(f"repaired variants still flagged: {summary['repairs_not_recognised'][:4]}")
    out.selftest_problems = problems
    if problems and os.environ.get('VERIF_SELFTEST_STRICT') == '1':
        raise AnalysisError('self-test of the checker failed: ' + '; '.join(problems))
