"""Symbolic values: expressions of inlined activations rewritten into the terms of the root
activation (parameters substituted by the caller's arguments, single-definition locals by their
definition, simple accessor functions and properties by their body)."""
from __future__ import annotations

import ast
from typing import Dict, List, Optional, Tuple

from .program import FuncEnv, FuncUnit, Program, dotted, unparse

MAX_TERM_DEPTH = 24


def _owner_inst(inst, name: str):
    """The activation in whose scope `name` is defined (the activation itself, or lexical parents
    for closures).  Returns (inst, kind) with kind in 'param' | 'local' | None(global)."""
    cur = inst
    hops = 0
    while cur is not None and hops < 16:
        defs = FuncEnv.of(_P[0], cur.unit).local_defs().get(name)
        if defs:
            return cur, defs
        nxt = cur.lexical
        if nxt is None and cur.unit.parent is not None:
            # nested def/lambda evaluated in place: look for the defining activation up the stack
            up = cur.parent
            while up is not None and up.unit is not cur.unit.parent:
                up = up.parent
            nxt = up
            if nxt is None:
                # analysed standalone: fall back to a pseudo activation of the parent
                nxt = _pseudo_parent(cur)
        cur = nxt
        hops += 1
    return None, None


_P: List[Optional[Program]] = [None]
_pseudo: Dict[int, object] = {}


def _pseudo_parent(inst):
    from .cfg import Inst
    key = id(inst.unit.parent)
    if key not in _pseudo:
        _pseudo[key] = Inst(inst.unit.parent, None, None, {})
    return _pseudo[key]


def resolve_value(p: Program, expr: ast.AST, inst, _depth: int = 0):
    """Follow names through parameter bindings and single local definitions."""
    _P[0] = p
    while isinstance(expr, ast.Name) and _depth < 32:
        _depth += 1
        owner, defs = _owner_inst(inst, expr.id)
        if owner is None:
            return expr, inst
        b = owner.binding.get(expr.id)
        if b is not None and any(d[0] in ('param', 'vararg', 'kwarg') for d in defs):
            if b[0] == 'expr':
                expr, inst = b[1], b[2]
                continue
            if b[0] == 'default':
                from .cfg import Inst
                # a default is evaluated where the function is defined: for a lambda / nested function the enclosing activation
                if getattr(owner, 'lexical', None) is not None:
                    expr, inst = b[1], owner.lexical
                elif owner.unit.parent is not None:
                    expr, inst = b[1], _pseudo_parent(owner)
                else:
                    expr, inst = b[1], Inst(b[2], None, None, {})
                continue
            return expr, owner
        if len(defs) == 1 and defs[0][0] in ('assign', 'annassign'):
            val = defs[0][1] if defs[0][0] == 'assign' else defs[0][2]
            if val is None:
                return expr, owner
            from . import norm
            if norm.is_empty_container(val) is not None:
                how, acc = norm.accumulated_value(p, owner.unit, expr.id, val)
                if how == 'opaque':
                    return expr, owner          # filled by mutation: never fold to the empty initial value
                val = acc
            expr, inst = val, owner
            continue
        if len(defs) > 1 and all(d[0] in ('assign', 'annassign') for d in defs):
            from . import norm
            merged = norm.merged_if_value(p, owner.unit, expr.id, len(defs))
            if merged is not None:
                expr, inst = merged, owner
                continue
        return expr, owner
    return expr, inst


def resolve_params_only(p: Program, expr: ast.AST, inst, _depth: int = 0):
    """Follow a name through parameter bindings only: the variable of the outermost activation that
    holds the value (not its definition)."""
    _P[0] = p
    while isinstance(expr, ast.Name) and _depth < 32:
        _depth += 1
        owner, defs = _owner_inst(inst, expr.id)
        if owner is None:
            return expr, inst
        b = owner.binding.get(expr.id)
        if b is not None and any(d[0] in ('param',) for d in defs) and b[0] == 'expr':
            expr, inst = b[1], b[2]
            continue
        return expr, owner
    return expr, inst


def resolve_callable_value(p: Program, expr: Optional[ast.AST], inst):
    """-> (unit, pre_bound, lexical_inst, extra_positional) or None."""
    if expr is None:
        return None
    _P[0] = p
    e, i = resolve_value(p, expr, inst)
    if isinstance(e, ast.Lambda):
        unit = p.unit_of_node.get(id(e))
        if unit is None:
            return None
        return unit, {}, i, []
    if isinstance(e, ast.Call):
        env = FuncEnv.of(p, i.unit)
        targets = env.resolve_call(e)
        if any(t[0] == 'ext' and t[1] == 'functools.partial' for t in targets) and e.args:
            inner = resolve_callable_value(p, e.args[0], i)
            if inner is None:
                return None
            unit, pre, lex, extra = inner
            pre = dict(pre)
            extra = list(extra) + [('expr', a, i) for a in e.args[1:]]
            for kw in e.keywords:
                if kw.arg is not None:
                    pre[kw.arg] = ('expr', kw.value, i)
            return unit, pre, lex, extra
        return None
    if isinstance(e, (ast.Name, ast.Attribute)):
        env = FuncEnv.of(p, i.unit)
        if isinstance(e, ast.Name):
            owner, defs = _owner_inst(i, e.id)
            if owner is not None and len(defs) == 1 and defs[0][0] == 'def':
                return defs[0][1], {}, owner, []
        t = env.type_of(e)
        if t[0] == 'func':
            return t[1], {}, None, []
        if t[0] == 'bound':
            unit = t[2]
            params = unit.params()
            pre = {}
            if params and isinstance(e, ast.Attribute) and not unit.is_static:
                pre[params[0]] = ('expr', e.value, i)
            return unit, pre, None, []
    return None


# ---------------------------------------------------------------------------------------------
# Terms
# ---------------------------------------------------------------------------------------------

_attr_store_cache: Dict[int, set] = {}


def stored_attrs(p: Program) -> set:
    """Names of attributes assigned anywhere in the program outside class bodies (x.attr = ...)."""
    key = id(p)
    if key not in _attr_store_cache:
        out = set()
        for mod in p.modules.values():
            for n in ast.walk(mod.tree):
                if isinstance(n, ast.Attribute) and isinstance(n.ctx, (ast.Store, ast.Del)):
                    out.add(n.attr)
        _attr_store_cache[key] = out
    return _attr_store_cache[key]


def simple_return(unit: FuncUnit) -> Optional[ast.AST]:
    """The expression of a function whose body is `[docstring] [logging calls] return <expr>`."""
    if isinstance(unit.node, ast.Lambda):
        return unit.node.body
    body = list(unit.node.body)
    if body and isinstance(body[0], ast.Expr) and isinstance(body[0].value, ast.Constant):
        body = body[1:]
    while body and isinstance(body[0], ast.Expr) and isinstance(body[0].value, ast.Call):
        d = dotted(body[0].value.func) or ''
        if d.split('.')[0] in ('logger', 'lock_logger', 'logging', 'warnings'):
            body = body[1:]
        else:
            break
    if len(body) == 1 and isinstance(body[0], ast.Return) and body[0].value is not None:
        ret = body[0].value
        # only accessor-like bodies are transparent; anything that computes keeps its identity
        for n in ast.walk(ret):
            if isinstance(n, (ast.ListComp, ast.SetComp, ast.DictComp, ast.GeneratorExp, ast.Lambda, ast.IfExp)):
                return None
        return ret
    return None


def term(p: Program, expr: ast.AST, inst, depth: int = 0):
    _P[0] = p
    if depth > MAX_TERM_DEPTH:
        return ('deep', unparse(expr))
    if isinstance(expr, ast.Constant):
        return ('const', expr.value)
    if isinstance(expr, ast.Await):
        return term(p, expr.value, inst, depth + 1)
    if isinstance(expr, ast.Name):
        e, i = resolve_value(p, expr, inst)
        if not isinstance(e, ast.Name):
            return term(p, e, i, depth + 1)
        owner, defs = _owner_inst(i, e.id)
        if owner is None:
            res = p.resolve_global(i.unit.module, e.id)
            if res[0] == 'class':
                return ('global', res[1].qualname)
            if res[0] == 'func':
                return ('global', res[1].fid)
            if res[0] == 'value':
                return ('global', f'{res[1].name}::{e.id}')
            if res[0] == 'ext':
                return ('global', res[1])
            if res[0] == 'module':
                return ('global', res[1])
            return ('global', f'builtins.{e.id}')
        kinds = {d[0] for d in defs}
        if kinds & {'param', 'vararg', 'kwarg'}:
            b = owner.binding.get(e.id)
            if b is not None and b[0] == 'pack':
                return ('tuple', tuple(term(p, x[1], x[2], depth + 1) if x[0] == 'expr' else ('unknown',) for x in b[1]))
            if b is not None and b[0] == 'kwpack':
                return ('kwpack', tuple(sorted((k, term(p, v[1], v[2], depth + 1)) for k, v in b[1].items())))
            if owner.parent is None or b is None:
                return ('param', e.id) if owner.parent is None else ('param@', owner.unit.qualname, e.id)
            return ('unbound', owner.unit.qualname, e.id)
        if len(defs) == 1 and defs[0][0] == 'iter':
            return ('elem', term(p, defs[0][1], owner, depth + 1))
        if len(defs) == 1 and defs[0][0] == 'unpack':
            _, k, value, idx = defs[0]
            base = term(p, value, owner, depth + 1)
            if k == 'iter':
                base = ('elem', base)
            return ('item', base, idx)
        if len(defs) == 1 and defs[0][0] == 'with':
            return ('ctx', term(p, defs[0][1], owner, depth + 1))
        if len(defs) == 1 and defs[0][0] == 'except':
            return ('caught', owner.unit.qualname, e.id)
        return ('local', owner.unit.qualname, e.id)
    if isinstance(expr, ast.Attribute):
        env = FuncEnv.of(p, inst.unit)
        bt = env.type_of(expr.value)
        if bt[0] == 'class':
            m = p.lookup_method(bt[1], expr.attr, inst.unit.cls)
            if m is not None and m.is_property:
                ret = simple_return(m)
                if ret is not None:
                    from .cfg import Inst
                    params = m.params()
                    pinst = Inst(m, inst, None, {params[0]: ('expr', expr.value, inst)} if params else {})
                    return term(p, ret, pinst, depth + 1)
                return ('prop', term(p, expr.value, inst, depth + 1), expr.attr)
            f = p.lookup_field(bt[1], expr.attr)
            if f is not None and m is None:
                owner_cls, ann, default = f
                is_classvar = ann is not None and 'ClassVar' in unparse(ann)
                if isinstance(default, ast.Constant) and expr.attr not in stored_attrs(p) and not p.is_protocol(owner_cls) \
                        and not is_classvar and not p.is_protocol(bt[1]):
                    return ('const', default.value)
        if bt[0] == 'type' and bt[1][0] == 'class':
            base = term(p, expr.value, inst, depth + 1)
            if isinstance(base, tuple) and base and base[0] == 'global':
                return ('global', f'{bt[1][1].qualname}.{expr.attr}')
            return ('attr', base, expr.attr)          # a variable holding some class: not a constant member
        if bt[0] == 'module':
            return ('global', f'{bt[1]}.{expr.attr}')
        if bt[0] == 'extsym':
            return ('global', f'{bt[1]}.{expr.attr}')
        return ('attr', term(p, expr.value, inst, depth + 1), expr.attr)
    if isinstance(expr, ast.Subscript):
        return ('idx', term(p, expr.value, inst, depth + 1), term(p, expr.slice, inst, depth + 1))
    if isinstance(expr, ast.Call):
        return call_term(p, expr, inst, depth)
    if isinstance(expr, (ast.Tuple, ast.List)):
        return ('tuple', tuple(term(p, x, inst, depth + 1) for x in expr.elts))
    if isinstance(expr, ast.Starred):
        return ('star', term(p, expr.value, inst, depth + 1))
    if isinstance(expr, ast.Lambda):
        u = p.unit_of_node.get(id(expr))
        return ('lambda', u.fid if u else unparse(expr))
    if isinstance(expr, ast.JoinedStr):
        return ('fstr', unparse(expr))
    if isinstance(expr, ast.UnaryOp) and isinstance(expr.op, ast.Not):
        return ('not', term(p, expr.operand, inst, depth + 1))
    if isinstance(expr, ast.BoolOp):
        return ('and' if isinstance(expr.op, ast.And) else 'or',
                tuple(term(p, v, inst, depth + 1) for v in expr.values))
    if isinstance(expr, ast.Compare) and len(expr.ops) == 1:
        return ('cmp', type(expr.ops[0]).__name__, term(p, expr.left, inst, depth + 1),
                term(p, expr.comparators[0], inst, depth + 1))
    if isinstance(expr, ast.IfExp):
        return ('ifexp', term(p, expr.test, inst, depth + 1), term(p, expr.body, inst, depth + 1),
                term(p, expr.orelse, inst, depth + 1))
    if isinstance(expr, (ast.ListComp, ast.SetComp, ast.GeneratorExp)):
        return ('comp', unparse(expr))
    if isinstance(expr, ast.Dict):
        return ('dict', unparse(expr))
    return ('expr', unparse(expr))


def call_term(p: Program, c: ast.Call, inst, depth: int):
    from .cfg import Builder, Inst
    env = FuncEnv.of(p, inst.unit)
    targets = env.resolve_call(c)
    hov = None
    if all(t[0] == 'unknown' for t in targets):
        hov = resolve_callable_value(p, c.func, inst)
    funcs = [t for t in targets if t[0] == 'func']
    args = tuple(term(p, a, inst, depth + 1) for a in c.args)
    kws = tuple(sorted((k.arg or '**', term(p, k.value, inst, depth + 1)) for k in c.keywords))
    if hov is not None:
        unit, pre, lex, extra = hov
        ret = simple_return(unit)
        if ret is not None and inst.depth < 24:
            binding = Builder.bind(None, c, unit, inst, None, pre, extra)
            return term(p, ret, Inst(unit, inst, c, binding, lexical=lex), depth + 1)
        return ('call', unit.fid, args, kws)
    if len(funcs) == 1 and not any(t[0] == 'proto' for t in targets):
        unit, recv = funcs[0][1], funcs[0][2]
        ret = simple_return(unit)
        if ret is not None and not unit.is_async and unit not in inst.stack() and inst.depth < 24:
            binding = Builder.bind(None, c, unit, inst, recv, None, None)
            return term(p, ret, Inst(unit, inst, c, binding), depth + 1)
        rterm = (term(p, recv, inst, depth + 1),) if recv is not None else ()
        return ('call', unit.fid, rterm + args, kws)
    if funcs:
        recv = funcs[0][2]
        rterm = (term(p, recv, inst, depth + 1),) if recv is not None else ()
        return ('call', '|'.join(sorted(f[1].fid for f in funcs)), rterm + args, kws)
    for t in targets:
        if t[0] == 'class':
            return ('new', t[1].qualname, args, kws)
        if t[0] == 'ext':
            if t[1] == 'builtins.getattr' and len(args) == 2 and not kws and args[1][0] == 'const' and isinstance(args[1][1], str):
                return ('attr', args[0], args[1][1])          # getattr(x, 'name') is x.name
            if isinstance(c.func, ast.Attribute) and not t[1].startswith(('builtins.', 'functools.', 'asyncio.', 'networkx.')) \
                    or (isinstance(c.func, ast.Attribute) and env.type_of(c.func.value)[0] in ('ext', 'extattr', 'class', 'dict', 'seq')):
                return ('call', f'ext:{t[1]}', (term(p, c.func.value, inst, depth + 1),) + args, kws)
            return ('call', f'ext:{t[1]}', args, kws)
    if isinstance(c.func, ast.Attribute):
        return ('call', f'?.{c.func.attr}', (term(p, c.func.value, inst, depth + 1),) + args, kws)
    return ('call', f'?{unparse(c.func)}', (term(p, c.func, inst, depth + 1),) + args, kws)


def show(t) -> str:
    if not isinstance(t, tuple) or not t:
        return repr(t)
    k = t[0]
    if k == 'const':
        return repr(t[1])
    if k == 'param':
        return t[1]
    if k == 'param@':
        return f'{t[2]}@{t[1]}'
    if k == 'attr':
        return f'{show(t[1])}.{t[2]}'
    if k == 'prop':
        return f'{show(t[1])}.{t[2]}'
    if k == 'idx':
        return f'{show(t[1])}[{show(t[2])}]'
    if k == 'elem':
        return f'each({show(t[1])})'
    if k == 'item':
        return f'{show(t[1])}{list(t[2])}'
    if k == 'global':
        return t[1].split('::')[-1]
    if k == 'call':
        name = t[1].split('::')[-1]
        parts = [show(a) for a in t[2]] + [f'{kk}={show(v)}' for kk, v in t[3]]
        return f'{name}({", ".join(parts)})'
    if k == 'new':
        parts = [show(a) for a in t[2]] + [f'{kk}={show(v)}' for kk, v in t[3]]
        return f'{t[1].split("::")[-1]}({", ".join(parts)})'
    if k == 'tuple':
        return '(' + ', '.join(show(x) for x in t[1]) + ')'
    if k == 'local':
        return f'{t[2]}'
    if k in ('not',):
        return f'not {show(t[1])}'
    if k in ('and', 'or'):
        return '(' + f' {k} '.join(show(x) for x in t[1]) + ')'
    if k == 'cmp':
        return f'({show(t[2])} {t[1]} {show(t[3])})'
    if k in ('expr', 'fstr', 'comp', 'dict', 'deep', 'lambda'):
        return str(t[1])
    if k == 'ctx':
        return f'ctx({show(t[1])})'
    if k == 'star':
        return f'*{show(t[1])}'
    return str(t)


def subterms(t):
    yield t
    if isinstance(t, tuple):
        for x in t[1:]:
            if isinstance(x, tuple):
                if x and isinstance(x[0], str):
                    yield from subterms(x)
                else:
                    for y in x:
                        if isinstance(y, tuple):
                            if len(y) == 2 and isinstance(y[0], str) and isinstance(y[1], tuple) and y[1] and isinstance(y[1][0], str) and y[0] not in _KINDS:
                                yield from subterms(y[1])
                            else:
                                yield from subterms(y)


_KINDS = {'const', 'param', 'param@', 'attr', 'prop', 'idx', 'elem', 'item', 'global', 'call', 'new', 'tuple',
          'local', 'not', 'and', 'or', 'cmp', 'expr', 'fstr', 'comp', 'dict', 'deep', 'lambda', 'ctx', 'star',
          'unbound', 'caught', 'kwpack', 'ifexp', 'unknown'}


def mentions(t, pred) -> bool:
    return any(pred(s) for s in subterms(t))
