"""Fact-sensitive path search over event graphs.

The search explores (event, automaton state, facts).  *Facts* are what the path has established about
local variables that hold constants (flags) and about pure branch tests, per activation; a branch
whose test is decided by the facts is followed only along the feasible edge.  This is the product of
the CFG with local boolean flags: it removes the infeasible paths that a path-insensitive walk would
report (e.g. `to_unlock_descendants`, `has_errors`).
"""
from __future__ import annotations

import ast
from collections import deque
from typing import Callable, Dict, FrozenSet, Iterable, List, Optional, Tuple

from . import sym
from .cfg import Ev, Graph
from .program import Program, unparse

Facts = FrozenSet[Tuple]

_PURE_CALLS = {'isinstance', 'len', 'bool', 'callable', 'hasattr'}


_fn_cache: Dict[int, frozenset] = {}
_pure_cache: Dict[int, bool] = {}
_norm_cache: Dict[int, str] = {}
_keep_alive: List[ast.AST] = []


_KEEP: list = []
_ALIAS_TERMS: set = set()
_NAME_NODES: Dict[tuple, ast.Name] = {}


def free_names(expr: ast.AST) -> frozenset:
    key = id(expr)
    r = _fn_cache.get(key)
    if r is None:
        r = frozenset(n.id for n in ast.walk(expr) if isinstance(n, ast.Name))
        _fn_cache[key] = r
        _keep_alive.append(expr)
    return r


def is_pure(expr: ast.AST) -> bool:
    key = id(expr)
    r = _pure_cache.get(key)
    if r is None:
        r = _is_pure(expr)
        _pure_cache[key] = r
        _keep_alive.append(expr)
    return r


# Call nodes that resolve only to *observers*: synchronous in-repo functions that write nothing (store predicates such as
# `exists_processed_node`).  Registered per program by register_observers(); such a call is as good as a pure test between two
# writes, which is the granularity the fact machinery already works at.
_OBSERVER_CALLS: set = set()
_OBSERVERS_DONE: set = set()


def register_observers(p: Program) -> None:
    if id(p) in _OBSERVERS_DONE:
        return
    _OBSERVERS_DONE.add(id(p))
    _KEEP.append(p)
    from .effects import MUTATORS
    from .program import FuncEnv
    verdict: Dict[str, bool] = {}

    def observer(unit, depth: int = 0) -> bool:
        if unit.fid in verdict:
            return verdict[unit.fid]
        verdict[unit.fid] = False               # recursion guard
        if getattr(unit, 'is_async', False) or depth > 3 or isinstance(unit.node, ast.Lambda):
            return False
        env = FuncEnv.of(p, unit)
        ok = True
        for n in env.own_nodes():
            if isinstance(n, (ast.Assign, ast.AugAssign, ast.AnnAssign)):
                tgts = n.targets if isinstance(n, ast.Assign) else [n.target]
                if any(isinstance(t, (ast.Attribute, ast.Subscript)) for t in tgts):
                    ok = False
            elif isinstance(n, (ast.Delete, ast.Await, ast.Yield, ast.YieldFrom, ast.Global, ast.Nonlocal, ast.Raise)):
                ok = False
            elif isinstance(n, ast.Call):
                if isinstance(n.func, ast.Attribute) and n.func.attr in MUTATORS:
                    ok = False
                for t in env.resolve_call(n):
                    if t[0] == 'func' and not observer(t[1], depth + 1):
                        ok = False
                    elif t[0] in ('class', 'unknown', 'proto'):
                        ok = False
            if not ok:
                break
        verdict[unit.fid] = ok
        return ok

    for unit in list(p.functions.values()):
        env = FuncEnv.of(p, unit)
        for n in env.own_nodes():
            if isinstance(n, ast.Call) and isinstance(n.func, ast.Attribute):
                ts = env.resolve_call(n)
                if ts and all(t[0] == 'func' and observer(t[1]) for t in ts):
                    _OBSERVER_CALLS.add(id(n))
                    _KEEP.append(n)


def _is_pure(expr: ast.AST) -> bool:
    for n in ast.walk(expr):
        if isinstance(n, ast.Call):
            if id(n) in _OBSERVER_CALLS:
                continue
            if not (isinstance(n.func, ast.Name) and n.func.id in _PURE_CALLS):
                return False
        elif isinstance(n, (ast.Await, ast.Yield, ast.YieldFrom, ast.NamedExpr, ast.Lambda,
                            ast.ListComp, ast.SetComp, ast.DictComp, ast.GeneratorExp)):
            return False
    return True


def _norm(expr: ast.AST) -> str:
    key = id(expr)
    r = _norm_cache.get(key)
    if r is None:
        r = _norm_uncached(expr)
        _norm_cache[key] = r
        _keep_alive.append(expr)
    return r


def _norm_uncached(expr: ast.AST) -> str:
    """Normalised text of a pure test; symmetric comparisons are order-independent."""
    if isinstance(expr, ast.Compare) and len(expr.ops) == 1 and isinstance(expr.ops[0], (ast.Eq, ast.NotEq, ast.Is, ast.IsNot)):
        a, b = sorted([' '.join(unparse(expr.left).split()), ' '.join(unparse(expr.comparators[0]).split())])
        return f'{a} {type(expr.ops[0]).__name__} {b}'
    return ' '.join(unparse(expr).split())


_entry_plans: Dict[int, list] = {}


class _Alias:
    """Hashable wrapper of the test expression a local flag was assigned from."""
    __slots__ = ('expr',)

    def __init__(self, expr: ast.AST) -> None:
        self.expr = expr

    def __hash__(self) -> int:
        return id(self.expr)

    def __eq__(self, other) -> bool:
        return isinstance(other, _Alias) and other.expr is self.expr


def _is_test_like(e: ast.AST) -> bool:
    if isinstance(e, (ast.Compare, ast.BoolOp)):
        return True
    if isinstance(e, ast.UnaryOp) and isinstance(e.op, ast.Not):
        return True
    if isinstance(e, ast.Call) and isinstance(e.func, ast.Name) and e.func.id in ('isinstance', 'bool', 'callable', 'hasattr'):
        return True
    if isinstance(e, ast.Call) and id(e) in _OBSERVER_CALLS:
        return True                     # `flag = store.has(key)`: the bare predicate call is a test as much as its negation
    return False


# activations seen by the searches (iid -> Inst): lets a pure test be keyed by its symbolic term, so that the same test in a
# caller and in an inlined callee (`flag = not store.has(k)` ... callee: `if store.has(k)`) is one fact
_INST: Dict[int, object] = {}
_TERM_KEYS: Dict[Tuple[int, int], object] = {}


def _term_key(p: Program, expr: ast.AST, iid: int):
    inst = _INST.get(iid)
    if inst is None:
        return None
    ck = (id(expr), iid)
    if ck not in _TERM_KEYS:
        key = None
        try:
            params = set(inst.unit.params())
            if free_names(expr) <= params | {'self', 'cls'}:
                key = repr(sym.term(p, expr, inst))
        except Exception:                      # noqa: BLE001 - a term that cannot be built is simply not shared
            key = None
        _TERM_KEYS[ck] = key
        _KEEP.append(expr)
    return _TERM_KEYS[ck]




class FactOps:
    def __init__(self, program: Program) -> None:
        self.p = program

    # facts are stored as a dict while being edited, frozen for hashing
    @staticmethod
    def get(facts: Facts, key):
        for k, v in facts:
            if k == key:
                return v
        return None

    @staticmethod
    def put(facts: Facts, key, value) -> Facts:
        return frozenset([(k, v) for k, v in facts if k != key] + [(key, value)])

    @staticmethod
    def kill_name(facts: Facts, iid: int, name: str) -> Facts:
        out = []
        for k, v in facts:
            if k[1] != iid:
                out.append((k, v))
                continue
            if k[0] == 'v' and k[2] == name:
                continue
            if k[0] == 't' and name in k[3]:
                continue
            if k[0] == 'a' and (k[2] == name or name in k[3]):
                continue
            out.append((k, v))
        return frozenset(out)

    @staticmethod
    def alias_of(facts: Facts, iid: int, name: str):
        for k, v in facts:
            if k[0] == 'a' and k[1] == iid and k[2] == name:
                return v
        return None

    # ---- evaluation
    def eval3(self, expr: Optional[ast.AST], iid: int, facts: Facts) -> Optional[bool]:
        if expr is None:
            return None
        if isinstance(expr, ast.Constant):
            return bool(expr.value)
        if isinstance(expr, ast.UnaryOp) and isinstance(expr.op, ast.Not):
            v = self.eval3(expr.operand, iid, facts)
            return None if v is None else (not v)
        if isinstance(expr, ast.BoolOp):
            vals = [self.eval3(v, iid, facts) for v in expr.values]
            if isinstance(expr.op, ast.And):
                if any(v is False for v in vals):
                    return False
                if all(v is True for v in vals):
                    return True
                return None
            if any(v is True for v in vals):
                return True
            if all(v is False for v in vals):
                return False
            return None
        if isinstance(expr, ast.Name):
            c = self.get(facts, ('v', iid, expr.id))
            if c is not None:
                return bool(c[0])
            al = self.alias_of(facts, iid, expr.id)
            if al is not None:
                v = self.eval3(al.expr, iid, facts)
                if v is not None:
                    return v
        if isinstance(expr, ast.Compare) and len(expr.ops) == 1:
            lc = self.const_of(expr.left, iid, facts)
            rc = self.const_of(expr.comparators[0], iid, facts)
            if lc is not None and rc is not None:
                a, b = lc[0], rc[0]
                op = expr.ops[0]
                if isinstance(op, (ast.Is, ast.Eq)):
                    return a is b if isinstance(op, ast.Is) else a == b
                if isinstance(op, (ast.IsNot, ast.NotEq)):
                    return a is not b if isinstance(op, ast.IsNot) else a != b
        if is_pure(expr):
            v = self.get(facts, ('t', iid, _norm(expr), free_names(expr)))
            if v is not None:
                return v
            tk = _term_key(self.p, expr, iid)
            if tk is not None:
                v = self.get(facts, ('T', 0, tk, frozenset()))
                if v is not None:
                    return v
        return None

    def const_of(self, expr: ast.AST, iid: int, facts: Facts):
        if isinstance(expr, ast.Constant):
            return (expr.value,)
        if isinstance(expr, ast.Name):
            return self.get(facts, ('v', iid, expr.id))
        return None

    def assume(self, expr: Optional[ast.AST], value: bool, iid: int, facts: Facts) -> Facts:
        if expr is None:
            return facts
        if isinstance(expr, ast.UnaryOp) and isinstance(expr.op, ast.Not):
            return self.assume(expr.operand, not value, iid, facts)
        if isinstance(expr, ast.BoolOp):
            if isinstance(expr.op, ast.And) and value:
                for v in expr.values:
                    facts = self.assume(v, True, iid, facts)
                return facts
            if isinstance(expr.op, ast.Or) and not value:
                for v in expr.values:
                    facts = self.assume(v, False, iid, facts)
                return facts
        if isinstance(expr, ast.Name):
            al = self.alias_of(facts, iid, expr.id)
            if al is not None:
                facts = self.assume(al.expr, value, iid, facts)
        if is_pure(expr):
            facts = self.put(facts, ('t', iid, _norm(expr), free_names(expr)), value)
            tk = _term_key(self.p, expr, iid)
            if tk is not None and tk in _ALIAS_TERMS:
                facts = self.put(facts, ('T', 0, tk, frozenset()), value)
        return facts

    # ---- transfer
    def transfer(self, g: Graph, ev: Ev, facts: Facts) -> Facts:
        iid = ev.inst.iid
        if ev.kind == 'assign':
            name = ev.info.get('name')
            value = ev.info.get('value')
            facts = self.kill_name(facts, iid, name)
            if not ev.info.get('aug') and isinstance(value, ast.Constant) and isinstance(ev.node, (ast.Assign, ast.AnnAssign)) \
                    and self._single_name_target(ev.node, name):
                facts = self.put(facts, ('v', iid, name), (value.value,))
            elif not ev.info.get('aug') and value is not None and isinstance(ev.node, (ast.Assign, ast.AnnAssign)) \
                    and self._single_name_target(ev.node, name) and _is_test_like(value) and is_pure(value) \
                    and name not in free_names(value):
                # `flag = <pure test>`: the flag stands for the test while its operands are not reassigned
                facts = self.put(facts, ('a', iid, name, free_names(value)), _Alias(value))
                # the tests a flag stands for are the only ones worth sharing between activations (keeps the state space small)
                _INST.setdefault(iid, ev.inst)
                for sub in ast.walk(value):
                    if is_pure(sub) and not isinstance(sub, (ast.Name, ast.Constant)):
                        tk = _term_key(self.p, sub, iid)
                        if tk is not None:
                            _ALIAS_TERMS.add(tk)
                known = self.eval3(value, iid, facts)
                if known is not None:
                    facts = self.put(facts, ('t', iid, name, frozenset([name])), known)
            return facts
        if ev.kind == 'loop':
            for n in free_names(ev.info.get('target')) if ev.info.get('target') is not None else ():
                facts = self.kill_name(facts, iid, n)
            return facts
        if ev.kind == 'handler':
            if ev.info.get('name'):
                facts = self.kill_name(facts, iid, ev.info['name'])
            return facts
        if ev.kind == 'ret':
            callee = ev.info.get('callee')
            if callee is not None:
                dead = callee.iid
                return frozenset((k, v) for k, v in facts if k[1] != dead)
            return facts
        if ev.kind in ('handler', 'fin') and facts:
            # an exception left inlined activations: their facts are dead
            live = set()
            cur = ev.inst
            while cur is not None:
                live.add(cur.iid)
                cur = cur.parent
            facts = frozenset((k, v) for k, v in facts if k[1] in live or k[0] == 'T')
            if ev.kind == 'handler' and ev.info.get('name'):
                facts = self.kill_name(facts, iid, ev.info['name'])
            return facts
        if ev.kind == 'entry' and ev.inst.parent is not None:
            # parameters bound to constants (directly, through defaults, or through caller flags)
            plan = _entry_plans.get(ev.inst.iid)
            if plan is None:
                plan = []
                for pname, b in ev.inst.binding.items():
                    if b[0] == 'expr':
                        e, i = sym.resolve_value(self.p, b[1], b[2])
                        if isinstance(e, ast.Constant):
                            plan.append((pname, 'const', (e.value,)))
                        elif isinstance(e, ast.Name):
                            plan.append((pname, 'name', ('v', i.iid, e.id)))
                        elif _is_test_like(e) and is_pure(e):
                            # a caller flag that stands for a test (`flag = <pure test>`): known when the test's outcome is
                            plan.append((pname, 'expr', (i.iid, e)))
                            _KEEP.append(e)
                    elif b[0] == 'default' and isinstance(b[1], ast.Constant):
                        plan.append((pname, 'const', (b[1].value,)))
                _entry_plans[ev.inst.iid] = plan
            for pname, how, what in plan:
                if how == 'expr':
                    _INST.setdefault(what[0], ev.inst.parent if ev.inst.parent is not None and ev.inst.parent.iid == what[0] else _INST.get(what[0]))
                    v = self.eval3(what[1], what[0], facts)
                    if v is not None:
                        facts = self.put(facts, ('v', iid, pname), (v,))
                    continue
                c = what if how == 'const' else self.get(facts, what)
                if c is None and how == 'name':
                    # a caller flag that stands for a test (`flag = <pure test>`) whose outcome is known by now
                    key = ('name', what[1], what[2])
                    nm = _NAME_NODES.get(key)
                    if nm is None:
                        nm = _NAME_NODES[key] = ast.Name(id=what[2], ctx=ast.Load())
                    v = self.eval3(nm, what[1], facts)
                    if v is not None:
                        c = (v,)
                if c is not None:
                    facts = self.put(facts, ('v', iid, pname), c)
            return facts
        return facts

    @staticmethod
    def _single_name_target(node, name: str) -> bool:
        if isinstance(node, ast.Assign):
            return all(isinstance(t, ast.Name) for t in node.targets)
        return True


class Search:
    """BFS over (event, state, facts)."""

    def __init__(self, program: Program, g: Graph, labels: Optional[Iterable[str]] = None,
                 max_states: int = 400000) -> None:
        self.p = program
        self.g = g
        register_observers(program)
        self.labels = set(labels) if labels is not None else None
        self.fo = FactOps(program)
        self.max_states = max_states
        self.explored = 0

    def run(self, starts: List[Tuple[int, object, Facts]],
            step: Callable[[Ev, object, Facts], object],
            goal: Callable[[Ev, object, Facts], bool],
            edge_ok: Optional[Callable[[Ev, str, Ev], bool]] = None,
            edge_step: Optional[Callable[[Optional[Ev], Optional[str], Ev, object, Facts], object]] = None):
        """`step(ev, state, facts)` is applied when *entering* ev and returns the new state or None to
        prune.  Returns (path, state, facts) for the first goal found, else None."""
        g = self.g
        prev: Dict[Tuple, Optional[Tuple]] = {}
        queue = deque()
        for node, state, facts in starts:
            ev = g.evs[node]
            facts = self.fo.transfer(g, ev, facts)
            st = edge_step(None, None, ev, state, facts) if edge_step is not None else step(ev, state, facts)
            if st is None:
                continue
            key = (node, st, facts)
            if key not in prev:
                prev[key] = None
                queue.append(key)
        while queue:
            key = queue.popleft()
            node, state, facts = key
            ev = g.evs[node]
            self.explored += 1
            if self.explored > self.max_states:
                from .program import AnalysisError
                raise AnalysisError(f'path search exceeded {self.max_states} states in {g.root.fid}')
            if goal(ev, state, facts):
                path = []
                cur: Optional[Tuple] = key
                while cur is not None:
                    path.append(cur[0])
                    cur = prev[cur]
                return list(reversed(path)), state, facts
            decided = None
            _INST.setdefault(ev.inst.iid, ev.inst)
            if ev.kind == 'branch' and ev.info.get('test') is not None:
                decided = self.fo.eval3(ev.info['test'], ev.inst.iid, facts)
            for m, lab in g.succ.get(node, ()):
                if self.labels is not None and lab not in self.labels:
                    continue
                nfacts = facts
                if ev.kind == 'branch' and lab in ('T', 'F'):
                    if decided is not None and decided != (lab == 'T'):
                        continue
                    if ev.info.get('test') is not None:
                        nfacts = self.fo.assume(ev.info['test'], lab == 'T', ev.inst.iid, facts)
                mev = g.evs[m]
                if edge_ok is not None and not edge_ok(ev, lab, mev):
                    continue
                nfacts = self.fo.transfer(g, mev, nfacts)
                nstate = edge_step(ev, lab, mev, state, nfacts) if edge_step is not None else step(mev, state, nfacts)
                if nstate is None:
                    continue
                nkey = (m, nstate, nfacts)
                if nkey in prev:
                    continue
                prev[nkey] = key
                queue.append(nkey)
        return None


EXC_LABELS = ('n', 'T', 'F', 'back', 'exc')          # Exception universe (no cancellation)
NORMAL_LABELS = ('n', 'T', 'F', 'back')
ALL_LABELS = ('n', 'T', 'F', 'back', 'exc', 'cancel')
