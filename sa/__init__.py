"""Static analysis substrate for ml-pipeline-engine (repository-specific).

Nothing in this package imports or executes code under /repo: sources are read,
parsed with `ast`, and analysed.
"""
